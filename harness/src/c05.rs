//! Suite C05: a downlink is accepted iff authentic and fresh (counter arithmetic exhaustively + frame orderings).
#![allow(dead_code, unused_imports)]
use crate::mac::*;
use crate::macgen::*;
use crate::macsuites::*;
use crate::util::*;

pub fn eval(op: &str) -> String {
    if let Some(r) = crate::adevgen::eval_dev_any(op) {
        return r;
    }
    let w: Vec<&str> = op.split_whitespace().collect();
    if w.len() == 4 && w[1] == "next" {
        let last: Option<u32> = w[2].parse().ok();
        let wire: u16 = match w[3].parse() {
            Ok(v) => v,
            Err(_) => return "bad-op".into(),
        };
        return match lorawan_device::mac::verif::next_fcnt_down(last, wire) {
            Some(n) => n.to_string(),
            None => "none".into(),
        };
    }
    if w.len() == 3 && w[1] == "next_digest" {
        let last: Option<u32> = w[2].parse().ok();
        let mut h = Fnv::new();
        for wire in 0..=65535u16 {
            h.opt(lorawan_device::mac::verif::next_fcnt_down(last, wire).map(|v| v as i64));
        }
        return format!("{:016x}", h.0);
    }
    let outs = run_history(op);
    format!("{} ## oracle={}", outs.join(" ; "), oracle_c05(op, &outs))
}

pub fn expand(_op: &str) -> Vec<String> {
    let w: Vec<&str> = _op.split_whitespace().collect();
    if w.len() == 3 && w[1] == "next_digest" {
        return (0..=65535u32).map(|x| format!("C05 next {} {}", w[2], x)).collect();
    }
    vec![]
}

pub fn run(tier: &str, seed: u64, dir: &str) {
    let mut rng = Rng::new(seed);
    let mut sink = Sink::new(dir);
    let thorough = tier == "thorough";
    // 1. the counter arithmetic, exhaustively by digest: all 2^16 wire values for `last` = none and
    //    for `last` around every class of boundary
    let mut lasts: Vec<Option<u32>> = vec![None];
    let centres: [u64; 8] = [0, 0x8000, 0xffff, 0x1_0000, 0x7fff_0000, 0xfffe_ffff, 0xffff_0000, 0xffff_ffff];
    for c in centres {
        // thorough: every value within +-1000 of the centre plus a stride of 97 out to +-70000
        // (each `last` costs 65536 evaluations on both sides)
        let span: i64 = if thorough { 1000 } else { 24 };
        let mut d = -span;
        while d <= span {
            let v = c as i64 + d;
            if (0..=0xffff_ffffi64).contains(&v) {
                lasts.push(Some(v as u32));
            }
            d += 1;
        }
        if thorough {
            let mut d = -70_000i64;
            while d <= 70_000 {
                let v = c as i64 + d;
                if (0..=0xffff_ffffi64).contains(&v) {
                    lasts.push(Some(v as u32));
                }
                d += 97;
            }
        }
        {
            for d in [-70_000i64, -16_385, -16_384, -16_383, 16_383, 16_384, 16_385, 65_535, 65_536, 70_000] {
                let v = c as i64 + d;
                if (0..=0xffff_ffffi64).contains(&v) {
                    lasts.push(Some(v as u32));
                }
            }
        }
    }
    for _ in 0..(if thorough { 2000 } else { 60 }) {
        lasts.push(Some(rng.next() as u32));
    }
    lasts.sort();
    lasts.dedup();
    for l in &lasts {
        let op = format!("C05 next_digest {}", l.map(|x| x.to_string()).unwrap_or("-".into()));
        sink.case_w(&op, &eval(&op), "next-fcnt-digest", true, 65536);
    }
    // 2. orderings of fresh / replayed / reordered / far-future / forged frames through the MAC
    let per_region = if thorough { 3000 } else { 160 };
    for region in REGIONS {
        for i in 0..per_region {
            let mut o = Opts::default();
            o.steps = 6 + rng.below(10) as usize;
            o.otaa_pct = 10;
            o.toggles = false;
            o.cmds = i % 3 == 0;
            o.counters = match i % 6 {
                0 => Some((5, Some(0xfffd))),
                1 => Some((5, Some(0xffff))),
                2 => Some((9, Some(0x1_fff0))),
                3 => Some((9, Some(0xffff_fff0))),
                4 => Some((0, None)),
                _ => None,
            };
            let op = gen_history("C05", &mut rng, region, &o);
            sink.case(&op, &eval(&op), "frame-orderings", true);
        }
    }
    // 3. the size clause at its boundary: every region x every uplink data rate x RX1 offsets
    //    (including those whose RX1 rate the region does not define, where the window falls back)
    //    x both windows x an authentic fresh frame whose PHYPayload is M+5 / M+6 octets for every
    //    maximum M of the regional tables; the oracle takes the limit from its own table of the data
    //    rate the window was opened at
    for region in REGIONS {
        for dr in uplink_drs(region) {
            for off in [0u8, 3, 6, 7] {
                if off != 0 && !thorough && dr % 2 == 1 {
                    continue;
                }
                for w in ["rx1", "rx2"] {
                    for m in [19usize, 59, 61, 123, 133, 137, 250] {
                        for over in [0usize, 1] {
                            let mut h = Hist::new("C05", region, 20, 0, 900 + dr as u64, &[], None);
                            h.go_live();
                            h.abp();
                            if off != 0 {
                                // RXParamSetupReq: RX1DROffset = off, RX2 data rate kept at the default
                                let (f2, d2) = crate::macsuites::default_rx2(region);
                                h.send(1, false, &[1]);
                                h.rx_auth("rx1", 0, 1, false, &rx_param_setup_req((off << 4) | d2, f2), None, &[]);
                            }
                            h.ev(&format!("dr {}", dr));
                            h.send(1, false, &[2]);
                            if w == "rx2" {
                                // nothing heard in RX1
                            }
                            let n = m + 5 + over - 13;
                            let data: Vec<u8> = (0..n).map(|i| (i * 7 + m) as u8).collect();
                            h.rx_auth(w, 0, 1, false, &[], Some(7), &data);
                            h.snap();
                            let op = h.done();
                            sink.case(&op, &eval(&op), "size-boundary", true);
                        }
                    }
                }
            }
        }
    }
    // builder X — uplink-typed frames of the session (the device's own uplink echoed back octet for octet, and one
    // rebuilt at the next fresh downlink counter) in RX1 / RX2 / RXC: not frames for an end-device, whatever their MIC
    for region in REGIONS {
        for k in 0..(if thorough { 144 } else { 24 }) {
            let op = uplink_echo_history("C05", &mut rng, region, k);
            sink.case(&op, &eval(&op), "uplink-echo", true);
        }
    }
    // builder Y — downlinks addressed to another DevAddr under the session's own keys at the next fresh counter in
    // RX1 / RX2 / RXC, followed by the authentic downlink at that counter (which must still be accepted)
    for region in REGIONS {
        for k in 0..(if thorough { 144 } else { 24 }) {
            let op = other_devaddr_history("C05", &mut rng, region, k);
            sink.case(&op, &eval(&op), "other-devaddr", true);
        }
    }
    // device level: both front-ends with the scripted radio (see adevgen::add_dev_classes)
    crate::adevgen::add_dev_classes("C05", &mut rng, &mut sink, thorough, eval);
    sink.finish(dir, "next_fcnt_down: one digest per `last` value over all 65536 wire values (last = none, every value within +-1000 of 0, 0x8000, 0xFFFF, 0x10000, 0x7FFF0000, 0xFFFEFFFF, 0xFFFF0000, 2^32-1 plus a stride of 97 out to +-70000 in thorough; +-24 in quick; the gap boundaries +-16383..16385, +-65535/65536 in both; plus random); MAC histories with sessions whose downlink counter sits at 16-/32-bit boundaries, mixing fresh, replayed, reordered, far-future, bit-flipped, wrong-key, uplink-typed, addressed-to-another-DevAddr (under the session's own keys at the next fresh counter, followed by the authentic downlink at that counter) and oversized frames in RX1/RX2/RXC. Non-trivial = every case.", false, serde_json::json!({}));
}
