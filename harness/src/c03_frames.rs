//! Suite C03, frame-parser part: `parser::parse`, the direct constructors of the four views, in-place
//! decryption with every key combination, and every accessor of every view, each under catch_unwind.
//! Answer of `C03 frame <hex>`:
//!   parse=<ERR:K|JR|JA|DATA> data=<ERR:K|{..}> dec=<nwk+app>/<nwk>/<app>/<none> jr=<ERR:K|{..}> ja=<ERR:K|ok> jad=<ERR:K|{..}>
use super::{g, Toy};
use crate::util::*;
use lorawan::parser::{self as p, CfList, DecryptedDataPayload, DecryptedJoinAcceptPayload, DevNonce, EncryptedDataPayload, EncryptedJoinAcceptPayload, FrmPayload, JoinRequestPayload, PhyPayload};

fn b(v: bool) -> u8 {
    v as u8
}
fn e(x: p::Error) -> String {
    format!("ERR:{:?}", x)
}

fn show_parse(d: &[u8]) -> String {
    g(|| match p::parse(d) {
        Err(x) => e(x),
        Ok(PhyPayload::JoinRequest(_)) => "JR".into(),
        Ok(PhyPayload::JoinAccept(_)) => "JA".into(),
        Ok(PhyPayload::Data(_)) => "DATA".into(),
    })
}

fn show_data(d: &[u8]) -> String {
    g(|| match EncryptedDataPayload::parse(d) {
        Err(x) => e(x),
        Ok(v) => {
            let t = match v.frame_type() {
                p::DataFrameType::UnconfirmedUp => 2,
                p::DataFrameType::UnconfirmedDown => 3,
                p::DataFrameType::ConfirmedUp => 4,
                p::DataFrameType::ConfirmedDown => 5,
            };
            let h = v.fhdr();
            let c = h.fctrl();
            let _ = v.as_bytes();
            let _ = h.mc_addr();
            format!(
                "{{t={},up={},conf={},addr={},fctrl={},adr={},adrackreq={},ack={},fpending={},foptslen={},fcnt={},fopts={},fport={},mic={},vmic={}}}",
                t,
                b(v.is_uplink()),
                b(v.is_confirmed()),
                hex(h.dev_addr().as_wire_bytes()),
                c.raw_value(),
                b(c.adr()),
                b(c.adr_ack_req()),
                b(c.ack()),
                b(c.f_pending()),
                c.f_opts_len(),
                h.fcnt(),
                hex(h.f_opts()),
                v.f_port().map(|x| x.to_string()).unwrap_or("none".into()),
                hex(&v.mic().0),
                b(v.validate_mic(&Toy, 0)),
            )
        }
    })
}

fn show_dec(d: &[u8], nwk: bool, app: bool) -> String {
    let mut buf = d.to_vec();
    let orig = d.to_vec();
    g(move || {
        let t = Toy;
        let r = DecryptedDataPayload::decrypt_in_place(&mut buf[..], if nwk { Some(&t) } else { None }, if app { Some(&t) } else { None }, 0x0001_0000);
        match r {
            Err(x) => e(x),
            Ok(v) => {
                // every accessor of the decrypted view
                let _ = (v.frame_type(), v.is_uplink(), v.is_confirmed(), v.mic());
                let h = v.fhdr();
                let _ = (h.dev_addr(), h.fctrl(), h.fcnt(), h.f_opts().len());
                let (kind, len, off) = match v.frm_payload() {
                    FrmPayload::None => ("N", 0, None),
                    FrmPayload::MacCommands(f) => ("M", f.len(), Some(f.as_ptr() as usize)),
                    FrmPayload::Data(f) => ("D", f.len(), Some(f.as_ptr() as usize)),
                };
                let bytes = v.as_bytes();
                // only the FRMPayload range may have been written
                let start = match off {
                    Some(ptr) if len > 0 => ptr - bytes.as_ptr() as usize,
                    _ => bytes.len(),
                };
                let outside = bytes.len() == orig.len() && bytes.iter().zip(orig.iter()).enumerate().all(|(i, (x, y))| x == y || (i >= start && i < start + len));
                format!("{{fport={},kind={},len={},outside={}}}", v.f_port().map(|x| x.to_string()).unwrap_or("none".into()), kind, len, b(outside))
            }
        }
    })
}

fn show_jr(d: &[u8]) -> String {
    g(|| match JoinRequestPayload::parse(d) {
        Err(x) => e(x),
        Ok(v) => {
            let _ = v.as_bytes();
            format!(
                "{{join_eui={},dev_eui={},dev_nonce={},mic={},vmic={}}}",
                hex(v.join_eui().as_wire_bytes()),
                hex(v.dev_eui().as_wire_bytes()),
                hex(v.dev_nonce().as_wire_bytes()),
                hex(&v.mic().0),
                b(v.validate_mic(&Toy))
            )
        }
    })
}

fn show_ja(d: &[u8]) -> String {
    g(|| match EncryptedJoinAcceptPayload::parse(d) {
        Err(x) => e(x),
        Ok(v) => {
            let _ = v.as_bytes();
            "ok".into()
        }
    })
}

fn show_jad(d: &[u8]) -> String {
    let mut buf = d.to_vec();
    g(move || match DecryptedJoinAcceptPayload::decrypt_in_place(&mut buf[..], &Toy) {
        Err(x) => e(x),
        Ok(v) => {
            let cf = match v.c_f_list() {
                None => "none".to_string(),
                Some(CfList::DynamicChannel(fs)) => format!("dyn:{}", fs.iter().map(|f| hex(f.as_wire_bytes())).collect::<Vec<_>>().join("/")),
                Some(CfList::FixedChannel(m)) => format!("fixed:{}", hex(m.as_ref())),
            };
            let _ = v.as_bytes();
            let k1 = v.derive_nwkskey(DevNonce::from_value(0x1234), &Toy);
            let k2 = v.derive_appskey(DevNonce::from_value(0x1234), &Toy);
            let _ = (k1, k2);
            format!(
                "{{join_nonce={},net_id={},dev_addr={},dl={},rxdelay={},cflist={},mic={},vmic={},keys=ok}}",
                hex(v.join_nonce().as_wire_bytes()),
                hex(v.net_id().as_wire_bytes()),
                hex(v.dev_addr().as_wire_bytes()),
                v.dl_settings().raw_value(),
                v.rx_delay(),
                cf,
                hex(&v.mic().0),
                b(v.validate_mic(&Toy))
            )
        }
    })
}

pub fn frame(d: &[u8]) -> String {
    format!(
        "parse={} data={} dec={}/{}/{}/{} jr={} ja={} jad={}",
        show_parse(d),
        show_data(d),
        show_dec(d, true, true),
        show_dec(d, true, false),
        show_dec(d, false, true),
        show_dec(d, false, false),
        show_jr(d),
        show_ja(d),
        show_jad(d)
    )
}

fn digest(pre: &[u8], k: usize) -> u64 {
    fn rec(cur: &mut Vec<u8>, k: usize, h: &mut Fnv) {
        if k == 0 {
            for b in frame(cur).bytes() {
                h.byte(b);
            }
            h.byte(10);
            return;
        }
        for b in 0..=255u8 {
            cur.push(b);
            rec(cur, k - 1, h);
            cur.pop();
        }
    }
    let mut h = Fnv::new();
    let mut cur = pre.to_vec();
    rec(&mut cur, k, &mut h);
    h.0
}

pub fn eval(w: &[&str]) -> String {
    match w {
        ["C03", "frame", h] => frame(&unhex(h)),
        ["C03", "frame_digest", pre, k] => match k.parse::<usize>() {
            Ok(k) if k <= 2 => format!("{:016x}", digest(&unhex(pre), k)),
            _ => "bad-op".into(),
        },
        _ => "bad-op".into(),
    }
}

pub fn expand(w: &[&str]) -> Vec<String> {
    let mut out = vec![];
    if let ["C03", "frame_digest", pre, k] = w {
        let k = k.parse::<usize>().unwrap_or(0);
        let pre = unhex(pre);
        for i in 0..256usize.pow(k as u32) {
            let mut s = pre.clone();
            for j in 0..k {
                s.push(((i >> (8 * (k - 1 - j))) & 0xff) as u8);
            }
            out.push(format!("C03 frame {}", hex(&s)));
        }
    }
    out
}

/// a structurally valid frame of a random kind
fn gen_valid(rng: &mut Rng) -> (Vec<u8>, &'static str) {
    match rng.below(10) {
        0 => {
            let mut v = vec![0x00];
            v.extend(rng.bytes(22));
            (v, "joinreq")
        }
        1 => {
            let mut v = vec![0x20];
            v.extend(rng.bytes(16));
            (v, "joinacc17")
        }
        2 | 3 => {
            // CFList type octet (decrypted position 28) chosen through the toy cipher: the last octet of
            // the second block before "decryption" is (x - 1) placed one position later
            let mut v = vec![0x20];
            v.extend(rng.bytes(32));
            let ty = *rng.pick(&[0u8, 0, 1, 1, 2, 0xff]);
            // decrypted[i] = enc(block)[i] = block[(i + 1) % 16] + 1  → decrypted block2[11] (frame offset 28) = block2[12] + 1
            v[17 + 12] = ty.wrapping_sub(1);
            (v, "joinacc33")
        }
        _ => {
            let mtype = 2 + rng.below(4) as u8;
            let fopts = if rng.chance(1, 2) { 0 } else { rng.below(16) as usize };
            let mut v = vec![mtype << 5];
            v.extend(rng.bytes(4));
            v.push((rng.next() as u8 & 0xf0) | fopts as u8);
            v.extend(rng.bytes(2));
            v.extend(rng.bytes(fopts));
            match rng.below(4) {
                0 => {}
                1 => v.push(rng.below(3) as u8),
                _ => {
                    v.push(if rng.chance(1, 3) { 0 } else { rng.next() as u8 });
                    let room = 255usize.saturating_sub(v.len() + 4);
                    let n = if rng.chance(1, 10) { room } else { rng.below(40.min(room as u64 + 1)) as usize };
                    v.extend(rng.bytes(n));
                }
            }
            v.extend(rng.bytes(4));
            (v, "data")
        }
    }
}

fn class_of(a: &str) -> String {
    let parse = a.split_whitespace().next().unwrap_or("");
    if a.contains("PANIC") {
        "frame-panic".into()
    } else {
        format!("frame-{}", parse.trim_start_matches("parse=").replace("ERR:", "err-"))
    }
}

pub fn run(thorough: bool, rng: &mut Rng, sink: &mut Sink) {
    // 1. all lengths 0..=12 structured: every MHDR octet × every FCtrl low nibble × a few fillers; lengths 0..2 exhaustive
    let op = "C03 frame -".to_string();
    sink.case(&op, &super::eval(&op), "frame-exh-len0", true);
    for b0 in 0..=255u8 {
        let op = format!("C03 frame {:02x}", b0);
        let a = super::eval(&op);
        sink.case(&op, &a, "frame-exh-len1", true);
    }
    for b0 in 0..=255u8 {
        let op = format!("C03 frame_digest {:02x} 1", b0);
        sink.case_w(&op, &super::eval(&op), "frame-exh-len2-digest", true, 256);
    }
    if thorough {
        for b0 in 0..=255u8 {
            let op = format!("C03 frame_digest {:02x} 2", b0);
            sink.case_w(&op, &super::eval(&op), "frame-exh-len3-digest", true, 65536);
        }
    }
    for len in 3..=40usize {
        for mhdr in 0..=255u8 {
            if len > 13 && mhdr & 0x1c != 0 {
                continue; // RFU bits do not matter to any parser: sampled only for short lengths
            }
            for fo in [0u8, 1, 2, 3, 4, 5, 8, 15] {
                if len > 28 && ![0, 15].contains(&fo) {
                    continue;
                }
                let mut v: Vec<u8> = (0..len).map(|i| (i * 11 + 5) as u8).collect();
                v[0] = mhdr;
                if len > 5 {
                    v[5] = 0xa0 | fo;
                }
                let op = format!("C03 frame {}", hex(&v));
                let a = super::eval(&op);
                sink.case(&op, &a, &class_of(&a), true);
            }
        }
    }
    // 2. every FOptsLen × every total length 12..=40 for the four data types, FPort 0 / non-zero
    for mtype in 2..=5u8 {
        for fo in 0..16u8 {
            for len in 12..=40usize {
                for port in [0u8, 7] {
                    let mut v: Vec<u8> = (0..len).map(|i| (i * 3 + 1) as u8).collect();
                    v[0] = mtype << 5;
                    v[5] = fo;
                    let po = 8 + fo as usize;
                    if po < len {
                        v[po] = port;
                    }
                    let op = format!("C03 frame {}", hex(&v));
                    let a = super::eval(&op);
                    sink.case(&op, &a, &class_of(&a), true);
                }
            }
        }
    }
    // 3. mutated valid frames + random strings
    let n = if thorough { 200_000 } else { 20_000 };
    for i in 0..n {
        let (v, class) = if i % 10 == 9 {
            let len = rng.below(256) as usize;
            (rng.bytes(len), "random".to_string())
        } else {
            let (mut v, kind) = gen_valid(rng);
            let mut c = kind.to_string();
            match rng.below(8) {
                0 => {
                    let k = rng.below(v.len() as u64 + 1) as usize;
                    v.truncate(k);
                    c += "+truncate";
                }
                1 => {
                    let i = rng.below(v.len() as u64) as usize;
                    v[i] ^= 1 << rng.below(8);
                    c += "+bitflip";
                }
                2 => {
                    v[0] = rng.next() as u8;
                    c += "+mhdr";
                }
                3 if v.len() > 5 => {
                    v[5] = rng.next() as u8;
                    c += "+fctrl";
                }
                4 => {
                    let extra = 1 + rng.below(8) as usize;
                    v.extend(rng.bytes(extra));
                    c += "+append";
                }
                _ => {}
            }
            v.truncate(255);
            (v, c)
        };
        let op = format!("C03 frame {}", hex(&v));
        let a = super::eval(&op);
        sink.case(&op, &a, &format!("{}:{}", class_of(&a), class), true);
    }
}
