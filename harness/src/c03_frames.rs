//! Suite C03, frame-parser part (stub, filled in below).
use crate::util::*;

pub fn eval(_w: &[&str]) -> String {
    "bad-op".into()
}
pub fn expand(_w: &[&str]) -> Vec<String> {
    vec![]
}
pub fn run(_thorough: bool, _rng: &mut Rng, _sink: &mut Sink) {}
