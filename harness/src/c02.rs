//! Suite C02: the REAL parsers / MIC validation / in-place decryption of `lorawan::parser`
//! (DefaultCrypto and DefaultNetworkCrypto), against the Lean model and specification.
#![allow(dead_code)]
use crate::c01::{arr, cflist, data_op, pick_fcnt, DataGen, DataOp};
use crate::util::*;
use lorawan::creator::{JoinAccept, JoinRequest};
use lorawan::default_crypto::{DefaultCrypto, DefaultNetworkCrypto};
use lorawan::keys::{Crypto, AES128};
use lorawan::parser::*;
use lorawan::types::DLSettings;
use std::panic::AssertUnwindSafe;

fn b01(b: bool) -> &'static str {
    if b {
        "1"
    } else {
        "0"
    }
}
fn ft_num(t: DataFrameType) -> u8 {
    match t {
        DataFrameType::UnconfirmedUp => 0,
        DataFrameType::UnconfirmedDown => 1,
        DataFrameType::ConfirmedUp => 2,
        DataFrameType::ConfirmedDown => 3,
    }
}

/// every accessor of a data-frame view (the macro-generated ones, `Fhdr`, `FCtrl`); `$frm` = the FRMPayload bytes
macro_rules! view_string {
    ($p:expr, $frm:expr) => {{
        let p = &$p;
        let fhdr = p.fhdr();
        let fc = fhdr.fctrl();
        format!(
            "D ft={} up={} cf={} addr={} fctrl={:02x} adr={} req={} ack={} pend={} flen={} fcnt={} fopts={} port={} frm={} mic={}",
            ft_num(p.frame_type()),
            b01(p.is_uplink()),
            b01(p.is_confirmed()),
            hex(fhdr.dev_addr().as_wire_bytes()),
            fc.raw_value(),
            b01(fc.adr()),
            b01(fc.adr_ack_req()),
            b01(fc.ack()),
            b01(fc.f_pending()),
            fc.f_opts_len(),
            fhdr.fcnt(),
            hex(fhdr.f_opts()),
            p.f_port().map(|x| x.to_string()).unwrap_or("-".into()),
            hex($frm),
            hex(&p.mic().0)
        )
    }};
}

/// the FRMPayload range of an encrypted view, from its public accessors and `as_bytes`
fn enc_frm<'a>(p: &EncryptedDataPayload<'a>) -> &'a [u8] {
    let b = p.as_bytes();
    let start = 8 + p.fhdr().f_opts().len() + if p.f_port().is_some() { 1 } else { 0 };
    &b[start..b.len() - 4]
}

fn err(e: Error) -> String {
    format!("ERR:{:?}", e)
}

fn jr_string(j: &JoinRequestPayload<'_>) -> String {
    format!(
        "JR je={} de={} dn={} mic={}",
        hex(j.join_eui().as_wire_bytes()),
        hex(j.dev_eui().as_wire_bytes()),
        hex(j.dev_nonce().as_wire_bytes()),
        hex(&j.mic().0)
    )
}

fn g(f: impl FnOnce() -> String) -> String {
    guarded(AssertUnwindSafe(f)).unwrap_or("PANIC".into())
}

fn okey(s: &str) -> Option<Option<[u8; 16]>> {
    if s == "-" {
        Some(None)
    } else {
        arr::<16>(s).map(Some)
    }
}

fn dec_string(d: &DecryptedDataPayload<'_>) -> String {
    let (k, frm): (&str, &[u8]) = match d.frm_payload() {
        FrmPayload::None => ("N", &[]),
        FrmPayload::MacCommands(b) => ("M", b),
        FrmPayload::Data(b) => ("A", b),
    };
    // the raw FRMPayload range of the decrypted view for the `frm=` field
    let b = d.as_bytes();
    let start = 8 + d.fhdr().f_opts().len() + if d.f_port().is_some() { 1 } else { 0 };
    let raw = &b[start..b.len() - 4];
    format!("OK {} {} {}", k, hex(frm), view_string!(d, raw))
}

fn decrypt_with<C: Crypto>(buf: &mut Vec<u8>, nwk: Option<[u8; 16]>, app: Option<[u8; 16]>, fcnt: u32, mk: impl Fn(&AES128) -> C) -> String {
    let nwk = nwk.map(|k| mk(&AES128(k)));
    let app = app.map(|k| mk(&AES128(k)));
    match DecryptedDataPayload::decrypt_in_place(&mut buf[..], nwk.as_ref(), app.as_ref(), fcnt) {
        Ok(d) => dec_string(&d),
        Err(e) => err(e),
    }
}

fn checkdec_with<C: Crypto>(buf: &mut Vec<u8>, nwk: [u8; 16], app: Option<[u8; 16]>, fcnt: u32, mk: impl Fn(&AES128) -> C) -> String {
    let nwk = mk(&AES128(nwk));
    let app = app.map(|k| mk(&AES128(k)));
    match DecryptedDataPayload::check_mic_and_decrypt_in_place(&mut buf[..], &nwk, app.as_ref(), fcnt) {
        Ok(d) => dec_string(&d),
        Err(e) => err(e),
    }
}

/// seeded choice of the crypto variant, derived from the op itself so that `eval` is a function of the op line
fn variant_of(op: &str) -> bool {
    let mut h = Fnv::new();
    for b in op.bytes() {
        h.byte(b);
    }
    h.0 & 1 == 0
}

fn cf_string(c: Option<CfList>) -> String {
    match c {
        None => "-".into(),
        Some(CfList::DynamicChannel(f)) => format!("D{}", f.iter().map(|x| hex(x.as_wire_bytes())).collect::<String>()),
        Some(CfList::FixedChannel(m)) => format!("F{}", hex(m.as_ref())),
    }
}

pub fn eval(op: &str) -> String {
    let w: Vec<&str> = op.split_whitespace().collect();
    let dflt = variant_of(op);
    match w.as_slice() {
        ["C02", "parse", h] => {
            let b = unhex(h);
            g(|| match parse(&b) {
                Ok(PhyPayload::JoinRequest(j)) => jr_string(&j),
                Ok(PhyPayload::JoinAccept(a)) => format!("JA len={}", a.as_bytes().len()),
                Ok(PhyPayload::Data(p)) => view_string!(p, enc_frm(&p)),
                Err(e) => err(e),
            })
        }
        ["C02", "parsedata", h] => {
            let b = unhex(h);
            g(|| match EncryptedDataPayload::parse(&b) {
                Ok(p) => view_string!(p, enc_frm(&p)),
                Err(e) => err(e),
            })
        }
        ["C02", "parsejr", h] => {
            let b = unhex(h);
            g(|| match JoinRequestPayload::parse(&b) {
                Ok(j) => jr_string(&j),
                Err(e) => err(e),
            })
        }
        ["C02", "parseja", h] => {
            let b = unhex(h);
            g(|| match EncryptedJoinAcceptPayload::parse(&b) {
                Ok(a) => format!("JA len={}", a.as_bytes().len()),
                Err(e) => err(e),
            })
        }
        ["C02", "mic", h, k, fcnt] => {
            let (b, Some(k), Ok(fcnt)) = (unhex(h), arr::<16>(k), fcnt.parse::<u32>()) else { return "bad-op".into() };
            g(|| match EncryptedDataPayload::parse(&b) {
                Ok(p) => {
                    let a = p.validate_mic(&DefaultCrypto::new(&AES128(k)), fcnt);
                    let n = p.validate_mic(&DefaultNetworkCrypto::new(&AES128(k)), fcnt);
                    if a != n {
                        "VARIANTS-DIFFER".into()
                    } else {
                        b01(a).into()
                    }
                }
                Err(e) => err(e),
            })
        }
        ["C02", "decrypt", h, nwk, app, fcnt] => {
            let (mut b, Some(nwk), Some(app), Ok(fcnt)) = (unhex(h), okey(nwk), okey(app), fcnt.parse::<u32>()) else {
                return "bad-op".into();
            };
            let r = g(|| if dflt { decrypt_with(&mut b, nwk, app, fcnt, DefaultCrypto::new) } else { decrypt_with(&mut b, nwk, app, fcnt, DefaultNetworkCrypto::new) });
            format!("{};{}", r, hex(&b))
        }
        ["C02", "checkdec", h, nwk, app, fcnt] => {
            let (mut b, Some(nwk), Some(app), Ok(fcnt)) = (unhex(h), arr::<16>(nwk), okey(app), fcnt.parse::<u32>()) else {
                return "bad-op".into();
            };
            let r = g(|| if dflt { checkdec_with(&mut b, nwk, app, fcnt, DefaultCrypto::new) } else { checkdec_with(&mut b, nwk, app, fcnt, DefaultNetworkCrypto::new) });
            format!("{};{}", r, hex(&b))
        }
        ["C02", "dd", h, nwk, app, fcnt] => {
            let (mut b, Some(nwk), Some(app), Ok(fcnt)) = (unhex(h), okey(nwk), okey(app), fcnt.parse::<u32>()) else {
                return "bad-op".into();
            };
            g(|| {
                let first = decrypt_with(&mut b, nwk, app, fcnt, DefaultCrypto::new);
                if first.starts_with("ERR:") {
                    return first;
                }
                let second = decrypt_with(&mut b, nwk, app, fcnt, DefaultNetworkCrypto::new);
                if second.starts_with("ERR:") {
                    return format!("SECOND-{}", second);
                }
                hex(&b)
            })
        }
        ["C02", "jrmic", h, k] => {
            let (b, Some(k)) = (unhex(h), arr::<16>(k)) else { return "bad-op".into() };
            g(|| match JoinRequestPayload::parse(&b) {
                Ok(j) => {
                    let a = j.validate_mic(&DefaultCrypto::new(&AES128(k)));
                    let n = j.validate_mic(&DefaultNetworkCrypto::new(&AES128(k)));
                    if a != n {
                        "VARIANTS-DIFFER".into()
                    } else {
                        b01(a).into()
                    }
                }
                Err(e) => err(e),
            })
        }
        ["C02", "ja", h, k, dn] => {
            let (b, Some(k), Some(dn)) = (unhex(h), arr::<16>(k), arr::<2>(dn)) else { return "bad-op".into() };
            let mut buf = b.clone();
            let mut buf2 = b.clone();
            let r = g(|| {
                let crypto = DefaultCrypto::new(&AES128(k));
                let chk = match DecryptedJoinAcceptPayload::check_mic_and_decrypt_in_place(&mut buf2[..], &DefaultNetworkCrypto::new(&AES128(k))) {
                    Ok(_) => "OK".to_string(),
                    Err(e) => err(e),
                };
                match DecryptedJoinAcceptPayload::decrypt_in_place(&mut buf[..], &crypto) {
                    Ok(d) => {
                        let dnv = DevNonce::from_wire_bytes(dn);
                        format!(
                            "OK mic={} chk={} chkbuf={} jn={} ni={} addr={} dl={:02x} rx={} cfl={} micb={} nwk={} app={}",
                            b01(d.validate_mic(&crypto)),
                            chk,
                            hex(&buf2),
                            hex(d.join_nonce().as_wire_bytes()),
                            hex(d.net_id().as_wire_bytes()),
                            hex(d.dev_addr().as_wire_bytes()),
                            d.dl_settings().raw_value(),
                            d.rx_delay(),
                            cf_string(d.c_f_list()),
                            hex(&d.mic().0),
                            hex(d.derive_nwkskey(dnv, &crypto).as_ref()),
                            hex(d.derive_appskey(dnv, &crypto).as_ref())
                        )
                    }
                    Err(e) => err(e),
                }
            });
            format!("{};{}", r, hex(&buf))
        }
        ["C02", "rt", rest @ ..] if rest.len() == 9 => {
            let Some(d) = DataOp::parse(rest) else { return "bad-op".into() };
            if d.port.is_none() && !d.pld.is_empty() {
                return "bad-op".into();
            }
            let mut big = vec![0u8; 300];
            let built = guarded(AssertUnwindSafe(|| if dflt { d.build(&mut big, DefaultCrypto::new) } else { d.build(&mut big, DefaultNetworkCrypto::new) }));
            match built {
                None => "PANIC".into(),
                Some(Err(e)) => format!("RT {}", err(e)),
                Some(Ok(frame)) => {
                    let mut b = frame.clone();
                    let r = g(|| if dflt { checkdec_with(&mut b, d.nwk, d.app, d.fcnt, DefaultNetworkCrypto::new) } else { checkdec_with(&mut b, d.nwk, d.app, d.fcnt, DefaultCrypto::new) });
                    format!("RT {};{}", r, hex(&b))
                }
            }
        }
        _ => "bad-op".into(),
    }
}

pub fn expand(_op: &str) -> Vec<String> {
    vec![]
}

fn opt_hex(k: &Option<Vec<u8>>) -> String {
    match k {
        Some(k) => hex(k),
        None => "-".into(),
    }
}

struct Built {
    frame: Vec<u8>,
    nwk: Vec<u8>,
    app: Vec<u8>,
    fcnt: u32,
}

/// a valid data frame from the C01 generator space, built by the real builder
fn valid_frame(rng: &mut Rng) -> Option<Built> {
    let kind = rng.below(3) as u8;
    let g = DataGen {
        ft: rng.below(4) as u8,
        flags: rng.below(16) as u8,
        fopts_len: if kind == 1 { 0 } else if rng.chance(1, 2) { 0 } else { rng.below(16) as usize },
        kind,
        pld_len: if rng.chance(1, 6) { 0 } else if rng.chance(1, 2) { rng.below(40) as usize } else { rng.below(243) as usize },
        fcnt: pick_fcnt(rng),
        with_app: true,
        bufsel: 0,
    };
    let op = data_op(rng, &g);
    let w: Vec<&str> = op.split_whitespace().collect();
    let d = DataOp::parse(&w[2..])?;
    let mut buf = vec![0u8; 300];
    let frame = d.build(&mut buf, DefaultCrypto::new).ok()?;
    Some(Built { frame, nwk: d.nwk.to_vec(), app: d.app.unwrap().to_vec(), fcnt: d.fcnt })
}

/// one structured mutation; returns its name
fn mutate(rng: &mut Rng, f: &mut Vec<u8>) -> &'static str {
    let n = f.len();
    match rng.below(15) {
        0 | 12 | 13 | 14 => "valid",
        1 => {
            f[0] ^= 1 << rng.below(2); // major
            "mhdr-major"
        }
        2 => {
            f[0] ^= 1 << (2 + rng.below(3)); // RFU bits
            "mhdr-rfu"
        }
        3 => {
            f[0] = (f[0] & 0x1f) | ((rng.below(8) as u8) << 5); // message type
            "mhdr-mtype"
        }
        4 => {
            f[5] ^= 1 << (4 + rng.below(4)); // FCtrl flag bits
            "fctrl-flag"
        }
        5 => {
            f[5] = (f[5] & 0xf0) | rng.below(16) as u8; // FOptsLen
            "fctrl-foptslen"
        }
        6 => {
            let keep = rng.below(n as u64 + 1) as usize;
            f.truncate(keep);
            "truncated"
        }
        7 => {
            let extra = 1 + rng.below(8) as usize;
            let mut e = rng.bytes(extra);
            f.append(&mut e);
            "extended"
        }
        8 => {
            let i = n - 1 - rng.below(4) as usize;
            f[i] ^= 1 << rng.below(8);
            "mic-bit"
        }
        9 => {
            if n > 13 {
                let i = 8 + rng.below((n - 12) as u64) as usize;
                f[i] ^= 1 << rng.below(8);
            }
            "body-bit"
        }
        10 => {
            let i = 1 + rng.below(7) as usize;
            f[i] ^= 1 << rng.below(8); // DevAddr / FCtrl / FCnt
            "fhdr-bit"
        }
        _ => {
            // port byte (when present) to 0 / non-zero: changes the key selection
            let fl = (f[5] & 0x0f) as usize;
            if n > 8 + fl + 4 {
                f[8 + fl] = if f[8 + fl] == 0 { 1 + rng.below(255) as u8 } else { 0 };
            }
            "port-zero-swap"
        }
    }
}

fn emit_data_ops(rng: &mut Rng, sink: &mut Sink, class: &str, f: &[u8], nwk: &[u8], app: &[u8], fcnt: u32) {
    let h = hex(f);
    let wrong = rng.bytes(16);
    // counters whose low half does / does not match the wire counter
    let counters = [fcnt, fcnt ^ 0x10000, fcnt.wrapping_add(0x10000), fcnt ^ 1, rng.next() as u32];
    let mut ops: Vec<String> = vec![format!("C02 parse {}", h), format!("C02 parsedata {}", h)];
    let c1 = *rng.pick(&counters);
    ops.push(format!("C02 mic {} {} {}", h, hex(nwk), fcnt));
    ops.push(format!("C02 mic {} {} {}", h, hex(nwk), c1));
    if rng.chance(1, 4) {
        ops.push(format!("C02 mic {} {} {}", h, hex(&wrong), fcnt));
    }
    let keysel = rng.below(6);
    let (nk, ak): (Option<Vec<u8>>, Option<Vec<u8>>) = match keysel {
        0 => (None, Some(app.to_vec())),
        1 => (Some(nwk.to_vec()), None),
        2 => (None, None),
        _ => (Some(nwk.to_vec()), Some(app.to_vec())),
    };
    let c2 = *rng.pick(&counters);
    ops.push(format!("C02 decrypt {} {} {} {}", h, opt_hex(&nk), opt_hex(&ak), c2));
    ops.push(format!("C02 dd {} {} {} {}", h, opt_hex(&nk), opt_hex(&ak), c2));
    ops.push(format!("C02 checkdec {} {} {} {}", h, hex(nwk), opt_hex(&ak), fcnt));
    ops.push(format!("C02 checkdec {} {} {} {}", h, hex(nwk), hex(app), c1));
    if rng.chance(1, 4) {
        ops.push(format!("C02 checkdec {} {} {} {}", h, hex(&wrong), hex(app), fcnt));
    }
    for op in ops {
        let a = eval(&op);
        let kind = op.split_whitespace().nth(1).unwrap().to_string();
        let res = if a.starts_with("ERR:") {
            a.split(';').next().unwrap().to_string()
        } else if a.starts_with("OK") || a.starts_with("D ") || a == "1" || a.starts_with("JR") || a.starts_with("JA") {
            "accepted".to_string()
        } else if a == "0" {
            "mic-mismatch".to_string()
        } else if a == "PANIC" {
            a.clone()
        } else {
            "value".to_string()
        };
        sink.case(&op, &a, &format!("{}/{}/{}", class, kind, res), true);
    }
}

pub fn run(tier: &str, seed: u64, dir: &str) {
    let mut rng = Rng::new(seed);
    let mut sink = Sink::new(dir);
    let thorough = tier == "thorough";

    // 0. the published vectors
    for op in [
        "C02 parse 400403020180010001a694642615d6c3b582",
        "C02 mic 400403020180010001a694642615d6c3b582 02020202020202020202020202020202 1",
        "C02 checkdec 400403020180010001a694642615d6c3b582 02020202020202020202020202020202 01010101010101010101010101010101 1",
        "C02 checkdec a00403020180ff2a2a0af1a36a05d0125f885d881d49e1 02020202020202020202020202020202 01010101010101010101010101010101 76543",
        "C02 decrypt 40040302010000000069369eee6aa508 01010101010101010101010101010101 - 0",
        "C02 parse 00040302010403020105040302050403022d106a990e12",
        "C02 jrmic 00040302010403020105040302050403022d106a990e12 01010101010101010101010101010101",
        "C02 ja 20493eeb51fba2116f810edb3742975142 00112233445566778899aabbccddeeff ccdd",
        "C02 ja 20e45673b63cb4b9cecb2aa83f0333e615d2ac89eea1659837c3aa6df9689889cf 01010101010101010101010101010101 ccdd",
        "C02 rt 2 efbeadde 10 262151 02 7 7061796c6f6164 03030303030303030303030303030303 04040404040404040404040404040404",
    ] {
        sink.case(op, &eval(op), "vector", true);
    }

    // 1. 80 %: valid frames with structured mutations
    let n_valid = if thorough { 40_000 } else { 1_600 };
    for _ in 0..n_valid {
        let Some(b) = valid_frame(&mut rng) else { continue };
        let mut f = b.frame.clone();
        let m = mutate(&mut rng, &mut f);
        let mut class = format!("mut-{}", m);
        if rng.chance(1, 10) && f.len() >= 13 {
            // a second, independent mutation
            let m2 = mutate(&mut rng, &mut f);
            class = format!("mut-{}+{}", m, m2);
        }
        emit_data_ops(&mut rng, &mut sink, &class, &f, &b.nwk, &b.app, b.fcnt);
    }
    // 1b. authentic frames the crate's own creator refuses to build or cannot express (assembled by the
    // reference encoder): FOpts together with FPort 0 and a payload, MHDR RFU bits set, every
    // FOptsLen x a few payload lengths x all four data message types — receivers decode them all
    let n_hand = if thorough { 6_000 } else { 400 };
    for i in 0..n_hand {
        let mtype = 2 + (i % 4) as u8;
        let rfu = if rng.chance(1, 3) { (1 + rng.below(7) as u8) << 2 } else { 0 };
        let nfo = rng.below(16) as usize;
        let fopts = rng.bytes(nfo);
        let fport = match rng.below(4) {
            0 => None,
            1 | 2 => Some(0u8),
            _ => Some(*rng.pick(&[1u8, 223, 224, 255])),
        };
        let plen = if fport.is_none() { 0 } else { *rng.pick(&[0usize, 1, 15, 16, 17, 33, 100]) };
        let payload = rng.bytes(plen);
        let mut nwk = [0u8; 16];
        nwk.copy_from_slice(&rng.bytes(16));
        let mut app = [0u8; 16];
        app.copy_from_slice(&rng.bytes(16));
        let fcnt = pick_fcnt(&mut rng);
        let Some(f) = crate::refcodec::build_data_any((mtype << 5) | rfu, rng.next() as u32, (rng.next() as u8) & 0xf0, fcnt, &fopts, fport, &payload, &nwk, &app) else { continue };
        let class = format!("hand-built{}{}", if fport == Some(0) && nfo > 0 { "-fopts+port0" } else { "" }, if rfu != 0 { "-mhdr-rfu" } else { "" });
        emit_data_ops(&mut rng, &mut sink, &class, &f, &nwk, &app, fcnt);
    }
    // 2. 10 %: random byte strings of every length 0..=255
    let n_rand = if thorough { 5_000 } else { 256 };
    for i in 0..n_rand {
        let len = if i < 256 { i } else { rng.below(256) as usize };
        let mut f = rng.bytes(len);
        if len > 0 && rng.chance(1, 2) {
            f[0] &= 0xfc; // a valid major version half of the time, so that deeper checks are reached
        }
        let (nwk, app) = (rng.bytes(16), rng.bytes(16));
        let fcnt = pick_fcnt(&mut rng);
        emit_data_ops(&mut rng, &mut sink, "random", &f, &nwk, &app, fcnt);
        for op in [format!("C02 parsejr {}", hex(&f)), format!("C02 parseja {}", hex(&f))] {
            let a = eval(&op);
            sink.case(&op, &a, &format!("random/{}", if a.starts_with("ERR") { a.as_str() } else { "accepted" }), true);
        }
    }
    // 3. 10 %: every length 0..=12 (and the join lengths) x every message type x FOptsLen classes
    let reps = if thorough { 8 } else { 1 };
    for _ in 0..reps {
        for len in (0..=13usize).chain([16, 17, 18, 22, 23, 24, 32, 33, 34]) {
            for mtype in 0..8u8 {
                for fl in [0u8, 1, 2, 15] {
                    let mut f = rng.bytes(len);
                    if len > 0 {
                        f[0] = (mtype << 5) | if rng.chance(1, 8) { rng.below(4) as u8 } else { 0 } | ((rng.below(8) as u8) << 2);
                    }
                    if len > 5 {
                        f[5] = (f[5] & 0xf0) | fl;
                    }
                    let (nwk, app) = (rng.bytes(16), rng.bytes(16));
                    let fcnt = pick_fcnt(&mut rng);
                    emit_data_ops(&mut rng, &mut sink, "short", &f, &nwk, &app, fcnt);
                    for op in [format!("C02 parsejr {}", hex(&f)), format!("C02 parseja {}", hex(&f)), format!("C02 jrmic {} {}", hex(&f), hex(&nwk)), format!("C02 ja {} {} {}", hex(&f), hex(&nwk), hex(&rng.bytes(2)))] {
                        let a = eval(&op);
                        let r = a.split(';').next().unwrap();
                        sink.case(&op, &a, &format!("short-join/{}", if r.starts_with("ERR") { r } else { "accepted" }), true);
                    }
                }
            }
        }
    }
    // 4. JoinRequest: built, then mutated; right and wrong key
    let n_jr = if thorough { 10_000 } else { 500 };
    for _ in 0..n_jr {
        let key = rng.bytes(16);
        let jr = JoinRequest {
            join_eui: JoinEui::from_wire_bytes(rng.bytes(8).try_into().unwrap()),
            dev_eui: DevEui::from_wire_bytes(rng.bytes(8).try_into().unwrap()),
            dev_nonce: DevNonce::from_wire_bytes(rng.bytes(2).try_into().unwrap()),
        };
        let mut buf = [0u8; 23];
        let mut f = jr.build_into(&mut buf, &DefaultCrypto::new(&AES128(key.clone().try_into().unwrap()))).unwrap().to_vec();
        let m = match rng.below(5) {
            0 => {
                let i = rng.below(23) as usize;
                f[i] ^= 1 << rng.below(8);
                "bit"
            }
            1 => {
                f.truncate(rng.below(24) as usize);
                "truncated"
            }
            2 => {
                f.push(rng.next() as u8);
                "extended"
            }
            _ => "valid",
        };
        let k2 = if rng.chance(1, 4) { rng.bytes(16) } else { key.clone() };
        for op in [format!("C02 parse {}", hex(&f)), format!("C02 parsejr {}", hex(&f)), format!("C02 jrmic {} {}", hex(&f), hex(&k2))] {
            let a = eval(&op);
            let r = if a.starts_with("ERR") { a.as_str() } else if a == "0" { "mic-mismatch" } else { "accepted" };
            sink.case(&op, &a, &format!("joinrequest-{}/{}", m, r), true);
        }
    }
    // 5. JoinAccept: built with none / type-0 / type-1 CFList, or raw (random CFListType), then mutated
    let n_ja = if thorough { 20_000 } else { 1_200 };
    for i in 0..n_ja {
        let key: [u8; 16] = rng.bytes(16).try_into().unwrap();
        let cf = match i % 4 {
            0 => "-".to_string(),
            1 => format!("D{}", hex(&rng.bytes(15))),
            2 => format!("F{}", hex(&rng.bytes(9))),
            _ => "raw".to_string(),
        };
        let mut f: Vec<u8> = if cf == "raw" {
            let n = if rng.chance(1, 2) { 17 } else { 33 };
            let mut v = rng.bytes(n);
            v[0] = 0x20;
            v
        } else {
            let ja = JoinAccept {
                join_nonce: JoinNonce::from_wire_bytes(rng.bytes(3).try_into().unwrap()),
                net_id: NetId::from_wire_bytes(rng.bytes(3).try_into().unwrap()),
                dev_addr: DevAddr::from_wire_bytes(rng.bytes(4).try_into().unwrap()),
                dl_settings: DLSettings::new(rng.next() as u8),
                rx_delay: rng.next() as u8,
                c_f_list: cflist(&cf).unwrap(),
            };
            let mut buf = [0u8; 33];
            ja.build_into(&mut buf, &DefaultNetworkCrypto::new(&AES128(key))).unwrap().to_vec()
        };
        let m = match rng.below(6) {
            0 => {
                let i = rng.below(f.len() as u64) as usize;
                f[i] ^= 1 << rng.below(8);
                "bit"
            }
            1 => {
                f.truncate(rng.below(f.len() as u64 + 1) as usize);
                "truncated"
            }
            2 => {
                f.push(rng.next() as u8);
                "extended"
            }
            _ => "valid",
        };
        let k2 = if rng.chance(1, 5) { rng.bytes(16) } else { key.to_vec() };
        for op in [format!("C02 parse {}", hex(&f)), format!("C02 parseja {}", hex(&f)), format!("C02 ja {} {} {}", hex(&f), hex(&k2), hex(&rng.bytes(2)))] {
            let a = eval(&op);
            let r0 = a.split(';').next().unwrap();
            let r = if r0.starts_with("ERR") {
                r0.to_string()
            } else if r0.contains("mic=0") {
                "mic-mismatch".to_string()
            } else {
                "accepted".to_string()
            };
            sink.case(&op, &a, &format!("joinaccept-{}-{}/{}", &cf[..1], m, r), true);
        }
    }
    // 6. round trip: every built frame of C01's space decodes (real builder, real parser) to what it was built from
    let per_len = if thorough { 40 } else { 2 };
    for len in 0..=242usize {
        for r in 0..per_len {
            let kind = if len == 0 && r == 0 { 0 } else if r % 3 == 1 { 1 } else { 2 };
            let gd = DataGen {
                ft: rng.below(4) as u8,
                flags: rng.below(16) as u8,
                fopts_len: if kind == 1 { 0 } else if rng.chance(1, 2) { 0 } else { rng.below(16) as usize },
                kind,
                pld_len: len,
                fcnt: pick_fcnt(&mut rng),
                with_app: true,
                bufsel: 0,
            };
            let op = data_op(&mut rng, &gd);
            let w: Vec<&str> = op.split_whitespace().collect();
            let rt = format!("C02 rt {}", w[2..11].join(" "));
            let a = eval(&rt);
            sink.case(&rt, &a, &format!("roundtrip/{}", ["none", "mac", "app"][kind as usize]), true);
        }
    }
    for ft in 0..4u8 {
        for flags in 0..16u8 {
            let gd = DataGen { ft, flags, fopts_len: rng.below(16) as usize, kind: 2, pld_len: rng.below(30) as usize, fcnt: pick_fcnt(&mut rng), with_app: true, bufsel: 0 };
            let op = data_op(&mut rng, &gd);
            let w: Vec<&str> = op.split_whitespace().collect();
            let rt = format!("C02 rt {}", w[2..11].join(" "));
            let a = eval(&rt);
            sink.case(&rt, &a, "roundtrip/flags-grid", true);
        }
    }

    sink.finish(
        dir,
        "real parse / EncryptedDataPayload::parse + every accessor / validate_mic / decrypt_in_place / check_mic_and_decrypt_in_place (result AND buffer afterwards) / double decrypt / JoinRequest + JoinAccept parsing, MIC, accessors, CFList, derived session keys, vs Lean model vs Lean specification. Byte strings: ~80 % valid frames from C01's generator with one structured mutation (MHDR major/RFU/type, FCtrl flags, FOptsLen, truncation, extension, MIC bit, body bit, FHDR bit, port 0 swap), ~10 % random strings of every length 0..=255, ~10 % every length 0..=13 and the join lengths x 8 message types x FOptsLen classes; keys present / missing / wrong; counters whose low half does / does not match the wire counter; round trips over every payload length 0..=242 and the 4 x 16 type/flag grid. Non-trivial = every case (a concrete view, verdict, plaintext or buffer is compared); distinct = distinct op lines.",
        false,
        serde_json::json!({}),
    );
}
