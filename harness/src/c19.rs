//! Suite C19: command builders → bytes → parsers/accessors (all six sets), command sequences through
//! `build_mac_commands`, and the text forms of identifiers and keys (real code).
//!   C19 cmd <Set> <Variant> <calls>          calls = `-` | name=arg;name=arg…  (arg: decimal | x<hex> | <id>:x<hex>)
//!        → r=<ok|ERR:E,…> bytes=<hex> parse=<the set's iterator over the built bytes, every accessor>
//!   C19 cmd_digest <Set> <Variant> <template with {a} {b}> <na> <nb>
//!   C19 seq <Set> <cap> <Variant>@<calls> …  → n=<len> bytes=<hex> parse=<…> | ERR:BufferTooShort
//!   C19 text <Type> <wire hex>               → s=<to_string> back=<from_str(to_string) wire hex | ERR>
//!   C19 text_digest <Type> <leading wire octets>   (all 256 values of the last octet)
//!   C19 textparse <Type> <string>            → wire hex | ERR[:kind]
#![allow(dead_code)]
use crate::c03::{self, g, Toy};
use crate::util::*;
use core::str::FromStr;
use lorawan::certification as cert;
use lorawan::keys;
use lorawan::maccommandcreator as mcc;
use lorawan::maccommands::SerializableMacCommand;
use lorawan::multicast as mcast;
use lorawan::parser as p;

#[derive(Clone, Debug)]
pub enum A {
    N(i64),
    B(Vec<u8>),
    Item(u8, Vec<u8>),
}

fn parse_arg(s: &str) -> Option<A> {
    if let Some(h) = s.strip_prefix('x') {
        return Some(A::B(unhex(if h.is_empty() { "-" } else { h })));
    }
    if let Some((id, h)) = s.split_once(":x") {
        return Some(A::Item(id.parse().ok()?, unhex(if h.is_empty() { "-" } else { h })));
    }
    s.parse::<i64>().ok().map(A::N)
}

pub fn parse_calls(s: &str) -> Option<Vec<(String, A)>> {
    if s == "-" {
        return Some(vec![]);
    }
    s.split(';')
        .map(|c| {
            let (n, a) = c.split_once('=')?;
            Some((n.to_string(), parse_arg(a)?))
        })
        .collect()
}

fn ok() -> Option<String> {
    Some("ok".into())
}
fn res<T, E: core::fmt::Debug>(r: Result<T, E>) -> Option<String> {
    Some(match r {
        Ok(_) => "ok".into(),
        Err(e) => format!("ERR:{:?}", e),
    })
}
fn u8_(a: &A) -> Option<u8> {
    match a {
        A::N(v) if (0..=255).contains(v) => Some(*v as u8),
        _ => None,
    }
}
fn bool_(a: &A) -> Option<bool> {
    match a {
        A::N(0) => Some(false),
        A::N(1) => Some(true),
        _ => None,
    }
}
fn u32_(a: &A) -> Option<u32> {
    match a {
        A::N(v) if (0..=u32::MAX as i64).contains(v) => Some(*v as u32),
        _ => None,
    }
}
fn arr<const N: usize>(a: &A) -> Option<[u8; N]> {
    match a {
        A::B(b) if b.len() == N => {
            let mut o = [0u8; N];
            o.copy_from_slice(b);
            Some(o)
        }
        _ => None,
    }
}

pub struct Built {
    pub results: Vec<String>,
    pub bytes: Vec<u8>,
    pub cmd: Box<dyn SerializableMacCommand>,
}

/// create the creator, apply the calls, `build()`
macro_rules! creator {
    ($calls:expr, $t:ty, |$c:ident, $n:ident, $a:ident| $body:expr) => {{
        let mut $c = <$t>::new();
        let mut results = vec![];
        for (name, arg) in $calls.iter() {
            let $n: &str = name.as_str();
            let $a: &A = arg;
            let r: Option<String> = $body;
            results.push(r?);
        }
        let bytes = $c.build().to_vec();
        Some(Built { results, bytes, cmd: Box::new($c) })
    }};
}
macro_rules! plain {
    ($calls:expr, $t:ty) => {{
        if !$calls.is_empty() {
            return None;
        }
        let c = <$t>::new();
        let bytes = c.build().to_vec();
        Some(Built { results: vec![], bytes, cmd: Box::new(c) })
    }};
}

pub fn make(set: &str, variant: &str, calls: &[(String, A)]) -> Option<Built> {
    match (set, variant) {
        // ---- LoRaWAN MAC, downlink
        ("DownlinkMacCommand", "LinkCheckAns") => creator!(calls, mcc::LinkCheckAnsCreator, |c, n, a| match n {
            "set_margin" => { c.set_margin(u8_(a)?); ok() }
            "set_gateway_count" => { c.set_gateway_count(u8_(a)?); ok() }
            _ => None,
        }),
        ("DownlinkMacCommand", "LinkADRReq") => creator!(calls, mcc::LinkADRReqCreator, |c, n, a| match n {
            "set_data_rate" => res(c.set_data_rate(u8_(a)?)),
            "set_tx_power" => res(c.set_tx_power(u8_(a)?)),
            "set_channel_mask" => { c.set_channel_mask(arr::<2>(a)?); ok() }
            "set_redundancy" => { c.set_redundancy(u8_(a)?); ok() }
            _ => None,
        }),
        ("DownlinkMacCommand", "DutyCycleReq") => creator!(calls, mcc::DutyCycleReqCreator, |c, n, a| match n {
            "set_max_duty_cycle" => res(c.set_max_duty_cycle(u8_(a)?)),
            _ => None,
        }),
        ("DownlinkMacCommand", "RXParamSetupReq") => creator!(calls, mcc::RXParamSetupReqCreator, |c, n, a| match n {
            "set_dl_settings" => { c.set_dl_settings(u8_(a)?); ok() }
            "set_frequency" => { let f = arr::<3>(a)?; c.set_frequency(&f); ok() }
            _ => None,
        }),
        ("DownlinkMacCommand", "DevStatusReq") => plain!(calls, mcc::DevStatusReqCreator),
        ("DownlinkMacCommand", "NewChannelReq") => creator!(calls, mcc::NewChannelReqCreator, |c, n, a| match n {
            "set_channel_index" => { c.set_channel_index(u8_(a)?); ok() }
            "set_frequency" => { let f = arr::<3>(a)?; c.set_frequency(&f); ok() }
            "set_data_rate_range" => { c.set_data_rate_range(u8_(a)?); ok() }
            _ => None,
        }),
        ("DownlinkMacCommand", "RXTimingSetupReq") => creator!(calls, mcc::RXTimingSetupReqCreator, |c, n, a| match n {
            "set_delay" => res(c.set_delay(u8_(a)?)),
            _ => None,
        }),
        ("DownlinkMacCommand", "TXParamSetupReq") => creator!(calls, mcc::TXParamSetupReqCreator, |c, n, a| match n {
            "set_downlink_dwell_time" => { c.set_downlink_dwell_time(bool_(a)?); ok() }
            "set_uplink_dwell_time" => { c.set_uplink_dwell_time(bool_(a)?); ok() }
            "set_max_eirp" => res(c.set_max_eirp(u8_(a)?)),
            _ => None,
        }),
        ("DownlinkMacCommand", "DlChannelReq") => creator!(calls, mcc::DlChannelReqCreator, |c, n, a| match n {
            "set_channel_index" => { c.set_channel_index(u8_(a)?); ok() }
            "set_frequency" => { let f = arr::<3>(a)?; c.set_frequency(&f); ok() }
            _ => None,
        }),
        ("DownlinkMacCommand", "DeviceTimeAns") => creator!(calls, mcc::DeviceTimeAnsCreator, |c, n, a| match n {
            "set_seconds" => { c.set_seconds(u32_(a)?); ok() }
            "set_nano_seconds" => res(c.set_nano_seconds(u32_(a)?)),
            _ => None,
        }),
        // ---- LoRaWAN MAC, uplink
        ("UplinkMacCommand", "LinkCheckReq") => plain!(calls, mcc::LinkCheckReqCreator),
        ("UplinkMacCommand", "LinkADRAns") => creator!(calls, mcc::LinkADRAnsCreator, |c, n, a| match n {
            "set_channel_mask_ack" => { c.set_channel_mask_ack(bool_(a)?); ok() }
            "set_data_rate_ack" => { c.set_data_rate_ack(bool_(a)?); ok() }
            "set_tx_power_ack" => { c.set_tx_power_ack(bool_(a)?); ok() }
            _ => None,
        }),
        ("UplinkMacCommand", "DutyCycleAns") => plain!(calls, mcc::DutyCycleAnsCreator),
        ("UplinkMacCommand", "RXParamSetupAns") => creator!(calls, mcc::RXParamSetupAnsCreator, |c, n, a| match n {
            "set_channel_ack" => { c.set_channel_ack(bool_(a)?); ok() }
            "set_rx2_data_rate_ack" => { c.set_rx2_data_rate_ack(bool_(a)?); ok() }
            "set_rx1_data_rate_offset_ack" => { c.set_rx1_data_rate_offset_ack(bool_(a)?); ok() }
            _ => None,
        }),
        ("UplinkMacCommand", "DevStatusAns") => creator!(calls, mcc::DevStatusAnsCreator, |c, n, a| match n {
            "set_battery" => { c.set_battery(u8_(a)?); ok() }
            "set_margin" => match a { A::N(v) if (-128..=127).contains(v) => res(c.set_margin(*v as i8)), _ => None },
            _ => None,
        }),
        ("UplinkMacCommand", "NewChannelAns") => creator!(calls, mcc::NewChannelAnsCreator, |c, n, a| match n {
            "set_channel_frequency_ack" => { c.set_channel_frequency_ack(bool_(a)?); ok() }
            "set_data_rate_range_ack" => { c.set_data_rate_range_ack(bool_(a)?); ok() }
            _ => None,
        }),
        ("UplinkMacCommand", "RXTimingSetupAns") => plain!(calls, mcc::RXTimingSetupAnsCreator),
        ("UplinkMacCommand", "TXParamSetupAns") => plain!(calls, mcc::TXParamSetupAnsCreator),
        ("UplinkMacCommand", "DlChannelAns") => creator!(calls, mcc::DlChannelAnsCreator, |c, n, a| match n {
            "set_channel_frequency_ack" => { c.set_channel_frequency_ack(bool_(a)?); ok() }
            "set_uplink_frequency_exists_ack" => { c.set_uplink_frequency_exists_ack(bool_(a)?); ok() }
            _ => None,
        }),
        ("UplinkMacCommand", "DeviceTimeReq") => plain!(calls, mcc::DeviceTimeReqCreator),
        // ---- certification (TS009)
        ("DownlinkDUTCommand", "DutResetReq") => plain!(calls, cert::DutResetReqCreator),
        ("DownlinkDUTCommand", "DutJoinReq") => plain!(calls, cert::DutJoinReqCreator),
        ("DownlinkDUTCommand", "AdrBitChangeReq") => plain!(calls, cert::AdrBitChangeReqCreator),
        ("DownlinkDUTCommand", "TxPeriodicityChangeReq") => plain!(calls, cert::TxPeriodicityChangeReqCreator),
        ("DownlinkDUTCommand", "RxAppCntReq") => plain!(calls, cert::RxAppCntReqCreator),
        ("DownlinkDUTCommand", "LinkCheckReq") => plain!(calls, cert::LinkCheckReqCreator),
        ("DownlinkDUTCommand", "DutVersionsReq") => plain!(calls, cert::DutVersionsReqCreator),
        ("UplinkDUTCommand", "EchoIncPayloadAns") => creator!(calls, cert::EchoIncPayloadAnsCreator, |c, n, a| match (n, a) {
            ("payload", A::B(b)) => { c.payload(b); ok() }
            _ => None,
        }),
        ("UplinkDUTCommand", "RxAppCntAns") => creator!(calls, cert::RxAppCntAnsCreator, |c, n, a| match (n, a) {
            ("set_rx_app_cnt", A::N(v)) if (0..=65535).contains(v) => { c.set_rx_app_cnt(*v as u16); ok() }
            _ => None,
        }),
        ("UplinkDUTCommand", "DutVersionsAns") => creator!(calls, cert::DutVersionsAnsCreator, |c, n, a| match n {
            "set_versions_raw" => { c.set_versions_raw(arr::<12>(a)?); ok() }
            _ => None,
        }),
        // ---- remote multicast setup (TS005)
        ("DownlinkRemoteSetup", "PackageVersionReq") => plain!(calls, mcast::PackageVersionReqCreator),
        ("DownlinkRemoteSetup", "McGroupStatusReq") => creator!(calls, mcast::McGroupStatusReqCreator, |c, n, a| match n {
            "req_group_mask" => { c.req_group_mask(u8_(a)?); ok() }
            "req_group" => { c.req_group(u8_(a)?); ok() }
            _ => None,
        }),
        ("DownlinkRemoteSetup", "McGroupSetupReq") => creator!(calls, mcast::McGroupSetupReqCreator, |c, n, a| match n {
            "mc_group_id_header" => { c.mc_group_id_header(u8_(a)?); ok() }
            "mc_addr" => { c.mc_addr(&p::McAddr::from_wire_bytes(arr::<4>(a)?)); ok() }
            "mc_key" => { c.mc_key(&Toy, &keys::McKey::from(arr::<16>(a)?)); ok() }
            "min_mc_fcount" => { c.min_mc_fcount(u32_(a)?); ok() }
            "max_mc_fcount" => { c.max_mc_fcount(u32_(a)?); ok() }
            _ => None,
        }),
        ("DownlinkRemoteSetup", "McGroupDeleteReq") => creator!(calls, mcast::McGroupDeleteReqCreator, |c, n, a| match n {
            "mc_group_id_header" => { c.mc_group_id_header(u8_(a)?); ok() }
            _ => None,
        }),
        ("DownlinkRemoteSetup", "McClassCSessionReq") => plain!(calls, mcast::McClassCSessionReqCreator),
        ("DownlinkRemoteSetup", "McClassBSessionReq") => plain!(calls, mcast::McClassBSessionReqCreator),
        ("UplinkRemoteSetup", "PackageVersionAns") => creator!(calls, mcast::PackageVersionAnsCreator, |c, n, a| match n {
            "package_identifier" => { c.package_identifier(u8_(a)?); ok() }
            "package_version" => { c.package_version(u8_(a)?); ok() }
            _ => None,
        }),
        ("UplinkRemoteSetup", "McGroupStatusAns") => creator!(calls, mcast::McGroupStatusAnsCreator, |c, n, a| match (n, a) {
            ("nb_total_groups", a) => { c.nb_total_groups(u8_(a)?); ok() }
            ("push", A::Item(id, addr)) if addr.len() == 4 => {
                let mut w = [0u8; 4];
                w.copy_from_slice(addr);
                res(c.push(*id, p::McAddr::from_wire_bytes(w)).map(|_| ()))
            }
            _ => None,
        }),
        ("UplinkRemoteSetup", "McGroupSetupAns") => creator!(calls, mcast::McGroupSetupAnsCreator, |c, n, a| match n {
            "mc_group_id_header" => { c.mc_group_id_header(u8_(a)?); ok() }
            _ => None,
        }),
        ("UplinkRemoteSetup", "McGroupDeleteAns") => creator!(calls, mcast::McGroupDeleteAnsCreator, |c, n, a| match n {
            "mc_group_id_header" => { c.mc_group_id_header(u8_(a)?); ok() }
            "mc_group_undefined" => { c.mc_group_undefined(bool_(a)?); ok() }
            _ => None,
        }),
        ("UplinkRemoteSetup", "McClassCSessionAns") => plain!(calls, mcast::McClassCSessionAnsCreator),
        ("UplinkRemoteSetup", "McClassBSessionAns") => plain!(calls, mcast::McClassBSessionAnsCreator),
        _ => None,
    }
}

fn show_results(r: &[String]) -> String {
    if r.is_empty() {
        "-".into()
    } else {
        r.join(",")
    }
}

pub fn cmd(set: &str, variant: &str, calls: &str) -> String {
    let Some(calls) = parse_calls(calls) else { return "bad-op".into() };
    let set_s = set.to_string();
    let variant_s = variant.to_string();
    g(move || match make(&set_s, &variant_s, &calls) {
        None => "bad-op".into(),
        Some(b) => {
            // the trait view of the creator must agree with build()
            let mut via_trait = vec![b.cmd.cid()];
            via_trait.extend_from_slice(b.cmd.payload_bytes());
            let consistent = via_trait == b.bytes && b.cmd.payload_len() + 1 == b.bytes.len();
            format!("r={} bytes={} parse={}{}", show_results(&b.results), hex(&b.bytes), c03::iter(&set_s, &b.bytes), if consistent { "" } else { " TRAIT-MISMATCH" })
        }
    })
}

pub fn seq(set: &str, cap: usize, words: &[&str]) -> String {
    let set_s = set.to_string();
    let words: Vec<String> = words.iter().map(|s| s.to_string()).collect();
    g(move || {
        let mut built = vec![];
        for w in &words {
            let Some((v, cs)) = w.split_once('@') else { return "bad-op".into() };
            let Some(calls) = parse_calls(cs) else { return "bad-op".into() };
            let Some(b) = make(&set_s, v, &calls) else { return "bad-op".into() };
            built.push(b);
        }
        let refs: Vec<&dyn SerializableMacCommand> = built.iter().map(|b| b.cmd.as_ref()).collect();
        let mut buf = vec![0u8; cap];
        match mcc::build_mac_commands(&refs, &mut buf[..]) {
            Err(e) => format!("ERR:{:?}", e),
            Ok(n) => {
                if n > buf.len() {
                    return "OVERRUN".into();
                }
                let len_ok = lorawan::maccommands::mac_commands_len(&refs) == n;
                format!("n={} bytes={} parse={}{}", n, hex(&buf[..n]), c03::iter(&set_s, &buf[..n]), if len_ok { "" } else { " LEN-MISMATCH" })
            }
        }
    })
}

// ------------------------------------------------------------------------------------------------ text forms
pub const TEXT_TYPES: [(&str, usize); 18] = [
    ("DevAddr", 4),
    ("McAddr", 4),
    ("PDevEui", 8),
    ("JoinEui", 8),
    ("DevNonce", 2),
    ("JoinNonce", 3),
    ("NetId", 3),
    ("AppKey", 16),
    ("NwkSKey", 16),
    ("AppSKey", 16),
    ("McRootKey", 16),
    ("McKEKey", 16),
    ("McNetSKey", 16),
    ("McAppSKey", 16),
    ("GenAppKey", 16),
    ("McKey", 16),
    ("KDevEui", 8),
    ("AppEui", 8),
];

macro_rules! text_newtype {
    ($t:ty, $n:expr, $op:expr, $arg:expr) => {{
        match $op {
            "text" => {
                let Some(w) = arr::<$n>(&A::B(unhex($arg))) else { return "bad-op".into() };
                let v = <$t>::from_wire_bytes(w);
                let s = v.to_string();
                let back = match <$t>::from_str(&s) {
                    Ok(x) => hex(x.as_wire_bytes()),
                    Err(_) => "ERR".into(),
                };
                format!("s={} back={}", s, back)
            }
            _ => match <$t>::from_str(if $arg == "-" { "" } else { $arg }) {
                Ok(x) => hex(x.as_wire_bytes()),
                Err(_) => "ERR".into(),
            },
        }
    }};
}
macro_rules! text_key {
    ($t:ty, $n:expr, $op:expr, $arg:expr) => {{
        match $op {
            "text" => {
                let Some(w) = arr::<$n>(&A::B(unhex($arg))) else { return "bad-op".into() };
                let v = <$t>::from(w);
                let s = v.to_string();
                let back = match <$t>::from_str(&s) {
                    Ok(x) => hex(x.as_ref()),
                    Err(e) => format!("ERR:{}", hex_err(e)),
                };
                format!("s={} back={}", s, back)
            }
            _ => match <$t>::from_str(if $arg == "-" { "" } else { $arg }) {
                Ok(x) => hex(x.as_ref()),
                Err(e) => format!("ERR:{}", hex_err(e)),
            },
        }
    }};
}

fn hex_err(e: lorawan::string::FromHexError) -> &'static str {
    use lorawan::string::FromHexError::*;
    match e {
        OddLength => "OddLength",
        InvalidStringLength => "InvalidStringLength",
        InvalidHexCharacter { .. } => "InvalidHexCharacter",
    }
}

/// op = "text" (arg = wire hex) or "textparse" (arg = string)
pub fn text(op: &str, ty: &str, arg: &str) -> String {
    let (op, ty, arg) = (op.to_string(), ty.to_string(), arg.to_string());
    g(move || {
        let (op, arg) = (op.as_str(), arg.as_str());
        match ty.as_str() {
            "DevAddr" => text_newtype!(p::DevAddr, 4, op, arg),
            "McAddr" => text_newtype!(p::McAddr, 4, op, arg),
            "PDevEui" => text_newtype!(p::DevEui, 8, op, arg),
            "JoinEui" => text_newtype!(p::JoinEui, 8, op, arg),
            "DevNonce" => text_newtype!(p::DevNonce, 2, op, arg),
            "JoinNonce" => text_newtype!(p::JoinNonce, 3, op, arg),
            "NetId" => text_newtype!(p::NetId, 3, op, arg),
            "AppKey" => text_key!(keys::AppKey, 16, op, arg),
            "NwkSKey" => text_key!(keys::NwkSKey, 16, op, arg),
            "AppSKey" => text_key!(keys::AppSKey, 16, op, arg),
            "McRootKey" => text_key!(keys::McRootKey, 16, op, arg),
            "McKEKey" => text_key!(keys::McKEKey, 16, op, arg),
            "McNetSKey" => text_key!(keys::McNetSKey, 16, op, arg),
            "McAppSKey" => text_key!(keys::McAppSKey, 16, op, arg),
            "GenAppKey" => text_key!(keys::GenAppKey, 16, op, arg),
            "McKey" => text_key!(keys::McKey, 16, op, arg),
            "KDevEui" => text_key!(keys::DevEui, 8, op, arg),
            "AppEui" => text_key!(keys::AppEui, 8, op, arg),
            _ => "bad-op".into(),
        }
    })
}

fn fnv_line(h: &mut Fnv, s: &str) {
    for b in s.bytes() {
        h.byte(b);
    }
    h.byte(10);
}

fn subst(t: &str, a: u64, b: u64) -> String {
    t.replace("{a}", &a.to_string()).replace("{b}", &b.to_string())
}

pub fn eval(op: &str) -> String {
    let w: Vec<&str> = op.split_whitespace().collect();
    match w.as_slice() {
        ["C19", "cmd", set, variant, calls] => cmd(set, variant, calls),
        ["C19", "cmd_digest", set, variant, tmpl, na, nb] => {
            let (Ok(na), Ok(nb)) = (na.parse::<u64>(), nb.parse::<u64>()) else { return "bad-op".into() };
            let mut h = Fnv::new();
            for a in 0..na {
                for b in 0..nb {
                    fnv_line(&mut h, &cmd(set, variant, &subst(tmpl, a, b)));
                }
            }
            format!("{:016x}", h.0)
        }
        ["C19", "seq", set, cap, rest @ ..] => match cap.parse::<usize>() {
            Ok(cap) => seq(set, cap, rest),
            Err(_) => "bad-op".into(),
        },
        ["C19", "text", ty, h] => text("text", ty, h),
        ["C19", "text_digest", ty, pre] => {
            let pre = unhex(pre);
            let mut h = Fnv::new();
            for x in 0..=255u8 {
                let mut v = pre.clone();
                v.push(x);
                fnv_line(&mut h, &text("text", ty, &hex(&v)));
            }
            format!("{:016x}", h.0)
        }
        ["C19", "textparse", ty, s] => text("textparse", ty, s),
        _ => "bad-op".into(),
    }
}

pub fn expand(op: &str) -> Vec<String> {
    let w: Vec<&str> = op.split_whitespace().collect();
    let mut out = vec![];
    match w.as_slice() {
        ["C19", "cmd_digest", set, variant, tmpl, na, nb] => {
            let (na, nb) = (na.parse::<u64>().unwrap_or(0), nb.parse::<u64>().unwrap_or(0));
            for a in 0..na {
                for b in 0..nb {
                    out.push(format!("C19 cmd {} {} {}", set, variant, subst(tmpl, a, b)));
                }
            }
        }
        ["C19", "text_digest", ty, pre] => {
            let pre = unhex(pre);
            for x in 0..=255u8 {
                let mut v = pre.clone();
                v.push(x);
                out.push(format!("C19 text {} {}", ty, hex(&v)));
            }
        }
        _ => {}
    }
    out
}

// ------------------------------------------------------------------------------------------------ generation

#[derive(Clone, Copy, PartialEq)]
pub enum K {
    U8,
    Bool,
    I8,
    U16,
    U32,
    Bytes(usize),
    /// to-the-end octet string (echo payload)
    Var,
    /// push(id, addr)
    Item,
}

/// every (set, variant, [setter, kind]) — the harness' own catalogue, used only to generate calls
pub fn setters() -> Vec<(&'static str, &'static str, Vec<(&'static str, K)>)> {
    use K::*;
    vec![
        ("DownlinkMacCommand", "LinkCheckAns", vec![("set_margin", U8), ("set_gateway_count", U8)]),
        ("DownlinkMacCommand", "LinkADRReq", vec![("set_data_rate", U8), ("set_tx_power", U8), ("set_channel_mask", Bytes(2)), ("set_redundancy", U8)]),
        ("DownlinkMacCommand", "DutyCycleReq", vec![("set_max_duty_cycle", U8)]),
        ("DownlinkMacCommand", "RXParamSetupReq", vec![("set_dl_settings", U8), ("set_frequency", Bytes(3))]),
        ("DownlinkMacCommand", "DevStatusReq", vec![]),
        ("DownlinkMacCommand", "NewChannelReq", vec![("set_channel_index", U8), ("set_frequency", Bytes(3)), ("set_data_rate_range", U8)]),
        ("DownlinkMacCommand", "RXTimingSetupReq", vec![("set_delay", U8)]),
        ("DownlinkMacCommand", "TXParamSetupReq", vec![("set_downlink_dwell_time", Bool), ("set_uplink_dwell_time", Bool), ("set_max_eirp", U8)]),
        ("DownlinkMacCommand", "DlChannelReq", vec![("set_channel_index", U8), ("set_frequency", Bytes(3))]),
        ("DownlinkMacCommand", "DeviceTimeAns", vec![("set_seconds", U32), ("set_nano_seconds", U32)]),
        ("UplinkMacCommand", "LinkCheckReq", vec![]),
        ("UplinkMacCommand", "LinkADRAns", vec![("set_channel_mask_ack", Bool), ("set_data_rate_ack", Bool), ("set_tx_power_ack", Bool)]),
        ("UplinkMacCommand", "DutyCycleAns", vec![]),
        ("UplinkMacCommand", "RXParamSetupAns", vec![("set_channel_ack", Bool), ("set_rx2_data_rate_ack", Bool), ("set_rx1_data_rate_offset_ack", Bool)]),
        ("UplinkMacCommand", "DevStatusAns", vec![("set_battery", U8), ("set_margin", I8)]),
        ("UplinkMacCommand", "NewChannelAns", vec![("set_channel_frequency_ack", Bool), ("set_data_rate_range_ack", Bool)]),
        ("UplinkMacCommand", "RXTimingSetupAns", vec![]),
        ("UplinkMacCommand", "TXParamSetupAns", vec![]),
        ("UplinkMacCommand", "DlChannelAns", vec![("set_channel_frequency_ack", Bool), ("set_uplink_frequency_exists_ack", Bool)]),
        ("UplinkMacCommand", "DeviceTimeReq", vec![]),
        ("DownlinkDUTCommand", "DutResetReq", vec![]),
        ("DownlinkDUTCommand", "DutJoinReq", vec![]),
        ("DownlinkDUTCommand", "AdrBitChangeReq", vec![]),
        ("DownlinkDUTCommand", "TxPeriodicityChangeReq", vec![]),
        ("DownlinkDUTCommand", "RxAppCntReq", vec![]),
        ("DownlinkDUTCommand", "LinkCheckReq", vec![]),
        ("DownlinkDUTCommand", "DutVersionsReq", vec![]),
        ("UplinkDUTCommand", "EchoIncPayloadAns", vec![("payload", Var)]),
        ("UplinkDUTCommand", "RxAppCntAns", vec![("set_rx_app_cnt", U16)]),
        ("UplinkDUTCommand", "DutVersionsAns", vec![("set_versions_raw", Bytes(12))]),
        ("DownlinkRemoteSetup", "PackageVersionReq", vec![]),
        ("DownlinkRemoteSetup", "McGroupStatusReq", vec![("req_group_mask", U8), ("req_group", U8)]),
        ("DownlinkRemoteSetup", "McGroupSetupReq", vec![("mc_group_id_header", U8), ("mc_addr", Bytes(4)), ("mc_key", Bytes(16)), ("min_mc_fcount", U32), ("max_mc_fcount", U32)]),
        ("DownlinkRemoteSetup", "McGroupDeleteReq", vec![("mc_group_id_header", U8)]),
        ("DownlinkRemoteSetup", "McClassCSessionReq", vec![]),
        ("DownlinkRemoteSetup", "McClassBSessionReq", vec![]),
        ("UplinkRemoteSetup", "PackageVersionAns", vec![("package_identifier", U8), ("package_version", U8)]),
        ("UplinkRemoteSetup", "McGroupStatusAns", vec![("nb_total_groups", U8), ("push", Item)]),
        ("UplinkRemoteSetup", "McGroupSetupAns", vec![("mc_group_id_header", U8)]),
        ("UplinkRemoteSetup", "McGroupDeleteAns", vec![("mc_group_id_header", U8), ("mc_group_undefined", Bool)]),
        ("UplinkRemoteSetup", "McClassCSessionAns", vec![]),
        ("UplinkRemoteSetup", "McClassBSessionAns", vec![]),
    ]
}

/// a 32-bit value that reads the same in both byte orders (used wherever `set_seconds` must not trip the known finding)
fn palindrome32(rng: &mut Rng) -> u32 {
    let a = rng.next() as u8 as u32;
    let b = rng.next() as u8 as u32;
    a | (b << 8) | (b << 16) | (a << 24)
}

fn rand_arg(rng: &mut Rng, variant: &str, setter: &str, k: K) -> String {
    match k {
        K::U8 => match rng.below(4) {
            0 => rng.below(17).to_string(),
            1 => rng.pick(&[0u32, 1, 3, 4, 7, 8, 15, 16, 31, 63, 64, 127, 128, 254, 255]).to_string(),
            _ => rng.below(256).to_string(),
        },
        K::Bool => rng.below(2).to_string(),
        K::I8 => match rng.below(3) {
            0 => rng.range(-34, 33).to_string(),
            _ => rng.range(-128, 127).to_string(),
        },
        K::U16 => rng.pick(&[0u64, 1, 255, 256, 0x1234, 0xfffe, 0xffff, rng.0 & 0xffff]).to_string(),
        K::U32 => {
            if variant == "DeviceTimeAns" && setter == "set_seconds" {
                palindrome32(rng).to_string()
            } else if setter == "set_nano_seconds" {
                match rng.below(3) {
                    0 => rng.pick(&[0u64, 1, 3906249, 3906250, 3906251, 999_999_999, 1_000_000_000, 1_000_000_001, 996_093_750, 4_294_967_295]).to_string(),
                    _ => rng.below(1_100_000_000).to_string(),
                }
            } else {
                match rng.below(3) {
                    0 => rng.pick(&[0u64, 1, 0xff, 0x100, 0xffff, 0x10000, 0x01020304, 0x7fffffff, 0x80000000, 0xfffffffe, 0xffffffff]).to_string(),
                    _ => (rng.next() as u32).to_string(),
                }
            }
        }
        K::Bytes(n) => format!("x{}", { let h = hex(&rng.bytes(n)); if h == "-" { String::new() } else { h } }),
        K::Var => {
            let n = match rng.below(4) {
                0 => *rng.pick(&[0usize, 1, 2, 240, 241, 242, 255, 260]),
                _ => rng.below(30) as usize,
            };
            let h = hex(&rng.bytes(n));
            format!("x{}", if h == "-" { String::new() } else { h })
        }
        K::Item => format!("{}:x{}", match rng.below(6) { 0 => rng.below(256), 1 => 4 + rng.below(4), _ => rng.below(4) }, hex(&rng.bytes(4))),
    }
}

fn rand_calls(rng: &mut Rng, variant: &str, ss: &[(&'static str, K)], max: u64) -> String {
    if ss.is_empty() {
        return "-".into();
    }
    let n = rng.below(max + 1);
    if n == 0 {
        return "-".into();
    }
    (0..n)
        .map(|_| {
            let (s, k) = *rng.pick(ss);
            format!("{}={}", s, rand_arg(rng, variant, s, k))
        })
        .collect::<Vec<_>>()
        .join(";")
}

fn class_of(ans: &str) -> &'static str {
    if ans.contains("PANIC") {
        "panic"
    } else if ans.contains("ERR:BufferTooShort") {
        "seq-refused"
    } else if ans.contains("ERR:") && ans.starts_with("r=") {
        "with-refusal"
    } else {
        "accepted"
    }
}

pub fn run(tier: &str, seed: u64, dir: &str) {
    let mut rng = Rng::new(seed);
    let mut sink = Sink::new(dir);
    let thorough = tier == "thorough";
    let cat = setters();
    // 1. every command, fresh creator
    for (set, v, _) in &cat {
        let op = format!("C19 cmd {} {} -", set, v);
        sink.case(&op, &eval(&op), "fresh", true);
    }
    // 2. every setter alone: exhaustive for fields up to 16 bits, boundary + random for wider ones
    for (set, v, ss) in &cat {
        for (s, k) in ss {
            let mut one = |arg: String, class: &str, sink: &mut Sink| {
                let op = format!("C19 cmd {} {} {}={}", set, v, s, arg);
                let a = eval(&op);
                sink.case(&op, &a, class, true);
            };
            match k {
                K::U8 => (0..=255).for_each(|x: u32| one(x.to_string(), "single-u8-exhaustive", &mut sink)),
                K::Bool => (0..=1).for_each(|x: u32| one(x.to_string(), "single-bool-exhaustive", &mut sink)),
                K::I8 => (-128..=127).for_each(|x: i32| one(x.to_string(), "single-i8-exhaustive", &mut sink)),
                K::U16 => (0..=65535).for_each(|x: u32| one(x.to_string(), "single-u16-exhaustive", &mut sink)),
                K::Bytes(2) => (0..=65535u32).for_each(|x| one(format!("x{:02x}{:02x}", x & 0xff, x >> 8), "single-u16-exhaustive", &mut sink)),
                _ => {
                    let n = if thorough { 20_000 } else { 1_500 };
                    for _ in 0..n {
                        let mut arg = rand_arg(&mut rng, v, s, *k);
                        if *v == "DeviceTimeAns" && *s == "set_seconds" {
                            // the dedicated ops on which the known finding is allowed to show
                            arg = match rng.below(3) {
                                0 => rng.pick(&[0u64, 1, 255, 256, 65535, 65536, 0x01020304, 0x04030201, 123456, 0x7fffffff, 0x80000000, 0xffffffff]).to_string(),
                                _ => (rng.next() as u32).to_string(),
                            };
                        }
                        one(arg, "single-wide", &mut sink);
                    }
                }
            }
        }
    }
    // 3. pairs of setters of one command, both orders, with a re-set: digest blocks over 0..32 × 0..32 (bools 0..2)
    for (set, v, ss) in &cat {
        for (s1, k1) in ss {
            for (s2, k2) in ss {
                let small = |k: &K| matches!(k, K::U8 | K::Bool);
                if !small(k1) || !small(k2) {
                    continue;
                }
                let n1 = if *k1 == K::Bool { 2 } else { 32 };
                let n2 = if *k2 == K::Bool { 2 } else { 32 };
                let tmpl = if s1 == s2 { format!("{}={{a}};{}={{b}}", s1, s2) } else { format!("{}={{a}};{}={{b}};{}={{b}}", s1, s2, s1) };
                // when s1 is a bool its re-set value must stay 0/1
                let tmpl = if s1 != s2 && *k1 == K::Bool && *k2 != K::Bool { format!("{}={{a}};{}={{b}};{}={{a}}", s1, s2, s1) } else { tmpl };
                let op = format!("C19 cmd_digest {} {} {} {} {}", set, v, tmpl, n1, n2);
                sink.case_w(&op, &eval(&op), "pair-digest", true, (n1 * n2) as u64);
            }
        }
    }
    // 4. random setter sequences per command
    let n_rand = if thorough { 200_000 } else { 25_000 };
    for _ in 0..n_rand {
        let (set, v, ss) = rng.pick(&cat).clone();
        if ss.is_empty() {
            continue;
        }
        let calls = rand_calls(&mut rng, v, &ss, 6);
        let op = format!("C19 cmd {} {} {}", set, v, calls);
        let a = eval(&op);
        sink.case(&op, &a, &format!("calls-{}", class_of(&a)), calls != "-");
    }
    // 5. sequences of commands through build_mac_commands
    let n_seq = if thorough { 100_000 } else { 12_000 };
    for _ in 0..n_seq {
        let set = *rng.pick(&c03::SETS);
        let of_set: Vec<_> = cat.iter().filter(|c| c.0 == set).collect();
        let n = 1 + rng.below(8) as usize;
        let mut words = vec![];
        let mut total = 0usize;
        for _ in 0..n {
            let (_, v, ss) = *rng.pick(&of_set);
            let calls = rand_calls(&mut rng, v, ss, 3);
            // length of this command (for choosing interesting capacities): ask the real builder
            if let Some(b) = parse_calls(&calls).and_then(|c| guarded(std::panic::AssertUnwindSafe(|| make(set, v, &c).map(|b| b.bytes.len()))).flatten()) {
                total += b;
            }
            words.push(format!("{}@{}", v, calls));
        }
        let cap = match rng.below(6) {
            0 => total.saturating_sub(1),
            1 => total,
            2 => total + 1,
            3 => 15,
            4 => 0,
            _ => 255,
        };
        let op = format!("C19 seq {} {} {}", set, cap, words.join(" "));
        let a = eval(&op);
        sink.case(&op, &a, &format!("seq-{}", class_of(&a)), true);
    }
    // 6. text forms: all 2^16 DevNonces (digest per high wire octet... the free octet is the last wire octet),
    //    random values of every type, digest blocks with random prefixes, malformed / non-canonical strings
    for b0 in 0..=255u8 {
        let op = format!("C19 text_digest DevNonce {:02x}", b0);
        sink.case_w(&op, &eval(&op), "text-devnonce-exhaustive", true, 256);
    }
    let n_text = if thorough { 20_000 } else { 1_500 };
    for (ty, n) in TEXT_TYPES {
        for i in 0..n_text {
            let v = match i {
                0 => vec![0u8; n],
                1 => vec![0xffu8; n],
                2 => (0..n).map(|j| j as u8).collect(),
                3 => (0..n).map(|j| (0x10 * (j + 1)) as u8).collect(),
                4 => { let mut v = vec![0u8; n]; v[0] = 1; v }
                5 => { let mut v = vec![0u8; n]; v[n - 1] = 1; v }
                6 => { let mut v = vec![0u8; n]; v[n - 1] = 0x0a; v }
                _ => rng.bytes(n),
            };
            let op = format!("C19 text {} {}", ty, hex(&v));
            sink.case(&op, &eval(&op), "text-roundtrip", true);
        }
        for _ in 0..(if thorough { 64 } else { 8 }) {
            let op = format!("C19 text_digest {} {}", ty, hex(&rng.bytes(n - 1)));
            sink.case_w(&op, &eval(&op), "text-digest", true, 256);
        }
        // strings
        for _ in 0..(if thorough { 2000 } else { 200 }) {
            let v = rng.bytes(n);
            let canon: String = v.iter().map(|b| format!("{:02x}", b)).collect();
            let s = match rng.below(7) {
                0 => canon.to_uppercase(),
                1 => canon.chars().enumerate().map(|(i, c)| if i % 3 == 0 { c.to_ascii_uppercase() } else { c }).collect(),
                2 => canon[1..].to_string(),
                3 => format!("{}0", canon),
                4 => format!("+{}", &canon[1..]),
                5 => { let mut c: Vec<char> = canon.chars().collect(); let i = rng.below(c.len() as u64) as usize; c[i] = *rng.pick(&['g', 'z', '-', '_', 'G', '.']); c.into_iter().collect() }
                _ => canon.clone(),
            };
            let s = if s.is_empty() { "-".to_string() } else { s };
            let op = format!("C19 textparse {} {}", ty, s);
            let a = eval(&op);
            sink.case(&op, &a, if a.starts_with("ERR") { "textparse-refused" } else { "textparse-ok" }, true);
        }
    }
    sink.finish(
        dir,
        "Builders of all six command sets (every creator the crate offers): fresh creator; every setter alone, exhaustive for u8/bool/i8/u16 and 2-octet arguments (all 2^16), boundary + seeded random for wider ones; every ordered pair of small setters of a command incl. a re-set as digest blocks over 0..32 x 0..32 (in- and out-of-range values); seeded random call sequences; seeded command sequences through build_mac_commands with capacities around the exact length; each answer = setter results, built bytes, and the set's real iterator + every accessor over those bytes. Text forms: all 2^16 DevNonces (digest), seeded values and digest blocks for all 18 identifier/key types, non-canonical and malformed strings. Distinct = distinct op lines; non-trivial = at least one setter call or a text value.",
        false,
        serde_json::json!({}),
    );
}
