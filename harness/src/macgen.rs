//! Generators of MAC-level histories (op lines for `mac::run_history` / Driver/Mac.lean).
#![allow(dead_code)]
use crate::mac::*;
use crate::util::*;

pub const DEVADDR: u32 = 0x26011bda;

/// Builder of one history op line; mirrors the network's view of the session.
pub struct Hist {
    pub suite: String,
    pub region: String,
    pub line: String,
    /// counter of the last downlink the network sent that it expects to be accepted
    pub last_down: Option<u32>,
    pub devaddr: u32,
    /// "live" generation: the events are executed on the real MAC while the line is built, so that
    /// the generator can react to what the device did (DevNonce, derived keys, responses)
    pub live: Option<Runner>,
    pub outs: Vec<String>,
    pub dead: bool,
    pub nwk: [u8; 16],
    pub app: [u8; 16],
    /// root key (AppKey) of the join attempt in progress: JoinAccept views are taken under it
    pub root: [u8; 16],
}

impl Hist {
    pub fn new(suite: &str, region: &str, max_power: u8, gain: i8, seed: u64, forced: &[u32], bias: Option<(u8, usize)>) -> Self {
        let forced_s = if forced.is_empty() { "-".to_string() } else { forced.iter().map(|x| x.to_string()).collect::<Vec<_>>().join(",") };
        let bias_s = match bias {
            Some((sb, n)) => format!("{}:{}", sb, n),
            None => "-".into(),
        };
        Hist {
            suite: suite.to_string(),
            region: region.to_string(),
            line: format!("{} mac {} {} {} {} {} {}", suite, region, max_power, gain, seed, forced_s, bias_s),
            last_down: None,
            devaddr: DEVADDR,
            live: None,
            outs: vec![],
            dead: false,
            nwk: NWK_KEY,
            app: APP_KEY,
            root: ROOT_KEY,
        }
    }
    /// switch on live generation (must be called before the first event)
    pub fn go_live(&mut self) -> &mut Self {
        self.live = parse_header_pub(&self.line);
        self
    }
    pub fn ev(&mut self, e: &str) -> &mut Self {
        self.line.push_str(" ; ");
        self.line.push_str(e);
        if !self.dead {
            if let Some(r) = self.live.as_mut() {
                let res = std::panic::catch_unwind(std::panic::AssertUnwindSafe(|| r.step(e)));
                match res {
                    Ok(Some(o)) => self.outs.push(o),
                    _ => {
                        self.dead = true;
                        self.outs.push("PANIC".into());
                    }
                }
                if !self.dead {
                    self.nwk = r.nwk;
                    self.app = r.app;
                }
            }
        }
        self
    }
    pub fn last_out(&self) -> &str {
        self.outs.last().map(|s| s.as_str()).unwrap_or("")
    }
    pub fn abp(&mut self) -> &mut Self {
        self.last_down = None;
        let e = format!("abp {}", self.devaddr);
        self.ev(&e)
    }
    pub fn sess(&mut self, up: u32, down: Option<u32>, cnt: u32, conf: bool, pend: &[u8], ack: bool) -> &mut Self {
        self.last_down = down;
        let e = format!(
            "sess {} {} {} {} {} {} {}",
            self.devaddr,
            up,
            down.map(|d| d.to_string()).unwrap_or("-".into()),
            cnt,
            conf as u8,
            hex(pend),
            ack as u8
        );
        self.ev(&e)
    }
    pub fn send(&mut self, port: u8, conf: bool, data: &[u8]) -> &mut Self {
        let e = format!("send {} {} {}", port, conf as u8, hex(data));
        self.ev(&e)
    }
    pub fn snap(&mut self) -> &mut Self {
        self.ev("snap")
    }
    pub fn timeout(&mut self) -> &mut Self {
        self.ev("timeout")
    }
    /// a received byte string in window `w` ("rx1" | "rx2" | "rxc"); `hint` = counter it was built with
    pub fn rx_bytes(&mut self, w: &str, snr: i8, bytes: &[u8], hint: Option<u32>) -> &mut Self {
        let view = view_of(bytes, Some(self.devaddr), &self.nwk, &self.app, &self.root, hint);
        let e = format!("{} {} {} {}", w, snr, hex(bytes), view);
        self.ev(&e)
    }
    /// an authentic downlink with the next fresh counter (+`gap`), carrying `fopts` and an optional payload
    pub fn rx_auth(&mut self, w: &str, snr: i8, gap: u32, confirmed: bool, fopts: &[u8], fport: Option<u8>, payload: &[u8]) -> &mut Self {
        let fcnt = match self.last_down {
            None => gap.saturating_sub(1),
            Some(l) => l.wrapping_add(gap),
        };
        let mut d = DownDesc::new(self.devaddr, fcnt);
        d.nwk = self.nwk;
        d.app = self.app;
        d.confirmed = confirmed;
        d.fopts = fopts.to_vec();
        d.fport = fport;
        d.payload = payload.to_vec();
        let bytes = d.build().expect("downlink build");
        self.last_down = Some(fcnt);
        self.rx_bytes(w, snr, &bytes, Some(fcnt))
    }
    pub fn done(&self) -> String {
        self.line.clone()
    }
}

pub fn link_adr_req(dr: u8, pw: u8, mask: u16, cntl: u8, nbtrans: u8) -> Vec<u8> {
    vec![0x03, (dr << 4) | (pw & 0x0f), mask as u8, (mask >> 8) as u8, ((cntl & 7) << 4) | (nbtrans & 0x0f)]
}
pub fn freq_bytes(f: u32) -> [u8; 3] {
    let v = f / 100;
    [v as u8, (v >> 8) as u8, (v >> 16) as u8]
}
pub fn rx_param_setup_req(dl_settings: u8, f: u32) -> Vec<u8> {
    let b = freq_bytes(f);
    vec![0x05, dl_settings, b[0], b[1], b[2]]
}
pub fn rx_timing_setup_req(del: u8) -> Vec<u8> {
    vec![0x08, del]
}
pub fn new_channel_req(idx: u8, f: u32, drr: u8) -> Vec<u8> {
    let b = freq_bytes(f);
    vec![0x07, idx, b[0], b[1], b[2], drr]
}
pub fn dl_channel_req(idx: u8, f: u32) -> Vec<u8> {
    let b = freq_bytes(f);
    vec![0x0a, idx, b[0], b[1], b[2]]
}
pub fn dev_status_req() -> Vec<u8> {
    vec![0x06]
}

/// (lo, hi) of the band the region accepts, and a few in-band 100 Hz-aligned frequencies
pub fn band(region: &str) -> (u32, u32) {
    match region {
        "AS923_1" | "AS923_2" | "AS923_3" => (915_000_000, 928_000_000),
        "AS923_4" => (917_000_000, 920_000_000),
        "AU915" => (915_000_000, 928_000_000),
        "EU868" => (863_000_000, 870_000_000),
        "EU433" => (433_050_000, 434_790_000),
        "IN865" => (865_000_000, 867_000_000),
        _ => (902_000_000, 928_000_000),
    }
}

/// uplink frequency of default channel 0 (dynamic plans)
pub fn default_ch0(region: &str) -> u32 {
    match region {
        "EU868" => 868_100_000,
        "EU433" => 433_175_000,
        "IN865" => 865_062_500,
        "AS923_1" => 923_200_000,
        "AS923_2" => 921_400_000,
        "AS923_3" => 916_600_000,
        "AS923_4" => 917_300_000,
        _ => 0,
    }
}

pub fn some_freq(rng: &mut Rng, region: &str) -> u32 {
    let (lo, hi) = band(region);
    match rng.below(10) {
        0 => 0,
        1 => lo,
        2 => hi,
        3 => lo - 100,
        4 => hi + 100,
        5 => (rng.below(0x1000000) as u32) * 100,
        _ => lo + (rng.below(((hi - lo) / 100) as u64 + 1) as u32) * 100,
    }
}

/// one random MAC command (handled ones with structured field values, plus unhandled / unknown CIDs)
pub fn some_cmd(rng: &mut Rng, region: &str) -> Vec<u8> {
    match rng.below(16) {
        0 | 1 | 2 => {
            let masks = [0u16, 1, 0x0007, 0x00ff, 0xff00, 0xffff, 1 << rng.below(16), rng.next() as u16];
            link_adr_req(rng.below(16) as u8, rng.below(16) as u8, *rng.pick(&masks), rng.below(8) as u8, rng.below(16) as u8)
        }
        3 | 4 => rx_param_setup_req(rng.next() as u8, some_freq(rng, region)),
        5 => rx_timing_setup_req(rng.next() as u8),
        6 | 7 | 8 => {
            let drr = if rng.chance(3, 4) { (5u8 << 4) | rng.below(6) as u8 } else { rng.next() as u8 };
            let idx = if rng.chance(5, 6) { rng.below(18) as u8 } else { rng.next() as u8 };
            new_channel_req(idx, some_freq(rng, region), drr)
        }
        9 | 10 => {
            let idx = if rng.chance(5, 6) { rng.below(18) as u8 } else { rng.next() as u8 };
            dl_channel_req(idx, some_freq(rng, region))
        }
        11 => dev_status_req(),
        12 => vec![0x02, rng.next() as u8, rng.next() as u8],      // LinkCheckAns
        13 => vec![0x04, rng.next() as u8],                         // DutyCycleReq
        14 => vec![0x09, rng.next() as u8],                         // TXParamSetupReq
        _ => {
            if rng.chance(1, 2) {
                vec![0x0d, 1, 2, 3, 4, 5] // DeviceTimeAns
            } else {
                vec![rng.next() as u8] // possibly unknown CID or truncated command
            }
        }
    }
}

pub fn some_cmds(rng: &mut Rng, region: &str, max_len: usize) -> Vec<u8> {
    let mut out = vec![];
    let n = 1 + rng.below(4);
    for _ in 0..n {
        let c = some_cmd(rng, region);
        if out.len() + c.len() <= max_len {
            out.extend_from_slice(&c);
        }
    }
    out
}

/// Class of a rejected frame for the histogram
/// change the last four octets so that the differences cancel under XOR (d,0,d,0 / a,b,c,a^b^c) or
/// under wrapping addition (+d, -d)
pub fn tamper_mic(rng: &mut Rng, b: &mut [u8]) {
    let n = b.len();
    if n < 4 {
        return;
    }
    let d = 1 + rng.below(255) as u8;
    match rng.below(3) {
        0 => {
            b[n - 4] ^= d;
            b[n - 2] ^= d;
        }
        1 => {
            let (x, y, z) = (1 + rng.below(255) as u8, rng.next() as u8, rng.next() as u8);
            b[n - 4] ^= x;
            b[n - 3] ^= y;
            b[n - 2] ^= z;
            b[n - 1] ^= x ^ y ^ z;
            if x ^ y ^ z == 0 && y == 0 && z == 0 {
                b[n - 4] ^= x; // never leave the MIC intact
                b[n - 4] ^= d;
                b[n - 2] ^= d;
            }
        }
        _ => {
            b[n - 4] = b[n - 4].wrapping_add(d);
            b[n - 1] = b[n - 1].wrapping_sub(d);
        }
    }
}

/// deterministic variant for a plaintext MIC: d,0,d,0
pub fn tamper_mic_plain(m: &mut [u8], d: u8) {
    m[0] ^= d;
    m[2] ^= d;
}

/// builder X — an UPLINK-typed data frame (MHDR 0x40 UnconfirmedDataUp / 0x80 ConfirmedDataUp) of this very session:
/// DevAddr of the device, MIC and keystream with Dir = 0 under the session keys, built by the independent
/// reference encoder at the counter `last + 1` (0..2 for the first frame) — i.e. above the last accepted downlink
/// counter, so that ONLY the direction makes it invalid for the device.  It carries what a stack would react
/// to if it took it for a downlink: MAC commands in FOpts, or a small application payload (≤ 15 octets in all,
/// so that it fits every data rate), or port-0 commands; one in six is longer than small data rates allow.
pub fn uplink_typed_frame(rng: &mut Rng, devaddr: u32, nwk: &[u8; 16], app: &[u8; 16], region: &str, last: Option<u32>) -> (Vec<u8>, u32) {
    let fcnt = match last {
        Some(l) => l.wrapping_add(1),
        None => rng.below(3) as u32,
    };
    let mut d = DownDesc::new(devaddr, fcnt);
    d.nwk = *nwk;
    d.app = *app;
    d.uplink_type = true;
    d.confirmed = rng.chance(1, 2);
    d.ack = rng.chance(1, 4);
    match rng.below(4) {
        0 => d.fopts = rx_timing_setup_req(1 + rng.below(14) as u8),
        1 => d.fopts = some_cmds(rng, region, 3),
        2 => {
            d.fport = Some(0);
            d.payload = dev_status_req();
        }
        _ => {
            d.fport = Some(1 + rng.below(200) as u8);
            d.payload = vec![0xec, 0x40];
        }
    }
    if rng.chance(1, 6) {
        // now and then longer than the window's data rate allows: an uplink-typed frame is ignored BEFORE the size
        // test (it does not end the receive procedure the way an oversized downlink does)
        d.fopts = vec![];
        d.fport = Some(1 + rng.below(200) as u8);
        let n = *rng.pick(&[20usize, 60, 130, 238]);
        d.payload = rng.bytes(n);
    }
    (d.build().expect("uplink-typed frame"), fcnt)
}

/// builder X — the device's own last uplink as it went on the air (live histories only)
pub fn own_last_uplink(h: &Hist) -> Option<Vec<u8>> {
    let f = h.live.as_ref()?.last_tx.as_ref()?.frame.to_vec();
    // a data uplink, not a JoinRequest
    if f.len() >= 12 && matches!(f[0] >> 5, 2 | 4) {
        Some(f)
    } else {
        None
    }
}

/// builder X — histories around uplink-typed frames (class `uplink-echo`): a session (ABP, or restored with the
/// downlink counter below / far below the uplink counter), an uplink, then in window `w` (rx1 | rx2 | rxc after the
/// procedure) the device's OWN uplink echoed back octet for octet and/or an uplink-typed frame of the session
/// rebuilt at the next fresh downlink counter; a snapshot; then the authentic DOWNLINK with that very counter
/// (it must still be fresh: the uplink-typed frame consumed nothing), a snapshot, and one more uplink.
pub fn uplink_echo_history(suite: &str, rng: &mut Rng, region: &str, k: usize) -> String {
    let mut h = Hist::new(suite, region, *rng.pick(&[14u8, 20]), 0, rng.next() & 0xffff, &[], None);
    h.go_live();
    match k % 4 {
        0 => {
            h.abp();
        }
        1 => {
            h.sess(7 + rng.below(100) as u32, Some(rng.below(5) as u32), 0, false, &[], false);
        }
        2 => {
            h.sess(0x1_0003, Some(0xfff0 + rng.below(8) as u32), 0, k % 8 == 2, &[], false);
        }
        _ => {
            h.sess(20 + rng.below(40) as u32, None, 0, false, &[], false);
        }
    }
    h.snap();
    let w = ["rx1", "rx2", "rxc"][(k / 4) % 3];
    let conf = k % 7 == 3;
    h.send(1 + rng.below(200) as u8, conf, &[0xe0, k as u8]);
    if w == "rxc" {
        h.timeout();
    }
    let variant = k % 3;
    if variant != 1 {
        if let Some(own) = own_last_uplink(&h) {
            h.rx_bytes(w, rng.range(-10, 10) as i8, &own, None);
        }
    }
    if variant != 0 && !h.dead {
        let (b, f) = uplink_typed_frame(rng, h.devaddr, &h.nwk, &h.app, region, h.last_down);
        h.rx_bytes(w, rng.range(-10, 10) as i8, &b, Some(f));
    }
    h.snap();
    if !h.dead {
        // the authentic downlink at the next fresh counter is still accepted
        let w2 = if w == "rx1" { "rx2" } else { w };
        h.rx_auth(w2, 2, 1, false, &rx_timing_setup_req(5), None, &[]);
        h.snap();
        h.send(2, false, &[0xe1]).timeout().snap();
    }
    h.done()
}

/// builder Y — a DOWNLINK data frame ADDRESSED TO ANOTHER DEVICE but MIC'd and encrypted under THIS session's own
/// keys (two ABP devices provisioned with the same keys, a network reusing a key): built by the independent reference
/// encoder for DevAddr `devaddr` ± something (neighbouring address, one bit, one octet, NwkID part, byte-swapped) at
/// the counter `last + 1` (0..2 for the first frame), i.e. a fresh counter, so that ONLY the address makes it invalid
/// for the device.  It carries what a stack would react to if it took it for its own: MAC commands in FOpts, a small
/// application payload, or port-0 commands (≤ 15 octets in all so that it fits every data rate); one in six is
/// longer than small data rates allow (an oversized frame ends a Class A procedure whoever it is addressed to).
pub fn other_devaddr_frame(rng: &mut Rng, devaddr: u32, nwk: &[u8; 16], app: &[u8; 16], region: &str, last: Option<u32>) -> (Vec<u8>, u32) {
    let fcnt = match last {
        Some(l) => l.wrapping_add(1),
        None => rng.below(3) as u32,
    };
    let other = match rng.below(6) {
        0 => devaddr.wrapping_add(1),
        1 => devaddr.wrapping_sub(1),
        2 => devaddr ^ (1u32 << rng.below(32)),
        3 => devaddr ^ (0xffu32 << (8 * rng.below(4))),
        4 => {
            let s = devaddr.swap_bytes();
            if s != devaddr { s } else { !devaddr }
        }
        _ => devaddr.wrapping_add(1 + (rng.next() as u32 % 0xffff_fffe)),
    };
    let mut d = DownDesc::new(other, fcnt);
    d.nwk = *nwk;
    d.app = *app;
    d.confirmed = rng.chance(1, 2);
    d.ack = rng.chance(1, 4);
    match rng.below(4) {
        0 => d.fopts = rx_timing_setup_req(1 + rng.below(14) as u8),
        1 => d.fopts = some_cmds(rng, region, 3),
        2 => {
            d.fport = Some(0);
            d.payload = dev_status_req();
        }
        _ => {
            d.fport = Some(1 + rng.below(200) as u8);
            d.payload = vec![0xad, 0xd7];
        }
    }
    if rng.chance(1, 6) {
        d.fopts = vec![];
        d.fport = Some(1 + rng.below(200) as u8);
        let n = *rng.pick(&[20usize, 60, 130, 238]);
        d.payload = rng.bytes(n);
    }
    (d.build().expect("other-devaddr frame"), fcnt)
}

/// builder Y — histories around frames addressed to another device (class `other-devaddr`): a session (ABP, or
/// restored with various counters), an uplink, then in window `w` (rx1 | rx2 | rxc after the procedure) one or two
/// downlinks for another DevAddr under the session's own keys at the next fresh counter; a snapshot; then the
/// authentic downlink for THIS device with that very counter (it must still be fresh: the foreign frame consumed
/// nothing), a snapshot, and one more uplink.
pub fn other_devaddr_history(suite: &str, rng: &mut Rng, region: &str, k: usize) -> String {
    let mut h = Hist::new(suite, region, *rng.pick(&[14u8, 20]), 0, rng.next() & 0xffff, &[], None);
    h.go_live();
    match k % 4 {
        0 => {
            h.abp();
        }
        1 => {
            h.sess(7 + rng.below(100) as u32, Some(rng.below(5) as u32), 0, false, &[], false);
        }
        2 => {
            h.sess(0x1_0003, Some(0xfff0 + rng.below(8) as u32), 0, k % 8 == 2, &[], false);
        }
        _ => {
            h.sess(20 + rng.below(40) as u32, None, 0, false, &[], false);
        }
    }
    h.snap();
    let w = ["rx1", "rx2", "rxc"][(k / 4) % 3];
    let conf = k % 7 == 3;
    h.send(1 + rng.below(200) as u8, conf, &[0xd0, k as u8]);
    if w == "rxc" {
        h.timeout();
    }
    for _ in 0..(1 + k % 2) {
        if !h.dead {
            let (b, f) = other_devaddr_frame(rng, h.devaddr, &h.nwk, &h.app, region, h.last_down);
            h.rx_bytes(w, rng.range(-10, 10) as i8, &b, Some(f));
        }
    }
    h.snap();
    if !h.dead {
        // the authentic downlink at the next fresh counter is still accepted (if the procedure is still open: an
        // oversized foreign frame may have ended it — then this is a frame outside any window / in RXC)
        let w2 = if w == "rx1" { "rx2" } else { w };
        h.rx_auth(w2, 2, 1, false, &rx_timing_setup_req(5), None, &[]);
        h.snap();
        h.send(2, false, &[0xd1]).timeout().snap();
    }
    h.done()
}

pub fn rejected_frame(rng: &mut Rng, h: &Hist) -> (Vec<u8>, Option<u32>, &'static str) {
    let last = h.last_down;
    match rng.below(12) {
        11 => {
            // builder Y — a downlink addressed to another DevAddr under this session's OWN keys at the next fresh
            // counter: only the address makes it invalid
            let (b, f) = other_devaddr_frame(rng, h.devaddr, &h.nwk, &h.app, &h.region, last);
            (b, Some(f), "rej-other-devaddr")
        }
        10 => {
            // builder X — an uplink-typed frame of this session: the device's own last uplink echoed back octet
            // for octet, or one rebuilt at the next fresh downlink counter (Dir = 0 MIC under the session key):
            // not a frame for an end-device, whatever its MIC
            if rng.chance(1, 2) {
                if let Some(own) = own_last_uplink(h) {
                    return (own, None, "rej-uplink-echo");
                }
            }
            let (b, f) = uplink_typed_frame(rng, h.devaddr, &h.nwk, &h.app, &h.region, last);
            (b, Some(f), "rej-uplink-echo")
        }
        0 => ({ let n = rng.below(40) as usize; rng.bytes(n) }, None, "rej-random"),
        8 => {
            // a frame that verifies at the next fresh counter but whose FOptsLen claims 1..3 octets more
            // than there are between FCnt and the MIC (no FPort, no payload): not a well-formed data
            // frame, whatever its MIC says
            let fcnt = last.map(|l| l.wrapping_add(1)).unwrap_or(0);
            let mut d = DownDesc::new(h.devaddr, fcnt);
            d.nwk = h.nwk;
            d.app = h.app;
            d.confirmed = rng.chance(1, 2);
            let k = *rng.pick(&[0usize, 0, 1, 3, 5]);
            d.fopts = rng.bytes(k);
            let mut b = d.build().unwrap();
            let over = 1 + rng.below(3) as u8;
            b[5] = (b[5] & 0xf0) | ((k as u8 + over) & 0x0f);
            let n = b.len() - 4;
            let mic = crate::refcodec::data_mic(&h.nwk, &b[..n], 1, &b[1..5], fcnt);
            b[n..].copy_from_slice(&mic);
            (b, Some(fcnt), "rej-foptslen-overrun-valid-mic")
        }
        7 => {
            // a frame that verifies at the next fresh counter but whose MHDR is not that of a
            // LoRaWAN R1 data frame (another major version, or a non-data message type); the MIC
            // covers the altered MHDR
            let fcnt = last.map(|l| l.wrapping_add(1)).unwrap_or(0);
            let mut d = DownDesc::new(h.devaddr, fcnt);
            d.nwk = h.nwk;
            d.app = h.app;
            d.confirmed = rng.chance(1, 2);
            if rng.chance(1, 2) {
                d.fopts = some_cmds(rng, &h.region, 15);
            } else {
                d.fport = Some(9);
                d.payload = vec![4, 5];
            }
            let mut b = d.build().unwrap();
            // (builder X: 0x40 / 0x80 — an uplink MType over a frame MIC'd as a downlink, Dir = 1; the Dir = 0
            // variant is class rej-uplink-echo)
            b[0] = *rng.pick(&[0x61u8, 0x62, 0x63, 0xa1, 0xa3, 0xe0, 0xc0, 0x20, 0x00, 0x40, 0x80]);
            let n = b.len() - 4;
            let mic = crate::refcodec::data_mic(&h.nwk, &b[..n], 1, &b[1..5], fcnt);
            b[n..].copy_from_slice(&mic);
            (b, Some(fcnt), "rej-mhdr-valid-mic")
        }
        1 => {
            // authentic frame with one bit flipped
            let fcnt = last.map(|l| l.wrapping_add(1)).unwrap_or(5);
            let mut d = DownDesc::new(h.devaddr, fcnt);
            d.nwk = h.nwk;
            d.app = h.app;
            d.fopts = rx_timing_setup_req(3);
            d.confirmed = rng.chance(1, 2);
            let mut b = d.build().unwrap();
            let i = rng.below(b.len() as u64 * 8) as usize;
            b[i / 8] ^= 1 << (i % 8);
            (b, Some(fcnt), "rej-bitflip")
        }
        2 => {
            // other session (wrong key)
            let fcnt = last.map(|l| l.wrapping_add(1)).unwrap_or(5);
            let mut d = DownDesc::new(h.devaddr, fcnt);
            d.nwk = OTHER_KEY;
            d.confirmed = rng.chance(1, 2);
            d.fopts = link_adr_req(2, 1, 0x0001, 0, 1);
            (d.build().unwrap(), Some(fcnt), "rej-otherkey")
        }
        3 => {
            // replay / stale counter
            let fcnt = match last {
                Some(l) => l.saturating_sub(rng.below(3) as u32),
                None => 0,
            };
            let mut d = DownDesc::new(h.devaddr, fcnt);
            d.nwk = h.nwk;
            d.app = h.app;
            d.fport = Some(7);
            d.payload = vec![1, 2, 3];
            // replays of confirmed frames, with header bits and commands a stack might react to
            d.confirmed = rng.chance(1, 2);
            d.ack = rng.chance(1, 4);
            d.fpending = rng.chance(1, 4);
            if rng.chance(1, 3) {
                d.fopts = some_cmds(rng, &h.region, 15);
            }
            (d.build().unwrap(), Some(fcnt), if last.is_some() { "rej-replay" } else { "first-frame" })
        }
        4 => {
            // far future
            let fcnt = last.unwrap_or(0).wrapping_add(16385 + rng.below(70000) as u32);
            let mut d = DownDesc::new(h.devaddr, fcnt);
            d.nwk = h.nwk;
            d.app = h.app;
            d.confirmed = rng.chance(1, 2);
            (d.build().unwrap(), Some(fcnt), "rej-farfuture")
        }
        9 => {
            // an authentic fresh frame whose MIC is off in a pattern that cancels under XOR or under
            // addition (a comparison that folds the four octets into one would let it through)
            let fcnt = last.map(|l| l.wrapping_add(1)).unwrap_or(3);
            let mut d = DownDesc::new(h.devaddr, fcnt);
            d.nwk = h.nwk;
            d.app = h.app;
            d.fport = Some(9);
            d.payload = vec![4, 5];
            let mut b = d.build().unwrap();
            tamper_mic(rng, &mut b);
            (b, Some(fcnt), "rej-mic-cancelling")
        }
        5 => {
            // a JoinAccept under a wrong key
            if rng.chance(1, 2) {
                // ... or a (replayed) JoinAccept under the device's own root key, while in a session
                let root = h.root;
                return (build_join_accept(&root, 0x01020304, rng.next() as u8, rng.next() as u8 & 0x0f, &CfDesc::None), None, "rej-joinaccept-in-session");
            }
            (build_join_accept(&OTHER_KEY, 0x01020304, rng.next() as u8, rng.next() as u8 & 0x0f, &CfDesc::None), None, "rej-joinaccept-wrongkey")
        }
        _ => {
            // structurally short / odd frames
            let mut b = vec![0x60u8];
            let n = rng.below(14) as usize;
            b.extend_from_slice(&rng.bytes(n));
            (b, None, "rej-short")
        }
    }
}


/// uplink data rates an application may select in the region (RP002 uplink DRs the device defines)
pub fn uplink_drs(region: &str) -> Vec<u8> {
    match region {
        "EU868" | "IN865" => (0..=5).collect(),
        "EU433" => (0..=6).collect(),
        "US915" => (0..=4).collect(),
        "AU915" => (0..=6).collect(),
        _ => (0..=6).collect(), // AS923
    }
}

#[derive(Clone, Debug)]
pub struct Opts {
    pub steps: usize,
    /// percentage of histories that start with an OTAA join instead of ABP
    pub otaa_pct: u64,
    pub class_c: bool,
    pub rejected: bool,
    pub cmds: bool,
    pub counters: Option<(u32, Option<u32>)>,
    pub bias: bool,
    pub toggles: bool,
    pub snaps: bool,
}

impl Default for Opts {
    fn default() -> Self {
        Opts { steps: 8, otaa_pct: 30, class_c: true, rejected: true, cmds: true, counters: None, bias: true, toggles: true, snaps: true }
    }
}

pub fn some_cflist(rng: &mut Rng, region: &str) -> CfDesc {
    match rng.below(6) {
        0 | 1 => CfDesc::None,
        2 | 3 => {
            let mut f = [0u32; 5];
            for x in f.iter_mut() {
                *x = some_freq(rng, region);
            }
            CfDesc::Dynamic(f)
        }
        4 => {
            let mut m = [0u8; 9];
            for b in m.iter_mut() {
                *b = match rng.below(4) {
                    0 => 0,
                    1 => 0xff,
                    _ => rng.next() as u8,
                };
            }
            CfDesc::Fixed(m)
        }
        _ => {
            let mut c = [0u8; 15];
            for b in c.iter_mut() {
                *b = rng.next() as u8;
            }
            CfDesc::Rfu(2 + rng.below(254) as u8, c)
        }
    }
}

/// OTAA join attempt: JoinRequest, then a JoinAccept (valid / wrong key / none) in RX1 or RX2
pub fn join_attempt(rng: &mut Rng, h: &mut Hist, accept_pct: u64) -> bool {
    // mostly the first credential set; sometimes another one (a corrected key or another network
    // after a failed attempt, a different device identity on re-join)
    let k = if rng.chance(1, 3) { 1 + rng.below(2) as usize } else { 0 };
    let old_root = h.root;
    h.root = CREDS[k].2;
    if k == 0 {
        h.ev("otaa");
    } else {
        h.ev(&format!("otaa {}", k));
    }
    if h.dead {
        return false;
    }
    let devaddr = 0x01000000 + (rng.next() as u32 & 0xffffff);
    let dls = if rng.chance(1, 2) { rng.next() as u8 } else { (rng.below(4) as u8) << 4 | rng.below(6) as u8 };
    let rxd = rng.next() as u8 & 0x0f;
    let cf = some_cflist(rng, &h.region.clone());
    let w = if rng.chance(1, 2) { "rx1" } else { "rx2" };
    if rng.chance(1, 4) {
        // a JoinAccept-shaped frame that verifies under the device's own root key but whose MHDR is
        // not that of a LoRaWAN R1 JoinAccept (another major version / another message type): invalid
        let mhdr = *rng.pick(&[0x21u8, 0x22, 0x23, 0x00, 0x40, 0x60, 0xe0, 0xc1]);
        let root = h.root;
        let cfr = if rng.chance(1, 2) { Some((0u8, [0x18, 0x4f, 0x84, 0xe8, 0x56, 0x84, 0xb8, 0x5e, 0x84, 0x88, 0x66, 0x84, 0x58, 0x6e, 0x84])) } else { None };
        let bad = build_join_accept_mhdr(&root, mhdr, devaddr, dls, rxd, cfr);
        h.rx_bytes(w, 0, &bad, None);
    }
    if rng.below(100) < accept_pct {
        if rng.chance(1, 4) {
            // a wrong-key accept first: must change nothing (a foreign key, or the key of the
            // previous attempt's credentials)
            let wrong = if old_root != h.root && rng.chance(1, 2) { old_root } else { OTHER_KEY };
            let bad = build_join_accept(&wrong, devaddr, dls, rxd, &cf);
            h.rx_bytes(w, 0, &bad, None);
        }
        let root = h.root;
        let acc = build_join_accept(&root, devaddr, dls, rxd, &cf);
        if acc.len() == 33 && rng.chance(1, 2) {
            // the genuine CFList-bearing accept with one bit flipped in its FIRST ciphertext block: ECB
            // leaves the second block (most of the CFList and the MIC) intact, the MIC no longer
            // verifies — nothing of it may be applied (not even the CFList)
            let mut b = acc.clone();
            let i = 8 + rng.below(128) as usize;
            b[i / 8] ^= 1 << (i % 8);
            h.rx_bytes(w, 0, &b, None);
        }
        if rng.chance(1, 3) {
            // the genuine accept with its MIC off in a cancelling pattern: the MIC is inside the
            // encrypted part, so tamper the plaintext and re-encrypt (reference codec)
            if let Some(forged) = crate::refcodec::retag_join_accept(&root, &acc, |m| tamper_mic_plain(m, (devaddr as u8) | 1)) {
                h.rx_bytes(w, 0, &forged, None);
            }
        }
        h.rx_bytes(w, 5, &acc, None);
        h.devaddr = devaddr;
        h.last_down = None;
        true
    } else {
        if rng.chance(1, 2) {
            let bad = build_join_accept(&OTHER_KEY, devaddr, dls, rxd, &cf);
            h.rx_bytes(w, 0, &bad, None);
        }
        h.timeout();
        false
    }
}

/// Dynamic plans: a channel mask that is non-empty but names no DEFINED channel. Variant 0/1 (ABP):
/// NewChannelReq defines channel `a`, a LinkADRReq block (ChMaskCntl 0) enables only `a` and a
/// never-defined `b` (variant 1: only `a`), a NewChannelReq with frequency 0 removes `a`, then the
/// device must still transmit. Variant 2 (OTAA): a CFList defines the channels, a LinkADRReq enables
/// one of them and an undefined one, a re-join's CFList carries 0 in that entry. After each step
/// there are uplinks: the channel selection must neither spin nor use an undefined channel.
pub fn stale_mask_history(suite: &str, rng: &mut Rng, region: &str, variant: usize) -> String {
    let nd = crate::oracle::num_default_channels(region) as u8;
    let (lo, _) = band(region);
    let mut h = Hist::new(suite, region, 20, 0, rng.next() % 1000, &[], None);
    h.go_live();
    let a = nd + rng.below((16 - nd) as u64) as u8;
    let mut b = nd + rng.below((16 - nd) as u64) as u8;
    if b == a {
        b = if a == 15 { nd } else { a + 1 };
    }
    let f = |k: u32| lo + 200_000 + 200_000 * k;
    if variant < 2 {
        h.abp();
        h.send(1, false, &[1]);
        h.rx_auth("rx1", 0, 1, false, &new_channel_req(a, f(a as u32), 0x50), None, &[]);
        h.snap();
        let mask: u16 = if variant == 0 { (1 << a) | (1 << b) } else { 1 << a };
        h.send(1, false, &[2]);
        h.rx_auth("rx1", 0, 1, false, &link_adr_req(0, 0, mask, 0, 1), None, &[]);
        h.snap();
        h.send(1, false, &[3]);
        h.rx_auth(if rng.chance(1, 2) { "rx1" } else { "rx2" }, 0, 1, false, &new_channel_req(a, 0, 0), None, &[]);
        h.snap();
    } else {
        let root = h.root;
        let first = nd; // CFList entries define channels nd..nd+5
        let c = first + rng.below(5) as u8;
        let mut fr = [0u32; 5];
        for (i, x) in fr.iter_mut().enumerate() {
            *x = f(i as u32 + 1);
        }
        h.ev("otaa");
        let acc = build_join_accept(&root, 0x01000001, 0, 1, &CfDesc::Dynamic(fr));
        h.rx_bytes("rx1", 5, &acc, None);
        h.devaddr = 0x01000001;
        h.last_down = None;
        h.snap();
        let other = if c == first { first + 6 } else { c - 1 + 6 }.min(15);
        let mask: u16 = (1 << c) | if rng.chance(1, 2) { 1 << other } else { 0 };
        h.send(1, false, &[2]);
        h.rx_auth("rx1", 0, 1, false, &link_adr_req(0, 0, mask, 0, 1), None, &[]);
        h.snap();
        h.send(1, false, &[3]).timeout();
        // re-join: the CFList now carries 0 where channel `c` was
        fr[(c - first) as usize] = 0;
        h.ev("otaa");
        let acc = build_join_accept(&root, 0x01000002, 0, 1, &CfDesc::Dynamic(fr));
        h.rx_bytes("rx1", 5, &acc, None);
        h.devaddr = 0x01000002;
        h.last_down = None;
        h.snap();
    }
    for i in 0..3u8 {
        if h.dead {
            break;
        }
        h.send(1, false, &[0x40 + i]).timeout();
    }
    h.snap();
    h.done()
}

/// Two LinkADRReq blocks in ONE downlink, separated by another command: the first widens the mask
/// but is rejected (an undefined data rate), the second is partial and accepted. Before that the
/// mask was restricted by an accepted block. Nothing of the rejected block may survive: the uplinks
/// that follow must stay on the channels the network enabled.
pub fn two_blocks_history(suite: &str, rng: &mut Rng, region: &str, k: usize) -> String {
    let mut h = Hist::new(suite, region, 20, 0, 500 + k as u64, &[], None);
    h.go_live();
    h.abp();
    let fixed = is_fixed(region);
    let bad_dr: u8 = if region == "US915" { 5 } else if region == "AU915" { 7 } else { 12 };
    h.send(1, false, &[1]);
    if fixed {
        // all 125 kHz channels off, 500 kHz channel 65 on; then channels 8..15 (or another bank) on
        let bank = (k % 4) as u8;
        let mut a = link_adr_req(if region == "US915" { 2 } else { 3 }, 15, 0x0002, 7, 1);
        a.extend_from_slice(&link_adr_req(if region == "US915" { 2 } else { 3 }, 15, if k % 2 == 0 { 0xff00 } else { 0x00f0 }, bank, 1));
        h.rx_auth("rx1", 0, 1, false, &a, None, &[]);
    } else {
        let n = crate::oracle::num_default_channels(region);
        h.rx_auth("rx1", 0, 1, false, &link_adr_req(0, 15, if n == 3 { 0x0005 } else { 0x0001 }, 0, 1), None, &[]);
    }
    h.snap();
    h.send(1, false, &[2]);
    let mut b = link_adr_req(bad_dr, 15, if fixed { 0x00ff } else { 0x0007 }, 6, 1);
    b.extend_from_slice(&dev_status_req());
    if fixed {
        b.extend_from_slice(&link_adr_req(15, 15, if k % 3 == 0 { 0x0002 } else { 0x0001 }, 4, 1));
    } else {
        b.extend_from_slice(&link_adr_req(15, 15, 0x0001, 0, 1));
    }
    h.rx_auth(if k % 2 == 0 { "rx1" } else { "rx2" }, 0, 1, false, &b, None, &[]);
    h.snap();
    for i in 0..(10 + rng.below(8) as u8) {
        if h.dead {
            break;
        }
        h.send(1, false, &[0x50 + i]).timeout();
    }
    h.snap();
    h.done()
}

/// A long run of unanswered join attempts (the join walk over all banks of a fixed plan, with and
/// without a bias of several tries; dynamic plans walk their join channels), optionally interleaved
/// with a data uplink of an earlier ABP session: the walk's book-keeping must never run dry.
pub fn join_walk(suite: &str, rng: &mut Rng, region: &str, k: usize) -> String {
    let bias = if is_fixed(region) && k % 4 != 3 { Some((1 + rng.below(8) as u8, [2usize, 3, 4, 1][k % 4])) } else { None };
    let mut h = Hist::new(suite, region, 20, 0, rng.next() & 0xffffff, &[], bias);
    h.go_live();
    if k % 5 == 4 {
        // data uplinks while the bias is still in force, then the run of re-joins
        h.abp();
        for _ in 0..3 {
            h.send(1, false, &[1]).timeout();
        }
    }
    let n = 60 + rng.below(30) as usize;
    for i in 0..n {
        if h.dead {
            break;
        }
        h.ev("otaa");
        if i % 16 == 7 {
            let bad = build_join_accept(&OTHER_KEY, 0x01020304, 0, 1, &CfDesc::None);
            h.rx_bytes("rx1", 0, &bad, None);
        }
        h.timeout();
    }
    h.snap();
    h.done()
}

/// A general random history (see Opts); returns the op line and the histogram class.
pub fn gen_history(suite: &str, rng: &mut Rng, region: &str, o: &Opts) -> String {
    let bias = if o.bias && is_fixed(region) && rng.chance(1, 2) { Some((1 + rng.below(8) as u8, rng.below(4) as usize)) } else { None };
    let forced: Vec<u32> = if rng.chance(1, 6) { (0..rng.below(4)).map(|_| rng.next() as u32).collect() } else { vec![] };
    let mut h = Hist::new(suite, region, *rng.pick(&[14u8, 20, 30, 2]), *rng.pick(&[0i8, 0, 2, -3, 6]), rng.next() & 0xffffff, &forced, bias);
    h.go_live();
    let mut joined;
    if rng.below(100) < o.otaa_pct {
        joined = join_attempt(rng, &mut h, 75);
    } else {
        match o.counters {
            Some((up, down)) => {
                h.sess(up, down, rng.below(3) as u32 * 40, false, &[], false);
            }
            None => {
                h.abp();
            }
        }
        joined = true;
    }
    if o.snaps {
        h.snap();
    }
    let drs = uplink_drs(region);
    for _ in 0..o.steps {
        if h.dead {
            break;
        }
        if o.toggles && rng.chance(1, 8) {
            let e = format!("adr {}", rng.below(2));
            h.ev(&e);
        }
        if o.toggles && rng.chance(1, 8) {
            let e = format!("dr {}", rng.pick(&drs));
            h.ev(&e);
        }
        if !joined || rng.chance(1, 25) {
            joined = join_attempt(rng, &mut h, 75);
            if o.snaps {
                h.snap();
            }
            continue;
        }
        if o.class_c && rng.chance(1, 6) {
            // Class C reception outside the Class A windows
            if o.rejected && rng.chance(1, 2) {
                let (b, hint, _) = rejected_frame(rng, &h);
                h.rx_bytes("rxc", 1, &b, hint);
                if h.last_out().starts_with("resp=DownlinkReceived") {
                    if let Some(f) = hint {
                        h.last_down = Some(f);
                    }
                }
            } else {
                let with_cmds = o.cmds && rng.chance(1, 2);
                let cmds = if with_cmds { some_cmds(rng, region, 15) } else { vec![] };
                h.rx_auth("rxc", rng.range(-10, 10) as i8, 1 + rng.below(2) as u32, rng.chance(1, 3), &cmds, Some(9), &[0xc0]);
            }
        }
        let port = if rng.chance(1, 10) { 0 } else { 1 + rng.below(223) as u8 };
        let n = rng.below(6) as usize;
        let data = if port == 0 { vec![] } else { rng.bytes(n) };
        h.send(port, rng.chance(1, 3), &data);
        // the receive procedure
        let mut done = false;
        for w in ["rx1", "rx2"] {
            if done || h.dead {
                break;
            }
            match rng.below(10) {
                0..=3 => {} // nothing heard in this window
                4..=5 if o.rejected => {
                    let (b, hint, _) = rejected_frame(rng, &h);
                    h.rx_bytes(w, rng.range(-20, 20) as i8, &b, hint);
                    if h.live.is_some() && h.last_out().starts_with("resp=DownlinkReceived") {
                        // e.g. the very first frame of a session is accepted at face value
                        if let Some(f) = hint {
                            h.last_down = Some(f);
                        }
                        done = true;
                    }
                    if h.last_out().starts_with("resp=RxComplete") || h.last_out().starts_with("resp=NoAck") || h.last_out().starts_with("resp=SessionExpired") {
                        done = true; // oversized frame ended the procedure
                    }
                }
                6 if o.rejected => {
                    // oversized for the window's data rate, but authentic
                    let big = rng.bytes(230);
                    h.rx_auth(w, 0, 1, false, &[], Some(3), &big);
                    if h.last_out().starts_with("resp=DownlinkReceived") {
                        done = true;
                    } else {
                        // not accepted: the network-side counter was not consumed
                        h.last_down = h.last_down.map(|l| l.wrapping_sub(1));
                        if h.last_out().starts_with("resp=RxComplete") || h.last_out().starts_with("resp=NoAck") || h.last_out().starts_with("resp=SessionExpired") {
                            done = true;
                        }
                    }
                }
                _ => {
                    let cmds = if o.cmds && rng.chance(2, 3) { some_cmds(rng, region, 30) } else { vec![] };
                    let in_fopts = cmds.len() <= 15 && rng.chance(1, 2);
                    let gap = if rng.chance(1, 10) { 1 + rng.below(16384) as u32 } else { 1 + rng.below(3) as u32 };
                    let saved_last = h.last_down;
                    if in_fopts {
                        let with_data = rng.chance(1, 2);
                        h.rx_auth(w, rng.range(-40, 40) as i8, gap, rng.chance(1, 3), &cmds, if with_data { Some(1 + rng.below(200) as u8) } else { None }, if with_data { &[1, 2, 3] } else { &[] });
                    } else {
                        h.rx_auth(w, rng.range(-40, 40) as i8, gap, rng.chance(1, 3), &[], Some(0), &cmds);
                    }
                    if h.last_out().starts_with("resp=NoUpdate") || h.last_out().starts_with("resp=NotJoined") {
                        // e.g. too long for this window's data rate: the frame was not accepted
                        h.last_down = saved_last;
                    } else {
                        done = true;
                    }
                }
            }
        }
        if !done {
            h.timeout();
        }
        if o.snaps {
            h.snap();
        }
    }
    // the device must still be able to transmit afterwards
    if !h.dead {
        h.send(1, false, &[0xee]).timeout();
        if o.snaps {
            h.snap();
        }
    }
    h.done()
}
