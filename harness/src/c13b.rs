//! C13, SX127x part: the compiled reference driver (`sx127x.c` through smtc-modem-cores) and the
//! generators.  The SX127x is register based and the two drivers factor their register traffic
//! differently (burst writes, shadow copies), so `ref127`/`eff` lines compare the chip-visible
//! EFFECT: every register's final value plus the byte stream pushed into the FIFO.
#![allow(dead_code, unused_imports)]
use crate::c13::*;
use crate::fakechip::*;
use crate::util::*;
use smtc_modem_cores::sx127x as c127;
use smtc_modem_cores::sys;

pub fn radio_id(v: Variant) -> c127::sx127x_radio_id_e {
    match v {
        Variant::Sx1272 => c127::sx127x_radio_id_e::SX127X_RADIO_ID_SX1272,
        _ => c127::sx127x_radio_id_e::SX127X_RADIO_ID_SX1276,
    }
}

/// run the reference calls of one operation; the register file must already be in LoRa mode
pub fn run_ref127(cfg: &ChipCfg, w: &Shared, op: &[&str]) -> Option<()> {
    let mut c = c127::Context::new(FakeSpi(w.clone()), radio_id(cfg.variant));
    // the C driver keeps the packet type in RAM: fetch it from RegOpMode (LoRa bit set by make_world)
    c.set_pkt_type(sys::sx127x_pkt_types_e_SX127X_PKT_TYPE_LORA);
    w.borrow_mut().log.clear();
    match op {
        ["channel", hz] => {
            c.set_rf_freq(hz.parse().ok()?);
        }
        ["standby"] => {
            c.set_standby();
        }
        ["sleep", _] => {
            c.set_sleep();
        }
        ["syncword", word] => {
            let wd: u16 = word.parse().ok()?;
            c.set_lora_sync_word((((wd >> 8) & 0xF0) | ((wd >> 4) & 0x0F)) as u8);
        }
        ["dorx", mode] => {
            // only the symbol-count timeout is shared with the reference's set_lora_sync_timeout
            match rxmode_of(mode)? {
                lora_phy::RxMode::Single(n) => {
                    c.set_lora_sync_timeout(n);
                }
                _ => return None,
            }
        }
        ["modparams", sf, bw, cr, ldro, _hz] => {
            let bwc: u32 = match bw.parse::<u32>().ok()? {
                7810 => 0,
                10420 => 1,
                15630 => 2,
                20830 => 3,
                31250 => 4,
                41670 => 5,
                62500 => 6,
                125000 => 7,
                250000 => 8,
                500000 => 9,
                _ => return None,
            };
            c.set_lora_mod_params(&sys::sx127x_lora_mod_params_t {
                sf: sf.parse().ok()?,
                bw: bwc,
                cr: cr.parse::<u32>().ok()? - 4,
                ldro: ldro.parse().ok()?,
            });
        }
        ["pktparams", pre, implicit, len, crc, _iq] => {
            // IQ inversion is not part of the reference's packet parameters registers (it is applied when TX/RX starts)
            c.set_lora_pkt_params(&ref_pkt_params(pre.parse().ok()?, *implicit == "1", len.parse().ok()?, *crc == "1"));
        }
        ["irqparams", mode] => {
            // SX127X_IRQ_*: TX_DONE 1<<0, RX_DONE 1<<1, HEADER_VALID 1<<4, CRC_ERROR 1<<6, CAD_DONE 1<<7, CAD_DETECTED 1<<8, TIMEOUT 1<<9
            let m: u16 = match *mode {
                "tx" => 0x0001,
                "cad" => 0x0180,
                m if m.starts_with("rx") => 0x0002 | 0x0200 | 0x0040 | 0x0010,
                _ => 0,
            };
            c.set_irq_mask(m);
        }
        ["txpower", dbm, _hz, prep] => {
            let p: i32 = dbm.parse().ok()?;
            // the caller of the reference clamps the power to the range of the selected output
            let (lo, hi) = match (cfg.variant, cfg.tx_boost) {
                (Variant::Sx1272, true) => if p > 17 { (5, 20) } else { (2, 17) },
                (Variant::Sx1272, false) => (-1, 14),
                (_, true) => (2, 20),
                (_, false) => (-4, 14),
            };
            let pc = p.clamp(lo, hi);
            c.set_pa_cfg(&sys::sx127x_pa_cfg_params_t {
                pa_select: if cfg.tx_boost { sys::sx127x_pa_select_e_SX127X_PA_SELECT_BOOST } else { sys::sx127x_pa_select_e_SX127X_PA_SELECT_RFO },
                is_20_dbm_output_on: cfg.tx_boost && pc > 17,
            });
            c.set_tx_params(pc as i8, if *prep == "1" { sys::sx127x_ramp_time_e_SX127X_RAMP_40_US } else { sys::sx127x_ramp_time_e_SX127X_RAMP_250_US });
        }
        ["payload", hexs] => {
            let data = unhex(hexs);
            if data.len() > 255 {
                return None;
            }
            // `write_buffer` pushes `lora_pkt_params.pld_len_in_bytes` bytes: the packet parameters come first
            c.set_lora_pkt_params(&ref_pkt_params(8, false, data.len() as u8, true));
            c.write_buffer(0, &data);
        }
        _ => return None,
    }
    Some(())
}

fn ref_pkt_params(pre: u16, implicit: bool, len: u8, crc: bool) -> sys::sx127x_lora_pkt_params_t {
    sys::sx127x_lora_pkt_params_t {
        preamble_len_in_symb: pre,
        header_type: if implicit {
            sys::sx127x_lora_pkt_len_modes_e_SX127X_LORA_PKT_IMPLICIT
        } else {
            sys::sx127x_lora_pkt_len_modes_e_SX127X_LORA_PKT_EXPLICIT
        },
        pld_len_in_bytes: len,
        crc_is_on: crc,
        invert_iq_is_on: false,
    }
}

/// which bits of which register an operation's effect is compared on (everything else is outside
/// the shared part: errata registers lora-phy writes with the modulation, RX bring-up registers)
pub fn eff_mask(cfg: &ChipCfg, op: &[&str], a: usize) -> u8 {
    match op.first().copied() {
        // preamble, header type and CRC bits (read-modify-write of RegModemConfig1/2 on both sides); the payload
        // length register is written by lora-phy in implicit-header mode only; IQ registers, FIFO base
        // addresses, RegMaxPayloadLength and the reference's mode change are outside
        Some("pktparams") => match a {
            0x1d | 0x1e | 0x20 | 0x21 => 0xff,
            0x22 => if op.get(2) == Some(&"1") { 0xff } else { 0 },
            _ => 0,
        },
        // RegIrqFlagsMask; the DIO mapping lora-phy programs with it belongs to the reference's set_tx/set_rx
        Some("irqparams") => if a == 0x11 { 0xff } else { 0 },
        // PaSelect + OutputPower (+ MaxPower on the SX1276 RFO pin: with PA_BOOST the reference keeps these
        // bits, lora-phy clears them), PaRamp[3:0], PaDac[2:0]; the OCP trim lora-phy adds is outside
        Some("txpower") => match a {
            0x09 => if cfg.variant != Variant::Sx1272 && !cfg.tx_boost { 0xff } else { 0x8f },
            0x0a => 0x0f,
            0x4d => if cfg.variant != Variant::Sx1272 { 0x07 } else { 0 },
            0x5a => if cfg.variant == Variant::Sx1272 { 0x07 } else { 0 },
            _ => 0,
        },
        // RegPayloadLength, RegFifoAddrPtr (+ the FIFO content, appended by `effect`)
        Some("payload") => if a == 0x22 || a == 0x0d { 0xff } else { 0 },
        Some("modparams") => match a {
            0x1d | 0x1e | 0x37 => 0xff,
            // RegModemConfig3: lora-phy also forces AgcAutoOn (bit 2) off, the reference preserves it
            0x26 => 0xfb,
            0x31 => 0x07,
            _ => 0,
        },
        Some("dorx") => match a {
            0x1e | 0x1f => 0xff,
            _ => 0,
        },
        _ => 0xff,
    }
}

pub fn effect(cfg: &ChipCfg, w: &Shared, op: &[&str]) -> String {
    let m = w.borrow();
    let mut v: Vec<u8> = (1..128).map(|a| m.regs[a] & eff_mask(cfg, op, a)).collect();
    if let ["payload", hexs] = op {
        // the bytes pushed into the FIFO (both drivers start at pointer 0)
        v.extend_from_slice(&m.buffer[..(hexs.len() / 2).min(256)]);
    }
    hex(&v)
}

pub fn eval_ref127(cfg: &ChipCfg, w: &Shared, op: &[&str]) -> String {
    match run_ref127(cfg, w, op) {
        Some(()) => canonical(&w.borrow().log),
        None => "bad-op".into(),
    }
}

pub const CHIPS127: [&str; 2] = ["1276", "1272"];

fn emit_eff(g: &mut Gen, chip: &str, seed: u64, pokes: &str, opargs: &str, class: &str) {
    for kind in ["eff", "efr"] {
        let op = format!("C13 {} {} {} {} {}", kind, chip, seed, pokes, opargs);
        let a = crate::c13::eval(&op);
        g.sink.case(&op, &a, &format!("127-{}-{}", kind, class), true);
    }
}

/// the operations the SX127x driver shares with `sx127x.c`, compared on their register effect
fn gen127_effect(g: &mut Gen, scale: u64) {
    for chip in CHIPS127 {
        let opmode = |g: &mut Gen| format!("01={:02x}", 0x80 | *g.rng.pick(&[0u64, 1, 3, 5, 6, 7]));
        for opn in ["standby", "sleep 0"] {
            for _ in 0..6 {
                // the reference's set_sleep on a chip that already sleeps rewrites RegOpMode with bit 7
                // clear, which the chip honours in sleep (it would leave LoRa mode): start from an active mode
                let (s, p) = (g.rng.below(100_000), format!("01={:02x}", 0x80 | *g.rng.pick(&[1u64, 3, 5, 6, 7])));
                emit_eff(g, chip, s, &p, opn, opn.split(' ').next().unwrap());
            }
        }
        for (first, step, count) in BANDS {
            let take = (count as u64).min(120 * scale);
            for k in 0..take {
                let idx = if take == count as u64 { k } else { g.rng.below(count as u64) };
                let f = first as u64 + idx * step as u64;
                let (s, p) = (g.rng.below(100_000), opmode(g));
                emit_eff(g, chip, s, &p, &format!("channel {}", f), "channel");
            }
        }
        let mut f = 137_000_000u64;
        while f <= 1_020_000_000 {
            let (s, p) = (g.rng.below(100_000), opmode(g));
            emit_eff(g, chip, s, &p, &format!("channel {}", f), "channel");
            f += 2_000_000 / scale + g.rng.below(997);
        }
        for _ in 0..(40 * scale) {
            let word = (g.rng.below(16) << 12) | (4 << 8) | (g.rng.below(16) << 4) | 4;
            let (s, p) = (g.rng.below(100_000), opmode(g));
            emit_eff(g, chip, s, &p, &format!("syncword {}", word), "syncword");
        }
        for n in 4..=1023u32 {
            if scale == 1 && n % 4 != 0 && n > 300 && n < 1000 {
                continue;
            }
            let (s, p) = (g.rng.below(100_000), opmode(g));
            emit_eff(g, chip, s, &p, &format!("dorx rxs{}", n), "symbol-timeout");
        }
        // packet parameters: all flag combinations x payload lengths, random preambles and prior register contents
        for len in (0..=255u32).step_by(if scale > 1 { 1 } else { 5 }) {
            for flags in 0..8u32 {
                let pre = if g.rng.chance(1, 3) { g.rng.below(65536) } else { *g.rng.pick(&[0u64, 1, 8, 12, 255, 256, 65535]) };
                let (s, p) = (g.rng.below(100_000), opmode(g));
                emit_eff(g, chip, s, &p, &format!("pktparams {} {} {} {} {}", pre, flags & 1, len, (flags >> 1) & 1, (flags >> 2) & 1), "pktparams");
            }
        }
        for mode in ["sleep", "standby", "tx", "rxs8", "rxc", "listen", "cad", "none"] {
            for _ in 0..3 {
                let (s, p) = (g.rng.below(100_000), opmode(g));
                emit_eff(g, chip, s, &p, &format!("irqparams {}", mode), "irqparams");
            }
        }
        // TX power: every level x both outputs x both ramp selections
        for dbm in -128..=127i32 {
            for prep in [0, 1] {
                for f in ["", "/x"] {
                    let c = format!("{}{}", chip, f);
                    let (s, p) = (g.rng.below(100_000), opmode(g));
                    emit_eff(g, &c, s, &p, &format!("txpower {} - {}", dbm, prep), "txpower");
                }
            }
        }
        for n in [0usize, 1, 2, 12, 23, 51, 64, 115, 222, 242, 254, 255] {
            let data = g.rng.bytes(n);
            // an empty payload has no hex token: the op grammar needs one
            if n == 0 {
                continue;
            }
            let (s, p) = (g.rng.below(100_000), format!("01={:02x}", 0x80 | *g.rng.pick(&[1u64, 3, 5, 6, 7])));
            emit_eff(g, chip, s, &p, &format!("payload {}", hex(&data)), "payload");
        }
        for (sf, _) in SFS {
            if sf == 5 {
                continue;
            }
            for (bw, _) in BWS {
                if chip == "1272" && bw < 125000 {
                    continue;
                }
                for (cr, _) in CRS {
                    for ldro in [0, 1] {
                        let (s, p) = (g.rng.below(100_000), opmode(g));
                        emit_eff(g, chip, s, &p, &format!("modparams {} {} {} {} 868100000", sf, bw, cr, ldro), "modparams");
                    }
                }
            }
        }
    }
}

pub fn gen127(g: &mut Gen, scale: u64) {
    gen127_effect(g, scale);
    for chip in CHIPS127 {
        let flagsets = ["", "/b", "/x", "/xb", "/c", "/cxb"];
        for warm in [0, 1] {
            let s = g.rng.below(1000);
            g.emit(chip, s, "-", &format!("sleep {}", warm), "127-sleep", false);
        }
        for opn in ["standby", "dotx", "clearirq", "txcw"] {
            let s = g.rng.below(1000);
            g.emit(chip, s, "-", opn, &format!("127-{}", opn), false);
        }
        // modulation: all SF x BW x CR x LDRO, random prior contents of the RMW registers, errata paths
        for (sf, _) in SFS {
            for (bw, _) in BWS {
                for (cr, _) in CRS {
                    for ldro in [0, 1] {
                        let s = g.rng.below(100_000);
                        let hz = *g.rng.pick(&[868_100_000u32, 433_175_000, 915_000_000, 470_300_000, 169_400_000]);
                        g.emit(chip, s, "-", &format!("modparams {} {} {} {} {}", sf, bw, cr, ldro, hz), "127-modparams", false);
                    }
                }
                // errata 2.1 path: chip version 0x12 detected by init_lora
                for hz in [868_100_000u32, 915_000_000, 433_175_000, 525_000_000, 525_000_001, 862_000_000, 861_999_999, 1_020_000_000, 410_000_000, 409_999_999, 700_000_000] {
                    let s = g.rng.below(100_000);
                    let v = if g.rng.chance(3, 4) { 0x12 } else { g.rng.below(256) };
                    g.emit(chip, s, &format!("42={:02x}", v), &format!("initmod 13380 {} {} 5 0 {}", sf, bw, hz), "127-initmod-errata", false);
                }
            }
        }
        let preambles = [0u32, 1, 8, 12, 255, 256, 65535];
        for len in 0..=255u32 {
            for flags in 0..8u32 {
                let pre = if g.rng.chance(1, 3) { g.rng.below(65536) as u32 } else { *g.rng.pick(&preambles) };
                let s = g.rng.below(100_000);
                g.emit(chip, s, "-", &format!("pktparams {} {} {} {} {}", pre, flags & 1, len, (flags >> 1) & 1, (flags >> 2) & 1), "127-pktparams", false);
            }
        }
        // sync words: legacy-shaped and not
        for _ in 0..(60 * scale) {
            let word = if g.rng.chance(2, 3) { (g.rng.below(16) << 12) | (4 << 8) | (g.rng.below(16) << 4) | 4 } else { g.rng.below(65536) };
            g.emit(chip, 0, "-", &format!("syncword {}", word), "127-syncword", false);
            let c = format!("{}{}", chip, g.rng.pick(&flagsets));
            let s = g.rng.below(1000);
            g.emit(&c, s, "-", &format!("initlora {}", word), "127-initlora", false);
        }
        for (tx, rx) in [(0u32, 0u32), (128, 0), (255, 255), (256, 0), (0, 300)] {
            g.emit(chip, 0, "-", &format!("bufbase {} {}", tx, rx), "127-bufbase", false);
        }
        for n in [0usize, 1, 2, 12, 23, 51, 64, 115, 222, 242, 254, 255] {
            let p = g.rng.bytes(n);
            g.emit(chip, 0, "-", &format!("payload {}", hex(&p)), "127-payload", false);
        }
        // PA: every power level x both outputs x both ramp selections
        for dbm in -128..=127i32 {
            for prep in [0, 1] {
                for f in ["", "/x"] {
                    let c = format!("{}{}", chip, f);
                    g.emit(&c, 0, "-", &format!("txpower {} - {}", dbm, prep), "127-txpower", false);
                }
            }
        }
        for mode in ["sleep", "standby", "tx", "rxs8", "rxc", "listen", "cad", "none", "fs", "rxd1:2"] {
            let s = g.rng.below(100_000);
            g.emit(chip, s, "-", &format!("irqparams {}", mode), "127-irqparams", false);
            if mode != "none" {
                g.emit(chip, 0, "-", &format!("wake {}", mode), "127-wake", false);
            }
        }
        // RX start: all symbol counts up to 1100, then a stride to 65535
        let mut ns: Vec<u32> = (0..=1100).step_by(if scale > 1 { 1 } else { 3 }).collect();
        ns.extend([1022, 1023, 1024, 1025, 4095, 65535]);
        let mut n = 1101u32;
        while n < 65536 {
            ns.push(n);
            n += 1 + g.rng.below(900) as u32;
        }
        for n in ns {
            let c = format!("{}{}", chip, g.rng.pick(&flagsets));
            let s = g.rng.below(100_000);
            g.emit(&c, s, "-", &format!("dorx rxs{}", n), "127-dorx-single", false);
        }
        for f in flagsets {
            let c = format!("{}{}", chip, f);
            let s = g.rng.below(100_000);
            g.emit(&c, s, "-", "dorx rxc", "127-dorx-continuous", false);
            g.emit(&c, s, "-", "dorx rxd5:6", "127-dorx-dutycycle", false);
            g.emit(&c, s, "-", "docad 7", "127-docad", false);
        }
        for (first, step, count) in BANDS {
            let take = (count as u64).min(150 * scale);
            for k in 0..take {
                let idx = if take == count as u64 { k } else { g.rng.below(count as u64) };
                let f = first as u64 + idx * step as u64;
                g.emit(chip, 0, "-", &format!("channel {}", f), "127-channel-band", false);
            }
        }
        let mut f = 137_000_000u64;
        while f <= 1_020_000_000 {
            g.emit(chip, 0, "-", &format!("channel {}", f), "127-channel-stride", false);
            f += 1_000_000 / scale + g.rng.below(997);
        }
        g.emit(chip, 0, "-", "calimg 868100000", "127-calimg", false);
        for (mode, flags) in [("rxs8", 0x40u32), ("rxs8", 0x80), ("rxc", 0x40), ("rxc", 0x60), ("rxs8", 0x10), ("tx", 0x08), ("tx", 0x00), ("cad", 0x04), ("cad", 0x05), ("standby", 0xff), ("rxs8", 0x00), ("rxd1:2", 0x40), ("fs", 0x00)] {
            for clear in [0, 1] {
                g.emit(chip, 0, "-", &format!("irqevent {} {} {} {}", mode, flags, clear, if mode == "cad" { 1 } else { 0 }), "127-irqevent", false);
            }
        }
        for _ in 0..(40 * scale) {
            let (a, b) = (g.rng.below(256), g.rng.below(256));
            let s = g.rng.below(100_000);
            g.emit(chip, s, "-", &format!("pktstatus {} {} 0", a, b), "127-pktstatus", false);
            g.emit(chip, s, "-", &format!("rssi {}", a), "127-rssi", false);
        }
    }
}
