//! Suite C07: frames that are not accepted change nothing (twin runs).
#![allow(dead_code, unused_imports)]
use crate::mac::*;
use crate::macgen::*;
use crate::macsuites::*;
use crate::util::*;

pub fn eval(op: &str) -> String {
    eval_c07(op)
}

pub fn expand(_op: &str) -> Vec<String> {
    vec![]
}

/// generate a history live, then star every frame the device answered with `NoUpdate`
fn starred_history(rng: &mut Rng, region: &str, o: &Opts) -> String {
    let op = gen_history("C07", rng, region, o);
    let outs = run_history(&op);
    let (hd, evs) = split_events(&op);
    let mut line = hd;
    for (i, e) in evs.iter().enumerate() {
        line.push_str(" ; ");
        let is_rx = e.starts_with("rx1") || e.starts_with("rx2") || e.starts_with("rxc");
        // "rejected" is decided from the reference view, never from the implementation's answer:
        // garbage, a data frame whose MIC verifies under no counter, or a JoinAccept with bad MIC
        let rejected_by_view = {
            let w: Vec<&str> = e.split_whitespace().collect();
            is_rx && (w.get(3) == Some(&"g") || (w.get(3) == Some(&"d") && w.get(7) == Some(&"-")))
        };
        let _ = &outs;
        let _ = i;
        if rejected_by_view && !oversize(e) {
            line.push('*');
        }
        line.push_str(e);
    }
    line
}

/// frames longer than the smallest regional limit may legitimately end the receive procedure
fn oversize(e: &str) -> bool {
    let w: Vec<&str> = e.split_whitespace().collect();
    w.get(3) == Some(&"d") && w.get(4).and_then(|x| x.parse::<u32>().ok()).unwrap_or(0) > 19 + 5
}

pub fn run(tier: &str, seed: u64, dir: &str) {
    let mut rng = Rng::new(seed);
    let mut sink = Sink::new(dir);
    let thorough = tier == "thorough";
    let per_region = if thorough { 3000 } else { 170 };
    for region in REGIONS {
        for i in 0..per_region {
            let mut o = Opts::default();
            o.steps = 5 + rng.below(10) as usize;
            o.otaa_pct = 25;
            o.snaps = i % 2 == 0;
            let op = starred_history(&mut rng, region, &o);
            let stars = op.matches("; *").count();
            sink.case(&op, &eval(&op), if stars > 0 { "with-rejected-frames" } else { "no-rejected-frame" }, stars > 0);
        }
        // pending sticky answers + forged frame (the former defect): RXTimingSetupAns must survive
        for k in 0..(if thorough { 60 } else { 8 }) {
            let mut h = Hist::new("C07", region, 20, 0, rng.next() & 0xffff, &[], None);
            h.go_live();
            h.abp().send(1, false, &[1]).rx_auth("rx1", 0, 1, false, &rx_timing_setup_req(3 + k as u8 % 5), None, &[]).snap().send(1, false, &[2]);
            let (b, hint, _) = rejected_frame(&mut rng, &h);
            h.rx_bytes("rx1", 0, &b, hint);
            h.timeout().snap().send(1, false, &[3]).timeout().snap();
            let op = h.done();
            // star the rejected frame if the reference view says so
            let (hd, evs) = split_events(&op);
            let mut line = hd;
            for e in evs {
                line.push_str(" ; ");
                let w: Vec<&str> = e.split_whitespace().collect();
                if (e.starts_with("rx1")) && (w.get(3) == Some(&"g") || (w.get(3) == Some(&"d") && w.get(7) == Some(&"-"))) && !oversize(&e) {
                    line.push('*');
                }
                line.push_str(&e);
            }
            sink.case(&line, &eval(&line), "sticky-answer-vs-forged-frame", true);
        }
    }
    sink.finish(dir, "twin runs: each history is executed twice on the real Mac, once with and once without the frames marked `*` (frames the REFERENCE view rejects: unparseable bytes, data frames whose MIC verifies under no counter incl. bit-flips and other-session frames, wrong-key JoinAccepts; oversized ones are left unstarred); every unstarred event must produce identical output (uplink bytes as decoded, TxConfig, windows, responses, snapshots) and every starred one `NoUpdate`. Non-trivial = histories containing at least one starred frame.", false, serde_json::json!({}));
}
