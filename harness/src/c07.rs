//! Suite C07: frames that are not accepted change nothing (twin runs).
#![allow(dead_code, unused_imports)]
use crate::mac::*;
use crate::macgen::*;
use crate::macsuites::*;
use crate::util::*;

pub fn eval(op: &str) -> String {
    if let Some(r) = crate::adevgen::eval_dev_any(op) {
        return r;
    }
    eval_c07(op)
}

pub fn expand(_op: &str) -> Vec<String> {
    vec![]
}

/// generate a history live, then star every frame the REFERENCE rejects: unparseable bytes, data
/// frames whose MIC verifies under no counter, and — tracking the reference acceptance rule of C05 on
/// the network's side (never the implementation's answers) — authentic frames whose counter is not
/// fresh (replays, stale, far-future)
fn starred_history(rng: &mut Rng, region: &str, o: &Opts) -> String {
    let op = gen_history("C07", rng, region, o);
    star_by_reference(&op)
}

pub fn star_by_reference(op: &str) -> String {
    let (hd, evs) = split_events(op);
    let mut line = hd;
    let mut last: Option<u32> = None;
    let mut joined = false;
    let mut joining = false;
    let mut ambiguous = false;
    for e in evs.iter() {
        line.push_str(" ; ");
        let w: Vec<&str> = e.split_whitespace().collect();
        let mut star = false;
        match w.first().copied() {
            Some("abp") => {
                joined = true;
                last = None;
                ambiguous = false;
            }
            Some("sess") => {
                joined = true;
                last = w.get(3).and_then(|x| x.parse().ok());
                ambiguous = false;
            }
            Some("otaa") => {
                joining = true;
                joined = false;
            }
            Some("rx1") | Some("rx2") | Some("rxc") => {
                match w.get(3).copied() {
                    Some("g") => star = true,
                    Some("j") => {
                        if joining && w.get(4) == Some(&"1") && w[0] != "rxc" {
                            joining = false;
                            joined = true;
                            last = None;
                            ambiguous = false;
                        } else if w.get(4) != Some(&"1") {
                            star = true;
                        }
                    }
                    Some("d") if !oversize(e) => {
                        let f16: u32 = w.get(6).and_then(|x| x.parse().ok()).unwrap_or(0);
                        let mic: Option<u32> = w.get(7).and_then(|x| x.parse().ok());
                        if mic.is_none() {
                            star = true;
                        } else if joined && !ambiguous {
                            let n = mic.unwrap();
                            let fresh = match last {
                                None => n == f16,
                                Some(l) => (l as u64) < n as u64 && n as u64 <= l as u64 + 16384,
                            };
                            if fresh {
                                last = Some(n);
                            } else {
                                star = true;
                            }
                        }
                    }
                    Some("d") => {
                        // too long for the smallest regional limit: whether it fits depends on the
                        // window's data rate, so the reference state becomes unknown from here on
                        if w.get(7).and_then(|x| x.parse::<u32>().ok()).is_some() {
                            ambiguous = true;
                        }
                    }
                    _ => {}
                }
            }
            _ => {}
        }
        if star {
            line.push('*');
        }
        line.push_str(e);
    }
    line
}

/// frames longer than the smallest regional limit may legitimately end the receive procedure
fn oversize(e: &str) -> bool {
    let w: Vec<&str> = e.split_whitespace().collect();
    w.get(3) == Some(&"d") && w.get(4).and_then(|x| x.parse::<u32>().ok()).unwrap_or(0) > 19 + 5
}

pub fn run(tier: &str, seed: u64, dir: &str) {
    let mut rng = Rng::new(seed);
    let mut sink = Sink::new(dir);
    let thorough = tier == "thorough";
    let per_region = if thorough { 3000 } else { 170 };
    for region in REGIONS {
        for i in 0..per_region {
            let mut o = Opts::default();
            o.steps = 5 + rng.below(10) as usize;
            o.otaa_pct = 25;
            o.snaps = i % 2 == 0;
            let op = starred_history(&mut rng, region, &o);
            let stars = op.matches("; *").count();
            sink.case(&op, &eval(&op), if stars > 0 { "with-rejected-frames" } else { "no-rejected-frame" }, stars > 0);
        }
        // pending sticky answers + forged frame (the former defect): RXTimingSetupAns must survive
        for k in 0..(if thorough { 60 } else { 8 }) {
            let mut h = Hist::new("C07", region, 20, 0, rng.next() & 0xffff, &[], None);
            h.go_live();
            h.abp().send(1, false, &[1]).rx_auth("rx1", 0, 1, false, &rx_timing_setup_req(3 + k as u8 % 5), None, &[]).snap().send(1, false, &[2]);
            let (b, hint, _) = rejected_frame(&mut rng, &h);
            h.rx_bytes("rx1", 0, &b, hint);
            h.timeout().snap().send(1, false, &[3]).timeout().snap();
            let op = h.done();
            let line = star_by_reference(&op);
            sink.case(&line, &eval(&line), "sticky-answer-vs-forged-frame", true);
        }
    }
    // builder X — uplink-typed frames of the session (the device's own uplink echoed back octet for octet, and one
    // rebuilt at the next fresh downlink counter) in RX1 / RX2 / RXC: not frames for an end-device, whatever their MIC
    for region in REGIONS {
        for k in 0..(if thorough { 144 } else { 24 }) {
            let op = uplink_echo_history("C07", &mut rng, region, k);
            let line = star_by_reference(&op);
            sink.case(&line, &eval(&line), "uplink-echo", line.contains("; *"));
        }
    }
    // builder Y — downlinks addressed to another DevAddr under the session's own keys at the next fresh counter in
    // RX1 / RX2 / RXC: addressed to someone else, whatever their MIC (starred unless oversized)
    for region in REGIONS {
        for k in 0..(if thorough { 144 } else { 24 }) {
            let op = other_devaddr_history("C07", &mut rng, region, k);
            let line = star_by_reference(&op);
            sink.case(&line, &eval(&line), "other-devaddr", line.contains("; *"));
        }
    }
    // device level: both front-ends with the scripted radio (see adevgen::add_dev_classes)
    crate::adevgen::add_dev_classes("C07", &mut rng, &mut sink, thorough, eval);
    sink.finish(dir, "twin runs: each history is executed twice on the real Mac, once with and once without the frames marked `*` (frames the REFERENCE view rejects: unparseable bytes, data frames whose MIC verifies under no counter incl. bit-flips and other-session frames, downlinks addressed to another DevAddr whatever their MIC (also under the session's own keys at a fresh counter: classes other-devaddr, rej-other-devaddr), wrong-key JoinAccepts; oversized ones are left unstarred); every unstarred event must produce identical output (uplink bytes as decoded, TxConfig, windows, responses, snapshots) and every starred one `NoUpdate`. Non-trivial = histories containing at least one starred frame.", false, serde_json::json!({}));
}
