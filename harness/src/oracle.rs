//! Independent oracles evaluated on the IMPLEMENTATION's own outputs (never on the model's):
//! parsing of the canonical output fields plus the per-property checks.  The rules here are
//! written from the LoRaWAN 1.0.x / RP002 text, not from the code.
#![allow(dead_code)]
use crate::mac::is_fixed;
use crate::macgen::band;
use crate::util::*;

#[derive(Clone, Debug, Default, PartialEq)]
pub struct Chan {
    pub freq: u32,
    pub drr: u8,
    pub dl: Option<u32>,
}

#[derive(Clone, Debug, Default, PartialEq)]
pub struct Snap {
    pub st: u8,
    pub dr: u8,
    pub rx1d: u32,
    pub txp: Option<u8>,
    pub off: u8,
    pub rx2dr: Option<u8>,
    pub rx2f: Option<u32>,
    pub adr: bool,
    pub devaddr: u32,
    pub fcnt_up: u32,
    pub fcnt_down: Option<u32>,
    pub adr_cnt: u32,
    pub confirmed: bool,
    pub pending: Vec<u8>,
    pub ack_owed: bool,
    pub joined: bool,
    pub fixed: bool,
    pub chans: Vec<Option<Chan>>,
    pub mask: Vec<u8>,
    pub jc: String,
}

fn opt<T: std::str::FromStr>(s: &str) -> Option<T> {
    if s == "-" {
        None
    } else {
        s.parse().ok()
    }
}

pub fn parse_snap(s: &str) -> Option<Snap> {
    if !s.starts_with("snap ") {
        return None;
    }
    let mut sn = Snap::default();
    let (head, region) = s.split_once(" region=")?;
    for kv in head.split_whitespace().skip(1) {
        let (k, v) = kv.split_once('=')?;
        match k {
            "st" => sn.st = v.parse().ok()?,
            "dr" => sn.dr = v.parse().ok()?,
            "rx1d" => sn.rx1d = v.parse().ok()?,
            "txp" => sn.txp = opt(v),
            "off" => sn.off = v.parse().ok()?,
            "rx2dr" => sn.rx2dr = opt(v),
            "rx2f" => sn.rx2f = opt(v),
            "adr" => sn.adr = v == "1",
            "sess" => {
                if v != "-" {
                    let f: Vec<&str> = v.trim_matches(|c| c == '(' || c == ')').split(',').collect();
                    if f.len() != 7 {
                        return None;
                    }
                    sn.joined = true;
                    sn.devaddr = f[0].parse().ok()?;
                    sn.fcnt_up = f[1].parse().ok()?;
                    sn.fcnt_down = opt(f[2]);
                    sn.adr_cnt = f[3].parse().ok()?;
                    sn.confirmed = f[4] == "1";
                    sn.pending = unhex(f[5]);
                    sn.ack_owed = f[6] == "1";
                }
            }
            _ => {}
        }
    }
    if let Some(rest) = region.strip_prefix("dyn[") {
        let (chs, tail) = rest.split_once("] mask=")?;
        for c in chs.split_whitespace() {
            if c == "_" {
                sn.chans.push(None);
            } else {
                let f: Vec<&str> = c.split('/').collect();
                sn.chans.push(Some(Chan { freq: f[0].parse().ok()?, drr: f[1].parse().ok()?, dl: opt(f[2]) }));
            }
        }
        sn.mask = unhex(tail.trim());
    } else if let Some(rest) = region.strip_prefix("fix mask=") {
        sn.fixed = true;
        let (m, jc) = rest.split_once(" jc=")?;
        sn.mask = unhex(m);
        sn.jc = jc.to_string();
    } else {
        return None;
    }
    Some(sn)
}

#[derive(Clone, Debug, Default)]
pub struct Rf {
    pub freq: u32,
    pub sf: u32,
    pub bw: u32,
    pub mp: u32,
}

fn parse_rf(s: &str) -> Option<Rf> {
    let f: Vec<&str> = s.split(',').collect();
    if f.len() != 4 {
        return None;
    }
    Some(Rf { freq: f[0].parse().ok()?, sf: f[1].parse().ok()?, bw: f[2].parse().ok()?, mp: f[3].parse().ok()? })
}

#[derive(Clone, Debug, Default)]
pub struct Up {
    pub confirmed: bool,
    pub devaddr: u32,
    pub adr: bool,
    pub adr_ack_req: bool,
    pub ack: bool,
    pub fcnt: u32,
    pub fopts: Vec<u8>,
    pub fport: Option<u8>,
    pub payload: Vec<u8>,
}

#[derive(Clone, Debug, Default)]
pub struct Tx {
    pub rf: Rf,
    pub pw: i32,
    pub rx1: Rf,
    pub rx2: Rf,
    pub up: Option<Up>,
    pub nonce: Option<u32>,
}

/// parse `tx f=… pw=… rx1=… rx2=… up=…` / `join f=… pw=… rx1=… rx2=… nonce=…`
pub fn parse_tx(s: &str) -> Option<Tx> {
    if !(s.starts_with("tx ") || s.starts_with("join ")) {
        return None;
    }
    let mut t = Tx::default();
    for kv in s.split_whitespace().skip(1) {
        let (k, v) = kv.split_once('=')?;
        match k {
            "f" => t.rf = parse_rf(v)?,
            "pw" => t.pw = v.parse().ok()?,
            "rx1" => t.rx1 = parse_rf(v)?,
            "rx2" => t.rx2 = parse_rf(v)?,
            "nonce" => t.nonce = v.parse().ok(),
            "up" => {
                let f: Vec<&str> = v.split(',').collect();
                if f.len() != 9 {
                    return None; // UNPARSEABLE / BADMIC …: caller treats a missing `up` as a failure
                }
                t.up = Some(Up {
                    confirmed: f[0] == "1",
                    devaddr: f[1].parse().ok()?,
                    adr: f[2] == "1",
                    adr_ack_req: f[3] == "1",
                    ack: f[4] == "1",
                    fcnt: f[5].parse().ok()?,
                    fopts: unhex(f[6]),
                    fport: opt(f[7]),
                    payload: unhex(f[8]),
                });
            }
            _ => {}
        }
    }
    Some(t)
}

// ------------------------------------------------------------------------------------ RP002 facts

/// data rates RP002 (1.0.x era) leaves RFU for uplink/RX2 use in the region: commands naming them
/// are unambiguously invalid
pub fn dr_rfu(region: &str, dr: u8) -> bool {
    match region {
        "EU868" | "EU433" | "AS923_1" | "AS923_2" | "AS923_3" | "AS923_4" => (8..=14).contains(&dr),
        "IN865" => dr == 6 || (8..=14).contains(&dr),
        "US915" => (5..=7).contains(&dr) || dr == 14,
        "AU915" => dr == 7 || dr == 14,
        _ => false,
    }
}

/// TXPower indices RP002 leaves RFU
pub fn txpower_rfu(region: &str, p: u8) -> bool {
    match region {
        "EU868" | "AS923_1" | "AS923_2" | "AS923_3" | "AS923_4" => (8..=14).contains(&p),
        "EU433" => (6..=14).contains(&p),
        "IN865" => (11..=14).contains(&p),
        _ => false,
    }
}

pub fn max_eirp(region: &str) -> i32 {
    match region {
        "EU868" | "AS923_1" | "AS923_2" | "AS923_3" | "AS923_4" => 16,
        "EU433" => 12, // RP002: 12.15 dBm; the code uses 16 (not judged here, see power_limit)
        _ => 30,
    }
}

pub fn max_rx1_offset(region: &str) -> u8 {
    match region {
        "US915" => 3,
        "EU868" | "EU433" | "AU915" => 5,
        _ => 7,
    }
}

pub fn num_default_channels(region: &str) -> usize {
    if region.starts_with("AS923") {
        2
    } else {
        3
    }
}

pub fn in_band(region: &str, f: u32) -> bool {
    let (lo, hi) = band(region);
    lo <= f && f <= hi
}

pub fn chmask_cntl_rfu(region: &str, cntl: u8) -> bool {
    if is_fixed(region) {
        false
    } else {
        !(cntl == 0 || cntl == 6)
    }
}

/// downlink MAC command payload lengths (LoRaWAN 1.0.x §5)
pub fn down_len(cid: u8) -> Option<usize> {
    Some(match cid {
        0x02 => 2,
        0x03 => 4,
        0x04 => 1,
        0x05 => 4,
        0x06 => 0,
        0x07 => 5,
        0x08 => 1,
        0x09 => 1,
        0x0a => 4,
        0x0d => 5,
        _ => return None,
    })
}

pub fn up_len(cid: u8) -> Option<usize> {
    Some(match cid {
        0x02 => 0,
        0x03 => 1,
        0x04 => 0,
        0x05 => 1,
        0x06 => 2,
        0x07 => 1,
        0x08 => 0,
        0x09 => 0,
        0x0a => 1,
        0x0d => 0,
        _ => return None,
    })
}

/// split a command stream into whole commands (well-formed prefix) and report whether all bytes were consumed
pub fn split_cmds(bytes: &[u8], len_of: fn(u8) -> Option<usize>) -> (Vec<(u8, Vec<u8>)>, bool) {
    let mut out = vec![];
    let mut i = 0;
    while i < bytes.len() {
        let cid = bytes[i];
        match len_of(cid) {
            Some(n) if i + 1 + n <= bytes.len() => {
                out.push((cid, bytes[i + 1..i + 1 + n].to_vec()));
                i += 1 + n;
            }
            _ => return (out, false),
        }
    }
    (out, true)
}

/// CIDs of the answers the device owes for a request stream, in request order
pub fn expected_answer_cids(region: &str, reqs: &[(u8, Vec<u8>)]) -> Vec<u8> {
    let mut out = vec![];
    for (cid, _) in reqs {
        match cid {
            0x03 | 0x05 | 0x06 | 0x08 => out.push(*cid),
            0x07 | 0x0a if !is_fixed(region) => out.push(*cid),
            _ => {}
        }
    }
    out
}

pub fn is_sticky(cid: u8) -> bool {
    cid == 0x05 || cid == 0x08 || cid == 0x0a
}

pub fn freq_of(p: &[u8]) -> u32 {
    ((p[2] as u32) << 16 | (p[1] as u32) << 8 | p[0] as u32) * 100
}

/// builder J: RP002 default (join) channel frequencies of the dynamic plans — the channels every
/// end-device SHALL implement and on which JoinRequests are sent (EU868 §2.4.2, EU433 §2.7.2,
/// IN865 §2.10.2, AS923 §2.8.2 with the group offsets 0 / −1.80 / −6.60 / −5.90 MHz).  Independent of
/// the repository's `init_channels`; empty for the fixed plans.
pub fn default_join_freqs(region: &str) -> Vec<u32> {
    match region {
        "EU868" => vec![868_100_000, 868_300_000, 868_500_000],
        "EU433" => vec![433_175_000, 433_375_000, 433_575_000],
        "IN865" => vec![865_062_500, 865_402_500, 865_985_000],
        "AS923_1" => vec![923_200_000, 923_400_000],
        "AS923_2" => vec![921_400_000, 921_600_000],
        "AS923_3" => vec![916_600_000, 916_800_000],
        "AS923_4" => vec![917_300_000, 917_500_000],
        _ => vec![],
    }
}
