//! MAC-level history runner over the REAL `Mac` (through the `verif::VerifMac` hook), shared by the
//! suites C04–C12/C20.  Op-line grammar: see lean/Driver/Mac.lean.
#![allow(dead_code)]
use crate::util::*;
use lorawan::creator::{DataFrame, JoinAccept, Payload};
use lorawan::default_crypto::{DefaultCrypto, DefaultNetworkCrypto};
use lorawan::keys::AES128;
use lorawan::parser::{
    CfList, DataFrameType, DecryptedDataPayload, DecryptedJoinAcceptPayload, DevAddr, EncryptedDataPayload, Frequency, FrmPayload, JoinNonce, NetId,
};
use lorawan::types::{ChannelMask, DLSettings};
use lorawan_device::mac::verif::{Snapshot, VResponse, VTx, VerifMac};
use lorawan_device::mac::NetworkCredentials;
use lorawan_device::region::verif::RegionSnapshot;
use lorawan_device::region::{self, Region, Subband};
use lorawan_device::async_device::radio::RfConfig;
use lorawan_device::{AppEui, AppKey, AppSKey, DevEui, NwkSKey};
use std::cell::Cell;
use std::num::NonZeroU8;

pub const NWK_KEY: [u8; 16] = [0x11, 0x22, 0x33, 0x44, 0x55, 0x66, 0x77, 0x88, 0x99, 0xaa, 0xbb, 0xcc, 0xdd, 0xee, 0xff, 0x01];
pub const APP_KEY: [u8; 16] = [0xa1, 0xa2, 0xa3, 0xa4, 0xa5, 0xa6, 0xa7, 0xa8, 0xa9, 0xaa, 0xab, 0xac, 0xad, 0xae, 0xaf, 0xb0];
/// OTAA root key
pub const ROOT_KEY: [u8; 16] = [0x2b, 0x7e, 0x15, 0x16, 0x28, 0xae, 0xd2, 0xa6, 0xab, 0xf7, 0x15, 0x88, 0x09, 0xcf, 0x4f, 0x3c];
/// credential sets an application may join with: (AppEUI, DevEUI, AppKey) as wire bytes; `otaa`
/// uses set 0, `otaa <k>` set k (a corrected key / another network after a failed attempt)
pub const CREDS: [([u8; 8], [u8; 8], [u8; 16]); 3] = [
    ([0x0a; 8], [0x0b; 8], ROOT_KEY),
    ([0x01, 0x02, 0x03, 0x04, 0x05, 0x06, 0x07, 0x08], [0x11, 0x12, 0x13, 0x14, 0x15, 0x16, 0x17, 0x18], [0x5a, 0x69, 0x78, 0x87, 0x96, 0xa5, 0xb4, 0xc3, 0xd2, 0xe1, 0xf0, 0x0f, 0x1e, 0x2d, 0x3c, 0x4b]),
    ([0x0a; 8], [0x21, 0x22, 0x23, 0x24, 0x25, 0x26, 0x27, 0x28], ROOT_KEY),
];
pub const OTHER_KEY: [u8; 16] = [0x5a; 16];
pub const JOIN_NONCE: [u8; 3] = [0x31, 0x32, 0x33];
pub const NET_ID: [u8; 3] = [0x13, 0x00, 0x00];

pub const REGIONS: [&str; 9] = ["AS923_1", "AS923_2", "AS923_3", "AS923_4", "AU915", "EU868", "EU433", "IN865", "US915"];

pub fn region_of(name: &str) -> Option<Region> {
    Some(match name {
        "AS923_1" => Region::AS923_1,
        "AS923_2" => Region::AS923_2,
        "AS923_3" => Region::AS923_3,
        "AS923_4" => Region::AS923_4,
        "AU915" => Region::AU915,
        "EU868" => Region::EU868,
        "EU433" => Region::EU433,
        "IN865" => Region::IN865,
        "US915" => Region::US915,
        _ => return None,
    })
}

pub fn is_fixed(name: &str) -> bool {
    name == "US915" || name == "AU915"
}

thread_local! {
    static HANG: Cell<bool> = Cell::new(false);
}

pub fn reset_hang() {
    HANG.with(|h| h.set(false));
}
pub fn was_hang() -> bool {
    HANG.with(|h| h.get())
}

/// The device's RNG: 64-bit LCG (same as Driver/Mac.lean), optional forced leading draws, and a
/// draw budget per call that turns an RNG-driven endless loop into a detectable "HANG".
pub struct HRng {
    pub forced: Vec<u32>,
    pub x: u64,
    pub budget: u32,
}

impl HRng {
    pub fn new(seed: u64, forced: Vec<u32>) -> Self {
        HRng { forced, x: seed, budget: DRAW_BUDGET }
    }
    pub fn refill(&mut self) {
        self.budget = DRAW_BUDGET;
    }
}

/// Larger than the model's loop fuel (4096): a call that the model finishes always finishes here.
pub const DRAW_BUDGET: u32 = 5000;

impl rand_core::RngCore for HRng {
    fn next_u32(&mut self) -> u32 {
        if self.budget == 0 {
            HANG.with(|h| h.set(true));
            panic!("HANG: RNG draw budget exhausted");
        }
        self.budget -= 1;
        if !self.forced.is_empty() {
            return self.forced.remove(0);
        }
        self.x = self.x.wrapping_mul(6364136223846793005).wrapping_add(1442695040888963407);
        (self.x >> 32) as u32
    }
    fn next_u64(&mut self) -> u64 {
        ((self.next_u32() as u64) << 32) | self.next_u32() as u64
    }
    fn fill_bytes(&mut self, dest: &mut [u8]) {
        for b in dest.iter_mut() {
            *b = self.next_u32() as u8;
        }
    }
    fn try_fill_bytes(&mut self, dest: &mut [u8]) -> Result<(), rand_core::Error> {
        self.fill_bytes(dest);
        Ok(())
    }
}

pub fn show_rf(r: &RfConfig) -> String {
    format!("{},{},{},{}", r.frequency, r.bb.sf.factor(), r.bb.bw.hz(), r.max_payload_len)
}

pub fn show_tx(t: &VTx) -> String {
    format!("f={} pw={} rx1={} rx2={}", show_rf(&t.tx.rf), t.tx.pw, show_rf(&t.rx1), show_rf(&t.rx2))
}

fn b2s(b: bool) -> &'static str {
    if b {
        "1"
    } else {
        "0"
    }
}

fn show_opt<T: std::fmt::Display>(v: Option<T>) -> String {
    match v {
        Some(v) => v.to_string(),
        None => "-".into(),
    }
}

/// Network-side decoding of an uplink the device produced (with the session keys).
pub fn show_uplink(frame: &[u8], nwk: &[u8; 16], app: &[u8; 16], fcnt32: u32) -> String {
    // the network side is the independent reference codec, not the crate's parser
    let r = crate::refcodec::ref_uplink(frame, nwk, app, fcnt32);
    if std::env::var("LV_VIEW_SELFTEST").is_ok() {
        let o = show_uplink_impl(frame, nwk, app, fcnt32);
        if o != r {
            eprintln!("VIEW-MISMATCH uplink {} impl={} ref={}", hex(frame), o, r);
        }
    }
    r
}

/// The same decoding through the crate's own parser (self-test of the reference codec only).
pub fn show_uplink_impl(frame: &[u8], nwk: &[u8; 16], app: &[u8; 16], fcnt32: u32) -> String {
    let mut copy = frame.to_vec();
    let nwk_c = DefaultCrypto::new(&AES128(*nwk));
    let app_c = DefaultCrypto::new(&AES128(*app));
    let enc = match EncryptedDataPayload::parse(&mut copy[..]) {
        Ok(e) => e,
        Err(_) => return "up=UNPARSEABLE".into(),
    };
    if !enc.validate_mic(&nwk_c, fcnt32) {
        return "up=BADMIC".into();
    }
    let conf = enc.is_confirmed();
    let dec = match DecryptedDataPayload::decrypt_in_place(&mut copy[..], Some(&nwk_c), Some(&app_c), fcnt32) {
        Ok(d) => d,
        Err(_) => return "up=UNDECRYPTABLE".into(),
    };
    let fhdr = dec.fhdr();
    let fctrl = fhdr.fctrl();
    let wire = fhdr.fcnt() as u32;
    if wire != (fcnt32 & 0xffff) {
        return "up=FCNT16MISMATCH".into();
    }
    let payload: Vec<u8> = match dec.frm_payload() {
        FrmPayload::Data(d) => d.to_vec(),
        FrmPayload::MacCommands(m) => m.to_vec(),
        FrmPayload::None => vec![],
    };
    format!(
        "up={},{},{},{},{},{},{},{},{}",
        b2s(conf),
        fhdr.dev_addr().value(),
        b2s(fctrl.adr()),
        b2s(fctrl.adr_ack_req()),
        b2s(fctrl.ack()),
        fcnt32,
        hex(fhdr.f_opts()),
        show_opt(dec.f_port()),
        hex(&payload)
    )
}

pub fn show_resp(r: VResponse) -> String {
    match r {
        VResponse::NoAck => "NoAck".into(),
        VResponse::SessionExpired => "SessionExpired".into(),
        VResponse::DownlinkReceived(f) => format!("DownlinkReceived({})", f),
        VResponse::NoJoinAccept => "NoJoinAccept".into(),
        VResponse::JoinSuccess => "JoinSuccess".into(),
        VResponse::NoUpdate => "NoUpdate".into(),
        VResponse::RxComplete => "RxComplete".into(),
        VResponse::Other => "Other".into(),
    }
}

pub fn show_region(r: &RegionSnapshot) -> String {
    match r {
        RegionSnapshot::Dynamic { channels, mask } => {
            let chans: Vec<String> = channels
                .iter()
                .map(|c| match c {
                    None => "_".to_string(),
                    Some(c) => format!("{}/{}/{}", c.frequency, c.datarates, show_opt(c.dl_frequency)),
                })
                .collect();
            format!("dyn[{}] mask={}", chans.join(" "), hex(mask))
        }
        RegionSnapshot::Fixed { mask, join_channels: j } => format!(
            "fix mask={} jc={},{},{},{},{},{}",
            hex(mask),
            j.max_retries,
            j.num_retries,
            show_opt(j.preferred_subband),
            hex(&j.available),
            show_opt(j.available_previous),
            j.previous_channel
        ),
    }
}

pub fn show_snap(s: &Snapshot) -> String {
    let sess = match &s.session {
        Some(x) => format!(
            "({},{},{},{},{},{},{})",
            u32::from_le_bytes(x.devaddr),
            x.fcnt_up,
            show_opt(x.fcnt_down),
            x.adr_ack_cnt,
            b2s(x.confirmed),
            hex(&x.pending),
            b2s(x.ack_owed)
        ),
        None => "-".into(),
    };
    format!(
        "snap st={} dr={} rx1d={} txp={} off={} rx2dr={} rx2f={} adr={} sess={} region={}",
        s.state,
        s.data_rate,
        s.rx1_delay,
        show_opt(s.tx_power),
        s.rx1_dr_offset,
        show_opt(s.rx2_data_rate),
        show_opt(s.rx2_frequency),
        b2s(s.adr_enabled),
        sess,
        show_region(&s.region)
    )
}

// ------------------------------------------------------------------------------------ network side

#[derive(Clone, Debug)]
pub struct DownDesc {
    pub confirmed: bool,
    pub devaddr: u32,
    pub fcnt: u32,
    pub fopts: Vec<u8>,
    pub fport: Option<u8>,
    pub payload: Vec<u8>,
    pub ack: bool,
    pub fpending: bool,
    pub adr: bool,
    pub nwk: [u8; 16],
    pub app: [u8; 16],
    /// build with an uplink MHDR instead (Dir = 0 in MIC and keystream): the parser accepts those as
    /// data frames, an end-device must ignore them — the reference view of such a frame is `g`
    pub uplink_type: bool,
}

impl DownDesc {
    pub fn new(devaddr: u32, fcnt: u32) -> Self {
        DownDesc { confirmed: false, devaddr, fcnt, fopts: vec![], fport: None, payload: vec![], ack: false, fpending: false, adr: false, nwk: NWK_KEY, app: APP_KEY, uplink_type: false }
    }
    /// the frame as the independent reference encoder builds it (the network server of the
    /// harness shares no code with the device's stack)
    pub fn build(&self) -> Option<Vec<u8>> {
        let mtype = match (self.uplink_type, self.confirmed) {
            (false, false) => 3u8,
            (false, true) => 5,
            (true, false) => 2,
            (true, true) => 4,
        };
        let fctrl = (self.adr as u8) << 7 | (self.ack as u8) << 5 | (self.fpending as u8) << 4;
        let r = crate::refcodec::build_data(mtype, self.devaddr, fctrl, self.fcnt, &self.fopts, self.fport, &self.payload, &self.nwk, &self.app);
        if std::env::var("LV_VIEW_SELFTEST").is_ok() {
            let o = self.build_impl();
            if o != r {
                eprintln!("VIEW-MISMATCH build {:?} impl={:?} ref={:?}", self, o.map(|b| hex(&b)), r.as_ref().map(|b| hex(b)));
            }
        }
        r
    }
    /// the same frame through the crate's own creator (self-test of the reference encoder only)
    pub fn build_impl(&self) -> Option<Vec<u8>> {
        let mut buf = [0u8; 300];
        let nwk = DefaultCrypto::new(&AES128(self.nwk));
        let app = DefaultCrypto::new(&AES128(self.app));
        let payload = match self.fport {
            None => Payload::None,
            Some(0) => Payload::MacCommands(&self.payload),
            Some(p) => Payload::Data { f_port: NonZeroU8::new(p).unwrap(), data: &self.payload },
        };
        let frame = DataFrame {
            frame_type: match (self.uplink_type, self.confirmed) {
                (false, false) => DataFrameType::UnconfirmedDown,
                (false, true) => DataFrameType::ConfirmedDown,
                (true, false) => DataFrameType::UnconfirmedUp,
                (true, true) => DataFrameType::ConfirmedUp,
            },
            dev_addr: DevAddr::from_value(self.devaddr),
            adr: self.adr,
            adr_ack_req: false,
            ack: self.ack,
            f_pending: self.fpending,
            fcnt: self.fcnt,
            f_opts: &self.fopts,
            payload,
        };
        frame.build_into(&mut buf, &nwk, Some(&app)).ok().map(|b| b.to_vec())
    }
}

#[derive(Clone, Debug)]
pub enum CfDesc {
    None,
    Dynamic([u32; 5]),
    Fixed([u8; 9]),
    /// RFU CFList type octet with arbitrary content
    Rfu(u8, [u8; 15]),
}

/// 16 CFList octets of a description (type octet last)
fn cflist_bytes(cf: &CfDesc) -> Option<[u8; 16]> {
    let mut c = [0u8; 16];
    match cf {
        CfDesc::None => return None,
        CfDesc::Dynamic(f) => {
            for i in 0..5 {
                let v = f[i] / 100;
                c[3 * i..3 * i + 3].copy_from_slice(&[v as u8, (v >> 8) as u8, (v >> 16) as u8]);
            }
        }
        CfDesc::Fixed(m) => {
            c[..9].copy_from_slice(m);
            c[15] = 1;
        }
        CfDesc::Rfu(ty, content) => {
            c[..15].copy_from_slice(content);
            c[15] = *ty;
        }
    }
    Some(c)
}

/// The JoinAccept as the independent reference encoder builds it (the harness's join server shares
/// no code with the device's stack).
pub fn build_join_accept(key: &[u8; 16], devaddr: u32, dl_settings: u8, rx_delay: u8, cf: &CfDesc) -> Vec<u8> {
    let r = crate::refcodec::build_join_accept(key, 0x20, &JOIN_NONCE, &NET_ID, devaddr, dl_settings, rx_delay, cflist_bytes(cf));
    if std::env::var("LV_VIEW_SELFTEST").is_ok() {
        let o = build_join_accept_impl(key, devaddr, dl_settings, rx_delay, cf);
        if o != r {
            eprintln!("VIEW-MISMATCH joinaccept impl={} ref={}", hex(&o), hex(&r));
        }
    }
    r
}

/// the same JoinAccept through the crate's own creator (self-test of the reference encoder only)
pub fn build_join_accept_impl(key: &[u8; 16], devaddr: u32, dl_settings: u8, rx_delay: u8, cf: &CfDesc) -> Vec<u8> {
    let mut buf = [0u8; 64];
    let crypto = DefaultNetworkCrypto::new(&AES128(*key));
    let c_f_list = match cf {
        CfDesc::None => None,
        CfDesc::Dynamic(f) => {
            let mut freqs = [Frequency::default(); 5];
            for i in 0..5 {
                let v = f[i] / 100;
                freqs[i] = Frequency::from_wire_bytes([v as u8, (v >> 8) as u8, (v >> 16) as u8]);
            }
            Some(CfList::DynamicChannel(freqs))
        }
        CfDesc::Fixed(m) => Some(CfList::FixedChannel(ChannelMask::<9>::new_from_raw(m))),
        CfDesc::Rfu(_, _) => Some(CfList::FixedChannel(ChannelMask::<9>::new_from_raw(&[0u8; 9]))),
    };
    let accept = JoinAccept {
        join_nonce: JoinNonce::from_wire_bytes(JOIN_NONCE),
        net_id: NetId::from_wire_bytes(NET_ID),
        dev_addr: DevAddr::from_value(devaddr),
        dl_settings: DLSettings::new(dl_settings),
        rx_delay,
        c_f_list,
    };
    if let CfDesc::Rfu(ty, content) = cf {
        // hand-assemble: the creator only knows CFList types 0 and 1
        return build_join_accept_raw(key, devaddr, dl_settings, rx_delay, Some((*ty, *content)));
    }
    accept.build_into(&mut buf, &crypto).unwrap().to_vec()
}

/// JoinAccept assembled by hand (MIC via the crate's CMAC wrapper, encryption by AES-decrypt).
pub fn build_join_accept_raw(key: &[u8; 16], devaddr: u32, dl_settings: u8, rx_delay: u8, cf: Option<(u8, [u8; 15])>) -> Vec<u8> {
    build_join_accept_mhdr(key, 0x20, devaddr, dl_settings, rx_delay, cf)
}

/// As above with an arbitrary MHDR octet (the MIC covers it): a server speaking another major
/// version, or a frame of another type that happens to verify.
pub fn build_join_accept_mhdr(key: &[u8; 16], mhdr: u8, devaddr: u32, dl_settings: u8, rx_delay: u8, cf: Option<(u8, [u8; 15])>) -> Vec<u8> {
    let c = cf.map(|(ty, content)| {
        let mut c = [0u8; 16];
        c[..15].copy_from_slice(&content);
        c[15] = ty;
        c
    });
    crate::refcodec::build_join_accept(key, mhdr, &JOIN_NONCE, &NET_ID, devaddr, dl_settings, rx_delay, c)
}

/// The decoded view of a received byte string, as the model consumes it (grammar in Driver/Mac.lean).
/// `mic_hint`: the counter the frame was built with, if the caller knows it.
/// builder Y — `own`: the DevAddr of the receiving device's session (`None` = not looked at).
pub fn view_of(bytes: &[u8], own: Option<u32>, nwk: &[u8; 16], app: &[u8; 16], root: &[u8; 16], mic_hint: Option<u32>) -> String {
    let r = crate::refcodec::ref_view(bytes, own, nwk, app, root, mic_hint);
    if std::env::var("LV_VIEW_SELFTEST").is_ok() {
        let o = view_of_impl(bytes, own, nwk, app, root, mic_hint);
        if o != r {
            eprintln!("VIEW-MISMATCH {} impl={} ref={}", hex(bytes), o, r);
        }
    }
    r
}

/// The same view computed with the crate's own parser (self-test of the reference decoder only).
pub fn view_of_impl(bytes: &[u8], own: Option<u32>, nwk: &[u8; 16], app: &[u8; 16], root: &[u8; 16], mic_hint: Option<u32>) -> String {
    let mut copy = bytes.to_vec();
    if let Ok(enc) = EncryptedDataPayload::parse(&mut copy[..]) {
        if enc.is_uplink() {
            // an uplink-typed frame is not a frame for an end-device
            return "g".into();
        }
        let nwk_c = DefaultCrypto::new(&AES128(*nwk));
        let app_c = DefaultCrypto::new(&AES128(*app));
        let len = bytes.len();
        let conf = enc.is_confirmed();
        let f16 = enc.fhdr().fcnt();
        let mine = own.map_or(true, |a| enc.fhdr().dev_addr() == DevAddr::from_value(a));
        let mic = match mic_hint {
            Some(n) if mine && enc.validate_mic(&nwk_c, n) => Some(n),
            _ => None,
        };
        return match mic {
            Some(n) => {
                let dec = DecryptedDataPayload::decrypt_in_place(&mut copy[..], Some(&nwk_c), Some(&app_c), n).unwrap();
                let payload: Vec<u8> = match dec.frm_payload() {
                    FrmPayload::Data(d) => d.to_vec(),
                    FrmPayload::MacCommands(m) => m.to_vec(),
                    FrmPayload::None => vec![],
                };
                format!("d {} {} {} {} {} {} {}", len, b2s(conf), f16, n, hex(dec.fhdr().f_opts()), show_opt(dec.f_port()), hex(&payload))
            }
            None => format!("d {} {} {} - - - -", len, b2s(conf), f16),
        };
    }
    let mut copy = bytes.to_vec();
    let root_c = DefaultCrypto::new(&AES128(*root));
    if let Ok(dec) = DecryptedJoinAcceptPayload::check_mic_and_decrypt_in_place(&mut copy[..], &root_c) {
        let cf = match dec.c_f_list() {
            None => "-".to_string(),
            Some(CfList::DynamicChannel(f)) => format!("d:{}", f.iter().map(|x| x.hz().to_string()).collect::<Vec<_>>().join(",")),
            Some(CfList::FixedChannel(m)) => format!("f:{}", hex(m.as_ref())),
        };
        return format!("j 1 {} {} {} {}", dec.dev_addr().value(), dec.dl_settings().raw_value(), dec.rx_delay(), cf);
    }
    "g".into()
}

// ------------------------------------------------------------------------------------ the runner

pub struct Runner {
    pub mac: VerifMac,
    pub rng: HRng,
    pub last_tx: Option<VTx>,
    pub nwk: [u8; 16],
    pub app: [u8; 16],
    pub region_name: String,
    pub otaa_nonce: Option<u16>,
    /// credential set of the join attempt in progress / of the session
    pub cred: usize,
}

fn parse_header(hd: &str) -> Option<Runner> {
    let w: Vec<&str> = hd.split_whitespace().collect();
    // <suite> mac <region> <maxPower> <gain> <seed> <forced|-> <bias|->
    if w.len() != 8 || w[1] != "mac" {
        return None;
    }
    let reg = region_of(w[2])?;
    let max_power: u8 = w[3].parse().ok()?;
    let gain: i8 = w[4].parse().ok()?;
    let seed: u64 = w[5].parse().ok()?;
    let forced: Vec<u32> = if w[6] == "-" { vec![] } else { w[6].split(',').map(|x| x.parse().ok()).collect::<Option<Vec<u32>>>()? };
    let conf: region::Configuration = if w[7] == "-" {
        region::Configuration::new(reg)
    } else {
        let (sb, n) = w[7].split_once(':')?;
        let sb = match sb {
            "1" => Subband::_1,
            "2" => Subband::_2,
            "3" => Subband::_3,
            "4" => Subband::_4,
            "5" => Subband::_5,
            "6" => Subband::_6,
            "7" => Subband::_7,
            "8" => Subband::_8,
            _ => return None,
        };
        let n: usize = n.parse().ok()?;
        match reg {
            Region::US915 => {
                let mut r = region::US915::new();
                r.set_join_bias_and_noncompliant_retries(sb, n);
                r.into()
            }
            Region::AU915 => {
                let mut r = region::AU915::new();
                r.set_join_bias_and_noncompliant_retries(sb, n);
                r.into()
            }
            _ => return None,
        }
    };
    Some(Runner { mac: VerifMac::new(conf, max_power, gain), rng: HRng::new(seed, forced), last_tx: None, nwk: NWK_KEY, app: APP_KEY, region_name: w[2].to_string(), otaa_nonce: None, cred: 0 })
}

pub fn parse_header_pub(hd: &str) -> Option<Runner> {
    parse_header(hd)
}

fn dr_of(n: u8) -> lorawan_device::region::DR {
    lorawan_device::region::DR::from(n)
}

impl Runner {
    /// one event → output field, or None for a malformed event
    pub fn step(&mut self, ev: &str) -> Option<String> {
        let w: Vec<&str> = ev.split_whitespace().collect();
        self.rng.refill();
        match w.as_slice() {
            ["abp", da] => {
                let da: u32 = da.parse().ok()?;
                self.nwk = NWK_KEY;
                self.app = APP_KEY;
                self.mac.join_abp(NwkSKey::from(NWK_KEY), AppSKey::from(APP_KEY), DevAddr::from_value(da));
                Some("ok".into())
            }
            ["sess", da, up, down, cnt, conf, pend, ack] => {
                // a session in an arbitrary reachable state, restored through the crate's serde support
                let da: u32 = da.parse().ok()?;
                let up: u32 = up.parse().ok()?;
                let down: Option<u32> = if *down == "-" { None } else { Some(down.parse().ok()?) };
                let cnt: u32 = cnt.parse().ok()?;
                let pend = unhex(pend);
                let mut pending15 = vec![0u8; 15];
                pending15[..pend.len().min(15)].copy_from_slice(&pend[..pend.len().min(15)]);
                let base = lorawan_device::mac::Session::new(NwkSKey::from(NWK_KEY), AppSKey::from(APP_KEY), DevAddr::from_value(da));
                let mut j = serde_json::to_value(&base).unwrap();
                j["fcnt_up"] = serde_json::json!(up);
                j["fcnt_down"] = serde_json::json!(down);
                j["adr_ack_cnt"] = serde_json::json!(cnt);
                j["confirmed"] = serde_json::json!(*conf == "1");
                j["uplink"]["confirmed"] = serde_json::json!(*ack == "1");
                j["uplink"]["pending_len"] = serde_json::json!(pend.len());
                j["uplink"]["pending_data"] = serde_json::json!(pending15);
                match serde_json::from_value::<lorawan_device::mac::Session>(j) {
                    Ok(s) => {
                        self.nwk = NWK_KEY;
                        self.app = APP_KEY;
                        self.mac.set_session(s);
                        Some("ok".into())
                    }
                    Err(e) => Some(format!("bad-session:{}", e)),
                }
            }
            ["otaa"] | ["otaa", _] => {
                let k: usize = w.get(1).and_then(|x| x.parse().ok()).unwrap_or(0);
                let (aeui, deui, key) = *CREDS.get(k)?;
                self.cred = k;
                let creds = NetworkCredentials::new(AppEui::from(aeui), DevEui::from(deui), AppKey::from(key));
                let (tx, nonce) = self.mac.join_otaa(&mut self.rng, creds);
                self.otaa_nonce = Some(nonce);
                let s = format!("join {} nonce={} jr={}", show_tx(&tx), nonce, check_join_request(&tx.frame, nonce, k));
                self.last_tx = Some(tx);
                Some(s)
            }
            ["send", port, conf, data] => {
                let port: u8 = port.parse().ok()?;
                let data = unhex(data);
                match self.mac.send(&mut self.rng, &data, port, *conf == "1") {
                    Ok((tx, fcnt)) => {
                        let s = format!("tx {} {}", show_tx(&tx), show_uplink(&tx.frame, &self.nwk, &self.app, fcnt));
                        self.last_tx = Some(tx);
                        Some(s)
                    }
                    Err(()) => Some("notjoined".into()),
                }
            }
            [w0 @ ("rx1" | "rx2" | "rxc"), snr, hexb, ..] => {
                let snr: i8 = snr.parse().ok()?;
                let bytes = unhex(hexb);
                let rf: RfConfig = match *w0 {
                    "rxc" => self.mac.get_rxc_config().rf,
                    "rx1" => match &self.last_tx {
                        Some(t) => t.rx1,
                        None => fallback_rf(),
                    },
                    _ => match &self.last_tx {
                        Some(t) => t.rx2,
                        None => fallback_rf(),
                    },
                };
                let was_otaa = self.mac.snapshot().state == 1;
                let resp = if *w0 == "rxc" {
                    match self.mac.handle_rxc(&bytes, snr, &rf) {
                        Ok(r) => show_resp(r),
                        Err(()) => "NotJoined".into(),
                    }
                } else {
                    let (r, _buf) = self.mac.handle_rx(&bytes, snr, &rf);
                    show_resp(r)
                };
                let mut keys = String::new();
                if was_otaa && resp == "JoinSuccess" {
                    // the session keys now in force are whatever the device derived
                    let s = self.mac.snapshot().session.unwrap();
                    self.nwk = s.nwkskey;
                    self.app = s.appskey;
                    let n = self.otaa_nonce.unwrap_or(0);
                    let ok = s.nwkskey == derive_key(0x01, n, self.cred) && s.appskey == derive_key(0x02, n, self.cred);
                    keys = format!(" keys={}", if ok { "ok" } else { "BAD" });
                }
                let dl = match self.mac.take_downlink() {
                    Some(d) => format!("{}:{}", d.fport, hex(&d.data)),
                    None => "-".into(),
                };
                Some(format!("resp={} dl={}{}", resp, dl, keys))
            }
            ["timeout"] => Some(format!("resp={}", show_resp(self.mac.rx2_complete()))),
            ["adr", b] => {
                self.mac.set_adr(*b == "1");
                Some("ok".into())
            }
            ["dr", n] => {
                self.mac.set_datarate(dr_of(n.parse().ok()?));
                Some("ok".into())
            }
            ["snap"] => Some(show_snap(&self.mac.snapshot())),
            ["delays"] => Some(format!(
                "d={},{},{},{}",
                self.mac.get_rx_delay(false, false),
                self.mac.get_rx_delay(false, true),
                self.mac.get_rx_delay(true, false),
                self.mac.get_rx_delay(true, true)
            )),
            ["persist"] => {
                // serialise the session, drop it, restore it from the document
                match self.mac.get_session() {
                    None => Some("persist=nosession".into()),
                    Some(sess) => {
                        let before = self.mac.snapshot();
                        let doc = serde_json::to_string(sess).unwrap();
                        match serde_json::from_str::<lorawan_device::mac::Session>(&doc) {
                            Ok(restored) => {
                                self.mac.set_session(restored);
                                let after = self.mac.snapshot();
                                Some(format!("persist=ok eq={}", b2s(before == after)))
                            }
                            Err(_) => Some("persist=ERR eq=0".into()),
                        }
                    }
                }
            }
            _ => None,
        }
    }
}

/// JoinRequest layout per LoRaWAN 1.0.x §6.2.4, checked without the repository's parser:
/// MHDR 0x00 | AppEUI (LE) | DevEUI (LE) | DevNonce (LE) | MIC = CMAC(AppKey, MHDR..DevNonce)[0..4]
pub fn check_join_request(frame: &[u8], nonce: u16, cred: usize) -> String {
    let (aeui, deui, key) = CREDS[cred];
    if frame.len() != 23 {
        return format!("BAD:len{}", frame.len());
    }
    if frame[0] != 0x00 {
        return "BAD:mhdr".into();
    }
    // the identifiers are given as wire bytes (LoRaWAN sends them least significant octet first)
    if frame[1..9] != aeui || frame[9..17] != deui {
        return "BAD:euis".into();
    }
    if frame[17..19] != nonce.to_le_bytes() {
        return "BAD:nonce".into();
    }
    // CMAC straight from the primitive (refcodec), not through the crate's crypto wrappers
    let mic = crate::refcodec::cmac4(&key, &frame[..19]);
    if frame[19..23] != mic {
        return "BAD:mic".into();
    }
    "ok".into()
}

/// LoRaWAN 1.0.x §6.2.5 session key derivation, straight from the formula:
/// key = aes128_encrypt(AppKey, tag | JoinNonce | NetID | DevNonce | pad16)
pub fn derive_key(tag: u8, nonce: u16, cred: usize) -> [u8; 16] {
    let mut b = [0u8; 16];
    b[0] = tag;
    b[1..4].copy_from_slice(&JOIN_NONCE);
    b[4..7].copy_from_slice(&NET_ID);
    b[7..9].copy_from_slice(&nonce.to_le_bytes());
    crate::refcodec::aes_enc(&CREDS[cred].2, &b)
}

fn fallback_rf() -> RfConfig {
    RfConfig {
        frequency: 0,
        bb: lora_modulation::BaseBandModulationParams::new(lora_modulation::SpreadingFactor::_7, lora_modulation::Bandwidth::_125KHz, lora_modulation::CodingRate::_4_5),
        max_payload_len: 255,
    }
}

/// Run a whole history op line against the real MAC. Returns the per-event outputs.
pub fn run_history(op: &str) -> Vec<String> {
    let mut segs = op.split(';');
    let hd = segs.next().unwrap_or("");
    let evs: Vec<String> = segs.map(|s| s.trim().to_string()).collect();
    let runner = match parse_header(hd) {
        Some(r) => r,
        None => return vec!["bad-op".into()],
    };
    let mut out: Vec<String> = vec![];
    let mut runner = std::panic::AssertUnwindSafe(runner);
    for ev in evs {
        HANG.with(|h| h.set(false));
        let r = std::panic::catch_unwind(std::panic::AssertUnwindSafe(|| runner.step(&ev)));
        match r {
            Ok(Some(s)) => out.push(s),
            Ok(None) => {
                out.push("bad-op".into());
                break;
            }
            Err(_) => {
                out.push(if HANG.with(|h| h.get()) { "HANG".into() } else { "PANIC".into() });
                break;
            }
        }
    }
    out
}

pub fn eval(op: &str) -> String {
    run_history(op).join(" ; ")
}
