//! Oracles and generators of the MAC-level suites C05, C06, C07, C09, C10, C11, C12, C20.
//! Every oracle looks only at the op line (what the harness sent) and at the IMPLEMENTATION's
//! outputs; the rules are written from the LoRaWAN 1.0.x / RP002 text.
#![allow(dead_code, unused_imports)]
use crate::mac::*;
use crate::macgen::*;
use crate::oracle::*;
use crate::util::*;

pub fn split_events(op: &str) -> (String, Vec<String>) {
    let mut it = op.split(';').map(|s| s.trim().to_string());
    let hd = it.next().unwrap_or_default();
    (hd, it.collect())
}

fn header_fields(hd: &str) -> (String, i32, i32) {
    let w: Vec<&str> = hd.split_whitespace().collect();
    (w.get(2).unwrap_or(&"").to_string(), w.get(3).and_then(|x| x.parse().ok()).unwrap_or(0), w.get(4).and_then(|x| x.parse().ok()).unwrap_or(0))
}

fn faults(outs: &[String]) -> Option<String> {
    for o in outs {
        if o == "PANIC" || o == "HANG" {
            return Some(format!("FAIL:{}", o));
        }
    }
    None
}

// ------------------------------------------------------------------------------------------ C05

/// A downlink is acted upon iff it fits the window's size limit and its MIC verifies for the unique
/// N with N ≡ wire (mod 2^16), last < N <= last + 16384 (any N < 2^16 for the first); then N is remembered.
pub fn oracle_c05(op: &str, outs: &[String]) -> String {
    if let Some(f) = faults(outs) {
        return f;
    }
    let (hd, evs) = split_events(op);
    let region = hd.split_whitespace().nth(2).unwrap_or("");
    let mut last: Option<u32> = None;
    let mut last_known = true;
    let mut joined = false;
    let mut win: Option<(Option<u32>, Option<u32>)> = None;
    let mut accepted: Vec<u32> = vec![];
    for (ev, out) in evs.iter().zip(outs.iter()) {
        let w: Vec<&str> = ev.split_whitespace().collect();
        match w[0] {
            "abp" => {
                joined = true;
                last = None;
                last_known = true;
                accepted.clear();
            }
            "sess" => {
                joined = true;
                last = w[3].parse().ok();
                last_known = true;
                accepted.clear();
            }
            "otaa" => {
                joined = false;
            }
            "send" => {
                if let Some(tx) = parse_tx(out) {
                    // the limit is the REFERENCE maximum of the data rate each window was opened at
                    // (never the number the implementation attached to the window)
                    let m = |r: &crate::oracle::Rf| ref_max_m(region, r.sf, r.bw);
                    win = Some((m(&tx.rx1), m(&tx.rx2)));
                }
            }
            "rx1" | "rx2" | "rxc" => {
                if out.contains("resp=JoinSuccess") {
                    joined = true;
                    last = None;
                    last_known = true;
                    accepted.clear();
                    continue;
                }
                if !joined {
                    continue;
                }
                let acc = out.starts_with("resp=DownlinkReceived(") || out.starts_with("resp=SessionExpired");
                match w[3] {
                    "d" => {
                        let len: u32 = w[4].parse().unwrap_or(0);
                        let f16: u32 = w[6].parse().unwrap_or(0);
                        let mic: Option<u32> = w[7].parse().ok();
                        let mp = match (w[0], win) {
                            ("rx1", Some((a, _))) => a,
                            ("rx2", Some((_, b))) => b,
                            _ => None,
                        };
                        let fits = match mp {
                            Some(mp) => Some(len <= mp + 5),
                            None => {
                                if len <= 19 + 5 {
                                    Some(true)
                                } else if len > 250 + 5 {
                                    Some(false)
                                } else {
                                    None
                                }
                            }
                        };
                        let fresh = match (mic, last) {
                            (Some(n), None) => n == f16,
                            (Some(n), Some(l)) => n % 65536 == f16 && (l as u64) < n as u64 && n as u64 <= l as u64 + 16384,
                            (None, _) => false,
                        };
                        // `SessionExpired` is reported both for an accepted frame at the end of the
                        // counter space and for a procedure an oversized frame ended there: it does not
                        // tell the two apart, so such an event is not judged (the counter bookkeeping below
                        // follows the reference rule)
                        let expired = out.starts_with("resp=SessionExpired");
                        if expired && fits.is_none() {
                            // cannot tell whether this frame was accepted: the reference counter is
                            // unknown until the device reports the next accepted counter
                            last_known = false;
                        }
                        if let (Some(fits), false, true) = (fits, expired, last_known) {
                            let expect = fits && fresh;
                            if acc != expect {
                                return format!("FAIL:frame-fcnt16={}-mic={:?}-last={:?}-fits={} was-{}accepted", f16, mic, last, fits, if acc { "" } else { "not-" });
                            }
                        }
                        if out.starts_with("resp=DownlinkReceived(") {
                            let n: u32 = out["resp=DownlinkReceived(".len()..].split(')').next().unwrap().parse().unwrap_or(0);
                            if Some(n) != mic {
                                return format!("FAIL:accepted-with-counter-{}-but-mic-verifies-for-{:?}", n, mic);
                            }
                            if accepted.contains(&n) {
                                return format!("FAIL:counter-{}-accepted-twice", n);
                            }
                            accepted.push(n);
                            last_known = true;
                            // the payload handed to the application is the one decrypted with N
                            let port = w[9];
                            let dl = out.split("dl=").nth(1).unwrap_or("").split_whitespace().next().unwrap_or("");
                            if port != "-" && port != "0" {
                                let exp = format!("{}:{}", port, w[10]);
                                if dl != exp {
                                    return format!("FAIL:delivered-{}-expected-{}", dl, exp);
                                }
                            } else if dl != "-" {
                                return "FAIL:delivered-a-payload-without-application-port".into();
                            }
                        }
                        if acc && !(expired && !(fits == Some(true) && fresh)) {
                            if let Some(n) = mic {
                                last = Some(n);
                            }
                        }
                    }
                    _ => {
                        if acc {
                            return "FAIL:accepted-a-frame-that-is-not-a-data-frame".into();
                        }
                    }
                }
            }
            _ => {}
        }
    }
    "ok".into()
}

// ------------------------------------------------------------------------------------------ C06

pub fn oracle_c06(op: &str, outs: &[String]) -> String {
    if let Some(f) = faults(outs) {
        return f;
    }
    let (_, evs) = split_events(op);
    let mut last_fcnt: Option<u32> = None;
    let mut expired = false;
    for (ev, out) in evs.iter().zip(outs.iter()) {
        let w0 = ev.split_whitespace().next().unwrap_or("");
        if w0 == "abp" || w0 == "sess" || out.contains("resp=JoinSuccess") {
            last_fcnt = None;
            expired = false;
        }
        if out.contains("resp=SessionExpired") {
            expired = true;
        }
        if w0 == "send" {
            if let Some(tx) = parse_tx(out) {
                let up = match tx.up {
                    Some(u) => u,
                    None => return "FAIL:uplink-not-authentic-under-the-full-counter".into(),
                };
                if !expired {
                    if let Some(l) = last_fcnt {
                        if up.fcnt <= l {
                            return format!("FAIL:uplink-counter-{}-after-{}", up.fcnt, l);
                        }
                    }
                }
                last_fcnt = Some(up.fcnt);
            }
        }
    }
    "ok".into()
}

// ------------------------------------------------------------------------------------------ C07

/// events marked `*` are rejected frames; the run without them must be indistinguishable
pub fn strip_starred(op: &str) -> String {
    let (hd, evs) = split_events(op);
    let mut out = hd;
    for e in evs {
        if !e.starts_with('*') {
            out.push_str(" ; ");
            out.push_str(&e);
        }
    }
    out
}

pub fn unstar(op: &str) -> String {
    let (hd, evs) = split_events(op);
    let mut out = hd;
    for e in evs {
        out.push_str(" ; ");
        out.push_str(e.trim_start_matches('*'));
    }
    out
}

pub fn eval_c07(op: &str) -> String {
    let full = run_history(&unstar(op));
    let twin = run_history(&strip_starred(op));
    let (_, evs) = split_events(op);
    let mut verdict = "ok".to_string();
    let mut j = 0;
    for (i, e) in evs.iter().enumerate() {
        let o = full.get(i).cloned().unwrap_or_else(|| "MISSING".into());
        if o == "PANIC" || o == "HANG" {
            verdict = format!("FAIL:{}", o);
            break;
        }
        if e.starts_with('*') {
            if !(o == "resp=NoUpdate dl=-" || o == "resp=NotJoined dl=-") {
                verdict = format!("FAIL:rejected-frame-answered-{}", o.replace(' ', "_"));
                break;
            }
        } else {
            let t = twin.get(j).cloned().unwrap_or_else(|| "MISSING".into());
            if t != o {
                verdict = format!("FAIL:event-{}-differs-from-twin", i);
                break;
            }
            j += 1;
        }
    }
    format!("{} ## oracle={}", full.join(" ; "), verdict)
}

// ------------------------------------------------------------------------------------------ C09 / C10

/// (sf, bw) of the region's data rates per RP002 (uplink and downlink rates the device may use)
pub fn dr_table(region: &str) -> Vec<Option<(u32, u32)>> {
    let k = 125_000;
    let mut t: Vec<Option<(u32, u32)>> = match region {
        "US915" => vec![Some((10, k)), Some((9, k)), Some((8, k)), Some((7, k)), Some((8, 500_000)), None, None, None, Some((12, 500_000)), Some((11, 500_000)), Some((10, 500_000)), Some((9, 500_000)), Some((8, 500_000)), Some((7, 500_000))],
        "AU915" => vec![Some((12, k)), Some((11, k)), Some((10, k)), Some((9, k)), Some((8, k)), Some((7, k)), Some((8, 500_000)), None, Some((12, 500_000)), Some((11, 500_000)), Some((10, 500_000)), Some((9, 500_000)), Some((8, 500_000)), Some((7, 500_000))],
        "EU868" | "IN865" => vec![Some((12, k)), Some((11, k)), Some((10, k)), Some((9, k)), Some((8, k)), Some((7, k))],
        _ => vec![Some((12, k)), Some((11, k)), Some((10, k)), Some((9, k)), Some((8, k)), Some((7, k)), Some((7, 250_000))],
    };
    t.resize(16, None);
    t
}

/// RP002 maximum MACPayload size M (no repeater, no dwell-time limit) of the LoRa data rate with
/// this spreading factor and bandwidth in this region, written from the regional-parameters tables
/// (not from the repository's `Datarate` constants). A frame fits when PHYPayload <= M + 5.
pub fn ref_max_m(region: &str, sf: u32, bw: u32) -> Option<u32> {
    let k = 125_000;
    Some(match region {
        "US915" => match (sf, bw) {
            (10, b) if b == k => 19,
            (9, b) if b == k => 61,
            (8, b) if b == k => 133,
            (7, b) if b == k => 250,
            (12, 500_000) => 61,
            (11, 500_000) => 137,
            (7..=10, 500_000) => 250,
            _ => return None,
        },
        "AU915" => match (sf, bw) {
            (10..=12, b) if b == k => 59,
            (9, b) if b == k => 123,
            (7 | 8, b) if b == k => 250,
            (12, 500_000) => 61,
            (11, 500_000) => 137,
            (7..=10, 500_000) => 250,
            _ => return None,
        },
        "EU868" | "EU433" | "IN865" => match (sf, bw) {
            (10..=12, b) if b == k => 59,
            (9, b) if b == k => 123,
            (7 | 8, b) if b == k => 250,
            (7, 250_000) if region != "IN865" => 250,
            _ => return None,
        },
        // AS923-1..4 (RP002-1.0.3, DownlinkDwellTime = 0)
        _ => match (sf, bw) {
            (11 | 12, b) if b == k => 59,
            (9 | 10, b) if b == k => 123,
            (7 | 8, b) if b == k => 250,
            (7, 250_000) => 250,
            _ => return None,
        },
    })
}

fn fixed_uplink(region: &str, ch: usize) -> u32 {
    if region == "US915" {
        if ch < 64 {
            902_300_000 + 200_000 * ch as u32
        } else {
            903_000_000 + 1_600_000 * (ch as u32 - 64)
        }
    } else if ch < 64 {
        915_200_000 + 200_000 * ch as u32
    } else {
        915_900_000 + 1_600_000 * (ch as u32 - 64)
    }
}

fn fixed_downlink(ch: usize) -> u32 {
    923_300_000 + 600_000 * (ch as u32 % 8)
}

pub fn default_rx2(region: &str) -> (u32, u8) {
    match region {
        "EU868" => (869_525_000, 0),
        "EU433" => (434_665_000, 0),
        "IN865" => (866_550_000, 2),
        "AS923_1" => (923_200_000, 2),
        "AS923_2" => (921_400_000, 2),
        "AS923_3" => (916_600_000, 2),
        "AS923_4" => (917_300_000, 2),
        _ => (923_300_000, 8),
    }
}

/// RP002 RX1 data rate as a function of the uplink data rate and RX1DROffset
pub fn rx1_dr(region: &str, dr: u8, off: u8) -> u8 {
    let (dr, off) = (dr as i32, off as i32);
    (match region {
        "EU868" | "EU433" => (dr - off).max(0),
        "US915" => (10 + dr - off).clamp(8, 13),
        "AU915" => (8 + dr - off).clamp(8, 13),
        "IN865" => {
            if off < 6 {
                (dr - off).max(0)
            } else {
                (dr + (off - 5)).min(5)
            }
        }
        _ => {
            // AS923: effective offset 6,7 = -1,-2; DR never below 2 under dwell-time is not applied here
            if off < 6 {
                (dr - off).max(0)
            } else {
                (dr + (off - 5)).min(7)
            }
        }
    }) as u8
}

pub fn oracle_c09_c10(op: &str, outs: &[String], check_c09: bool, check_c10: bool) -> String {
    if let Some(f) = faults(outs) {
        return f;
    }
    let (hd, evs) = split_events(op);
    let (region, max_power, gain) = header_fields(&hd);
    let region = region.as_str();
    let fixed = is_fixed(region);
    let table = dr_table(region);
    let snaps: Vec<Option<Snap>> = outs.iter().map(|o| parse_snap(o)).collect();
    // the power level the network last commanded, derived from the history's own LinkADRReq
    // commands (RP002: TXPower index k = MaxEIRP - 2k dB) and the device's acknowledgement in the
    // next uplink — not from the device's own bookkeeping
    let mut commanded: Option<i32> = None;
    let mut pending_cmd: Option<i32> = None; // index of a single-block LinkADRReq awaiting its answer
    let mut prev_commanded: Option<i32> = None;
    for (i, (ev, out)) in evs.iter().zip(outs.iter()).enumerate() {
        let w0 = ev.split_whitespace().next().unwrap_or("");
        if matches!(w0, "abp" | "sess") || out.contains("resp=JoinSuccess") {
            // a new session keeps the MAC configuration in this stack; nothing to forget
        }
        if (w0 == "rx1" || w0 == "rx2") && check_c09 {
            let w: Vec<&str> = ev.split_whitespace().collect();
            pending_cmd = None;
            if out.contains("resp=SessionExpired") && w.len() >= 11 && w[3] == "d" && w[7] != "-" {
                // an authentic frame at the exhausted uplink counter is answered SessionExpired, and
                // its MAC commands may have been executed all the same: the commanded level is unknown
                commanded = None;
                prev_commanded = None;
            }
            if out.contains("DownlinkReceived") && w.len() >= 11 && w[3] == "d" {
                let fopts = if w[8] == "-" { vec![] } else { unhex(w[8]) };
                let payload = if w[10] == "-" { vec![] } else { unhex(w[10]) };
                let mut bytes = fopts;
                if w[9] == "0" {
                    bytes.extend_from_slice(&payload);
                }
                let (cmds, _) = split_cmds(&bytes, down_len);
                let adr: Vec<&(u8, Vec<u8>)> = cmds.iter().filter(|c| c.0 == 0x03).collect();
                // tracked: one contiguous block that is the first answering command; any other
                // downlink carrying a LinkADRReq makes the commanded level unknown
                let first_is_adr = cmds.first().map(|c| c.0 == 0x03).unwrap_or(false);
                let contiguous = cmds.iter().skip_while(|c| c.0 == 0x03).all(|c| c.0 != 0x03);
                if !adr.is_empty() {
                    if first_is_adr && contiguous {
                        pending_cmd = Some((adr[adr.len() - 1].1[0] & 0x0f) as i32);
                        prev_commanded = commanded;
                    }
                    commanded = None;
                }
            }
        }
        if w0 == "send" && check_c09 {
            if let (Some(idx), Some(tx)) = (pending_cmd.take(), parse_tx(out)) {
                if let Some(up) = tx.up {
                    let answers = if up.fport == Some(0) { up.payload.clone() } else { up.fopts.clone() };
                    let (ans, _) = split_cmds(&answers, up_len);
                    if let Some((0x03, st)) = ans.first().map(|a| (a.0, a.1.clone())) {
                        if st.first() == Some(&7) && idx != 15 {
                            let lvl = max_eirp_dev(region) - 2 * idx;
                            commanded = Some(if region == "US915" { lvl.min(21) } else { lvl });
                        } else {
                            // rejected, or "keep the current power": the earlier command stands
                            commanded = prev_commanded;
                        }
                    }
                }
            }
        }
        if w0 != "send" && w0 != "otaa" {
            continue;
        }
        let tx = match parse_tx(out) {
            Some(t) => t,
            None => continue,
        };
        let before_idx = snaps[..i].iter().rposition(|s| s.is_some());
        // the snapshot describes the plan at the uplink only if nothing that can change the plan
        // (a Class A downlink, a join, a new session) happened in between
        let stale = match before_idx {
            Some(bi) => evs[bi + 1..i].iter().any(|e| {
                let k = e.split_whitespace().next().unwrap_or("");
                matches!(k, "rx1" | "rx2" | "otaa" | "abp" | "sess" | "*rx1" | "*rx2")
            }),
            None => true,
        };
        let before = if stale { None } else { before_idx.and_then(|bi| snaps[bi].clone()) };
        let _after = snaps[i..].iter().flatten().next().cloned();
        let is_join = w0 == "otaa";
        // data rate the region defines
        let dr_idx = table.iter().position(|d| *d == Some((tx.rf.sf, tx.rf.bw)));
        if check_c09 {
            if !in_band(region, tx.rf.freq) {
                return format!("FAIL:tx-frequency-{}-outside-band", tx.rf.freq);
            }
            if dr_idx.is_none() {
                return format!("FAIL:tx-with-undefined-datarate-sf{}-bw{}", tx.rf.sf, tx.rf.bw);
            }
            // builder J: a JoinRequest of a dynamic plan goes out on one of RP002's default channels of
            // the region (independent table, judged without a snapshot)
            if is_join && !fixed && !crate::oracle::default_join_freqs(region).contains(&tx.rf.freq) {
                return format!("FAIL:join-on-frequency-{}-which-is-no-default-channel-of-{}", tx.rf.freq, region);
            }
            // power
            let mut limit = (max_power).min(max_eirp_dev(region) - gain);
            if !is_join {
                if let Some(b) = &before {
                    if let Some(p) = b.txp {
                        limit = limit.min(p as i32);
                    }
                }
            }
            if tx.pw > limit {
                return format!("FAIL:tx-power-{}-above-limit-{}", tx.pw, limit);
            }
            if !is_join {
                if let Some(c) = commanded {
                    if tx.pw > c {
                        return format!("FAIL:tx-power-{}-above-the-commanded-level-{}", tx.pw, c);
                    }
                }
            }
            // channel defined and enabled (in the plan as it is after the selection)
            // judged against the plan before the uplink; when that plan offered no usable channel
            // at all the device may fall back (re-enable defaults), then the plan after counts
            let usable_before = before.as_ref().map(|b| {
                if fixed {
                    let want500 = tx.rf.bw == 500_000;
                    (0..72).any(|c| (c >= 64) == want500 && b.mask[c / 8] & (1 << (c % 8)) != 0)
                } else {
                    b.chans.iter().enumerate().any(|(k, c)| c.is_some() && b.mask[k / 8] & (1 << (k % 8)) != 0)
                }
            });
            // When the plan before the uplink offered no usable channel the device falls back:
            // a fixed plan re-enables the channels of the needed bandwidth, a dynamic plan its
            // default channels.  The mask after that step is not observable here (the next snapshot
            // may come after a downlink that changed the mask again), so in that case only the
            // fallback's own guarantee is required: right bandwidth (fixed) / a default channel (dynamic).
            let fallback = usable_before == Some(false);
            let judge = before.as_ref();
            if let Some(s) = judge {
                if fixed {
                    let ch = (0..72).find(|&c| fixed_uplink(region, c) == tx.rf.freq);
                    match ch {
                        None => return format!("FAIL:tx-frequency-{}-is-no-channel", tx.rf.freq),
                        Some(c) => {
                            let bw_ok = if c < 64 { tx.rf.bw == 125_000 } else { tx.rf.bw == 500_000 };
                            if !bw_ok {
                                return format!("FAIL:bandwidth-{}-on-channel-{}", tx.rf.bw, c);
                            }
                            if is_join {
                                let want = if c < 64 { table[0] } else { Some((8, 500_000)) };
                                if Some((tx.rf.sf, tx.rf.bw)) != want {
                                    return format!("FAIL:join-on-channel-{}-with-sf{}-bw{}", c, tx.rf.sf, tx.rf.bw);
                                }
                            } else if !fallback {
                                // the data channel must be enabled in the mask (a join bias is only a preference)
                                if s.mask[c / 8] & (1 << (c % 8)) == 0 {
                                    return format!("FAIL:data-uplink-on-disabled-channel-{}", c);
                                }
                            }
                        }
                    }
                } else {
                    let idx = s.chans.iter().position(|c| c.as_ref().map(|c| c.freq) == Some(tx.rf.freq));
                    match idx {
                        None => return format!("FAIL:tx-frequency-{}-is-no-defined-channel", tx.rf.freq),
                        Some(ix) => {
                            if is_join {
                                if ix >= num_default_channels(region) {
                                    return format!("FAIL:join-on-non-join-channel-{}", ix);
                                }

                            } else if fallback {
                                let ok = s.chans.iter().take(num_default_channels(region)).any(|c| c.as_ref().map(|c| c.freq) == Some(tx.rf.freq));
                                if !ok {
                                    return format!("FAIL:fallback-uplink-on-non-default-channel-{}", ix);
                                }
                            } else {
                                // any defined+enabled slot with this frequency
                                let ok = s.chans.iter().enumerate().any(|(k, c)| c.as_ref().map(|c| c.freq) == Some(tx.rf.freq) && s.mask[k / 8] & (1 << (k % 8)) != 0);
                                if !ok {
                                    return format!("FAIL:data-uplink-on-disabled-channel-{}", ix);
                                }
                            }
                        }
                    }
                }
            }
        }
        if check_c10 {
            let s = match before.as_ref() {
                Some(s) => s,
                None => continue,
            };
            let txdr = match dr_idx {
                Some(d) => d as u8,
                None => continue,
            };
            // RX2
            let (f2, d2) = default_rx2(region);
            let want_f2 = s.rx2f.unwrap_or(f2);
            if tx.rx2.freq != want_f2 {
                return format!("FAIL:rx2-frequency-{}-expected-{}", tx.rx2.freq, want_f2);
            }
            let want_d2 = s.rx2dr.unwrap_or(d2);
            if let Some(Some((sf, bw))) = table.get(want_d2 as usize) {
                if (tx.rx2.sf, tx.rx2.bw) != (*sf, *bw) {
                    return format!("FAIL:rx2-datarate-sf{}-bw{}-expected-dr{}", tx.rx2.sf, tx.rx2.bw, want_d2);
                }
            }
            if !table.contains(&Some((tx.rx2.sf, tx.rx2.bw))) || !table.contains(&Some((tx.rx1.sf, tx.rx1.bw))) {
                return "FAIL:window-with-undefined-datarate".into();
            }
            // RX1 frequency: paired with the uplink channel
            let want_f1 = if fixed {
                (0..72).find(|&c| fixed_uplink(region, c) == tx.rf.freq).map(fixed_downlink)
            } else {
                let cands: Vec<u32> = s
                    .chans
                    .iter()
                    .flatten()
                    .filter(|c| c.freq == tx.rf.freq)
                    .map(|c| c.dl.unwrap_or(c.freq))
                    .collect();
                if cands.contains(&tx.rx1.freq) {
                    Some(tx.rx1.freq)
                } else {
                    cands.first().copied()
                }
            };
            if let Some(f1) = want_f1 {
                if tx.rx1.freq != f1 {
                    return format!("FAIL:rx1-frequency-{}-expected-{}", tx.rx1.freq, f1);
                }
            }
            // RX1 data rate
            let off = if is_join { s.off } else { s.off };
            let want_d1 = rx1_dr(region, txdr, off);
            // IN865 offsets 6/7: RP002 is not available offline and the repository's own test pins
            // (DR5, 7) -> DR7 (not a LoRa rate of the device's table, hence the RX2-rate fallback);
            // these cells are "as coded": only "a LoRa data rate the region defines" is required
            let exact = !(region == "IN865" && off >= 6);
            if let (true, Some(Some((sf, bw)))) = (exact, table.get(want_d1 as usize)) {
                if (tx.rx1.sf, tx.rx1.bw) != (*sf, *bw) {
                    return format!("FAIL:rx1-datarate-sf{}-bw{}-expected-dr{}-(tx-dr{}-offset-{})", tx.rx1.sf, tx.rx1.bw, want_d1, txdr, off);
                }
            }
        }
    }
    if check_c10 && !fixed {
        if let Some(f) = newchannel_resets_pairing(region, &evs, outs, &snaps) {
            return f;
        }
        if let Some(f) = dlchannel_pairing(region, &evs, outs, &snaps) {
            return f;
        }
    }
    // C09: the channels a JoinAccept's type-0 CFList defines are the ones in force afterwards — an
    // in-band frequency defines channel J+n, a zero entry leaves it UNDEFINED (whatever an earlier
    // session had there); judged from the history's own CFList in the snapshot that follows the join
    if check_c09 && !is_fixed(region) {
        for (i, (ev, out)) in evs.iter().zip(outs.iter()).enumerate() {
            let w: Vec<&str> = ev.split_whitespace().collect();
            if w.len() < 9 || !(w[0] == "rx1" || w[0] == "rx2") || w[3] != "j" || !out.contains("resp=JoinSuccess") {
                continue;
            }
            let after = match snaps.get(i + 1).cloned().flatten() {
                Some(s) => s,
                None => continue,
            };
            if let Some(fs) = w[8].strip_prefix("d:") {
                let n0 = num_default_channels(region);
                for (k, f) in fs.split(',').enumerate() {
                    let f: u32 = f.parse().unwrap_or(0);
                    let got = after.chans.get(n0 + k).cloned().flatten();
                    if f == 0 {
                        if let Some(c) = got {
                            return format!("FAIL:cflist-entry-{}-is-zero-but-channel-{}-stays-defined-at-{}", k, n0 + k, c.freq);
                        }
                    } else if in_band(region, f) && got.as_ref().map(|c| c.freq) != Some(f) {
                        return format!("FAIL:cflist-frequency-{}-not-at-channel-{}", f, n0 + k);
                    }
                }
            }
        }
    }
    if check_c10 {
        // the RX1 delay in force is the one the last accepted JoinAccept negotiated (RxDelay 0 and 1
        // both mean one second) until an accepted downlink may have changed it (RXTimingSetupReq):
        // judged from the history's own JoinAccept, not from the implementation's state
        let mut negotiated: Option<u32> = None;
        for (i, (ev, out)) in evs.iter().zip(outs.iter()).enumerate() {
            let w: Vec<&str> = ev.split_whitespace().collect();
            match w.first().copied() {
                Some("rx1") | Some("rx2") | Some("rxc") => {
                    if out.contains("resp=JoinSuccess") && w.len() >= 8 && w[3] == "j" {
                        negotiated = w[7].parse::<u32>().ok().map(|d| d.max(1) * 1000);
                    } else if out.contains("DownlinkReceived") && w[0] != "rxc" && w.len() >= 11 && w[3] == "d" {
                        // a Class A downlink: an RXTimingSetupReq among its commands (FOpts, or the
                        // payload of port 0) negotiates max(1, Del) seconds — the last one wins;
                        // without one the delay in force stays
                        let mut bytes = if w[8] == "-" { vec![] } else { unhex(w[8]) };
                        if w[9] == "0" && w[10] != "-" {
                            bytes.extend_from_slice(&unhex(w[10]));
                        }
                        let (cmds, whole) = split_cmds(&bytes, down_len);
                        if !whole {
                            negotiated = None;
                        }
                        for c in cmds.iter() {
                            if c.0 == 0x08 && c.1.len() == 1 {
                                negotiated = Some(((c.1[0] & 0x0f) as u32).max(1) * 1000);
                            }
                        }
                    } else if out.contains("SessionExpired") {
                        negotiated = None;
                    }
                }
                Some("abp") | Some("sess") | Some("persist") => negotiated = None,
                Some("snap") => {
                    if let (Some(n), Some(s)) = (negotiated, snaps[i].as_ref()) {
                        if s.rx1d != n {
                            return format!("FAIL:rx1-delay-{}-after-a-joinaccept-negotiating-{}", s.rx1d, n);
                        }
                    }
                }
                Some("delays") => {
                    let d: Vec<u32> = out.trim_start_matches("d=").split(',').filter_map(|x| x.parse().ok()).collect();
                    if let (Some(n), Some(d0)) = (negotiated, d.first()) {
                        if *d0 != n {
                            return format!("FAIL:rx1-delay-{}-after-a-joinaccept-negotiating-{}", d0, n);
                        }
                    }
                }
                _ => {}
            }
        }
        // delays: RX1 = negotiated delay (join: 5 s), RX2 = RX1 + 1 s
        for (i, (ev, out)) in evs.iter().zip(outs.iter()).enumerate() {
            if ev.trim() == "delays" {
                let d: Vec<u32> = out.trim_start_matches("d=").split(',').filter_map(|x| x.parse().ok()).collect();
                if d.len() != 4 {
                    return "FAIL:delays-unparseable".into();
                }
                if d[1] != d[0] + 1000 || d[2] != 5000 || d[3] != 6000 {
                    return format!("FAIL:delays-{:?}", d);
                }
                if let Some(s) = snaps[..i].iter().rev().flatten().next() {
                    if d[0] != s.rx1d {
                        return format!("FAIL:rx1-delay-{}-but-negotiated-{}", d[0], s.rx1d);
                    }
                }
            }
        }
    }
    "ok".into()
}

/// DlChannelReq establishes the pairing RX1 must use: when an accepted downlink carries only
/// DlChannelReq commands, and the next uplink acknowledges one of them with both status bits set,
/// the channel's RX1 frequency in the next snapshot is the requested one (a request naming the
/// uplink frequency itself means "no separate downlink frequency", which is the same frequency).
/// Judged from the history's own commands and the implementation's outputs, not from the model.
fn dlchannel_pairing(_region: &str, evs: &[String], outs: &[String], snaps: &[Option<Snap>]) -> Option<String> {
    for (i, (ev, out)) in evs.iter().zip(outs.iter()).enumerate() {
        let w: Vec<&str> = ev.split_whitespace().collect();
        if w.len() < 11 || !(w[0] == "rx1" || w[0] == "rx2") || w[3] != "d" {
            continue;
        }
        if !out.contains("DownlinkReceived") {
            continue;
        }
        let fopts = if w[8] == "-" { vec![] } else { unhex(w[8]) };
        let payload = if w[10] == "-" { vec![] } else { unhex(w[10]) };
        let cmds_bytes = if w[9] == "0" { payload } else { fopts };
        let (cmds, whole) = split_cmds(&cmds_bytes, down_len);
        if !whole || cmds.is_empty() || cmds.len() > 3 || cmds.iter().any(|(c, _)| *c != 0x0a) {
            continue;
        }
        // the acknowledgements ride on the next uplink; the state is the next snapshot before any
        // further downlink
        let mut ans: Option<Vec<(u8, Vec<u8>)>> = None;
        let mut snap: Option<Snap> = None;
        for j in i + 1..evs.len() {
            let w0 = evs[j].split_whitespace().next().unwrap_or("");
            if w0 == "snap" && snap.is_none() {
                snap = snaps[j].clone();
            }
            if w0 == "send" {
                if let Some(up) = parse_tx(&outs[j]).and_then(|t| t.up) {
                    let (a, ok) = split_cmds(&up.fopts, up_len);
                    if ok {
                        ans = Some(a);
                    }
                }
                break;
            }
            if w0 != "snap" {
                break;
            }
        }
        let (ans, snap) = match (ans, snap) {
            (Some(a), Some(s)) => (a, s),
            _ => continue,
        };
        let dl_ans: Vec<u8> = ans.iter().filter(|(c, _)| *c == 0x0a).map(|(_, p)| p[0]).collect();
        if dl_ans.len() != cmds.len() {
            continue;
        }
        for (k, (_, p)) in cmds.iter().enumerate() {
            let idx = p[0] as usize;
            if cmds[k + 1..].iter().any(|(_, q)| q[0] as usize == idx) {
                continue; // a later request in the same frame decides this channel
            }
            if dl_ans[k] & 3 != 3 {
                continue;
            }
            let f = freq_of(&p[1..4]);
            match snap.chans.get(idx).cloned().flatten() {
                Some(c) => {
                    let rx1 = c.dl.unwrap_or(c.freq);
                    if rx1 != f {
                        return Some(format!("FAIL:dlchannel-{}-acknowledged-for-channel-{}-but-rx1-frequency-is-{}", f, idx, rx1));
                    }
                }
                None => return Some(format!("FAIL:dlchannel-acknowledged-for-undefined-channel-{}", idx)),
            }
        }
    }
    None
}

/// NewChannelReq creates or MODIFIES a channel; the RX1 downlink frequency of a newly defined or
/// modified channel equals its uplink frequency (LoRaWAN 1.0.4 §5.6; a pairing made earlier by
/// DlChannelReq does not survive the re-definition). When an accepted Class A downlink carries only
/// NewChannelReq commands and the next uplink acknowledges one with both status bits, the next
/// snapshot shows the channel at the requested frequency with RX1 on that same frequency.
fn newchannel_resets_pairing(_region: &str, evs: &[String], outs: &[String], snaps: &[Option<Snap>]) -> Option<String> {
    for (i, (ev, out)) in evs.iter().zip(outs.iter()).enumerate() {
        let w: Vec<&str> = ev.split_whitespace().collect();
        if w.len() < 11 || !(w[0] == "rx1" || w[0] == "rx2") || w[3] != "d" {
            continue;
        }
        if !out.contains("DownlinkReceived") {
            continue;
        }
        let fopts = if w[8] == "-" { vec![] } else { unhex(w[8]) };
        let payload = if w[10] == "-" { vec![] } else { unhex(w[10]) };
        let cmds_bytes = if w[9] == "0" { payload } else { fopts };
        let (cmds, whole) = split_cmds(&cmds_bytes, down_len);
        if !whole || cmds.is_empty() || cmds.len() > 3 || cmds.iter().any(|(c, _)| *c != 0x07) {
            continue;
        }
        let mut ans: Option<Vec<(u8, Vec<u8>)>> = None;
        let mut snap: Option<Snap> = None;
        for j in i + 1..evs.len() {
            let w0 = evs[j].split_whitespace().next().unwrap_or("");
            if w0 == "snap" && snap.is_none() {
                snap = snaps[j].clone();
            }
            if w0 == "send" {
                if let Some(up) = parse_tx(&outs[j]).and_then(|t| t.up) {
                    let (a, ok) = split_cmds(&up.fopts, up_len);
                    if ok {
                        ans = Some(a);
                    }
                }
                break;
            }
            if w0 != "snap" {
                break;
            }
        }
        let (ans, snap) = match (ans, snap) {
            (Some(a), Some(s)) => (a, s),
            _ => continue,
        };
        let nc_ans: Vec<u8> = ans.iter().filter(|(c, _)| *c == 0x07).map(|(_, p)| p[0]).collect();
        if nc_ans.len() != cmds.len() {
            continue;
        }
        for (k, (_, p)) in cmds.iter().enumerate() {
            let idx = p[0] as usize;
            if cmds[k + 1..].iter().any(|(_, q)| q[0] as usize == idx) {
                continue;
            }
            if nc_ans[k] & 3 != 3 {
                continue;
            }
            let f = freq_of(&p[1..4]);
            if f == 0 {
                continue; // removal
            }
            match snap.chans.get(idx).cloned().flatten() {
                Some(c) => {
                    if c.freq != f {
                        return Some(format!("FAIL:newchannel-{}-acknowledged-for-channel-{}-but-frequency-is-{}", f, idx, c.freq));
                    }
                    let rx1 = c.dl.unwrap_or(c.freq);
                    if rx1 != f {
                        return Some(format!("FAIL:newchannel-{}-acknowledged-for-channel-{}-but-rx1-frequency-is-still-{}", f, idx, rx1));
                    }
                }
                None => return Some(format!("FAIL:newchannel-acknowledged-but-channel-{}-undefined", idx)),
            }
        }
    }
    None
}

/// the regional maximum EIRP a device applies (RP002 defaults)
fn max_eirp_dev(region: &str) -> i32 {
    match region {
        // RP002: EU868 and AS923 16 dBm; EU433 12.15 dBm (10 dBm ERP), i.e. 12 in whole dBm;
        // US915 / AU915 / IN865 30 dBm
        "EU868" | "AS923_1" | "AS923_2" | "AS923_3" | "AS923_4" => 16,
        "EU433" => 12,
        _ => 30,
    }
}

// ------------------------------------------------------------------------------------------ C11

pub fn oracle_c11(op: &str, outs: &[String]) -> String {
    if let Some(f) = faults(outs) {
        return f;
    }
    let (hd, evs) = split_events(op);
    let (region, _, _) = header_fields(&hd);
    let region = region.as_str();
    let snaps: Vec<Option<Snap>> = outs.iter().map(|o| parse_snap(o)).collect();
    let mut in_attempt = false;
    for (i, (ev, out)) in evs.iter().zip(outs.iter()).enumerate() {
        let w: Vec<&str> = ev.split_whitespace().collect();
        match w[0] {
            "otaa" => {
                in_attempt = true;
                if !out.contains(" jr=ok") {
                    return format!("FAIL:join-request-{}", out.split("jr=").nth(1).unwrap_or("?"));
                }
            }
            "rx1" | "rx2" if in_attempt => {
                let view_ok = w.len() >= 9 && w[3] == "j" && w[4] == "1";
                let joined = out.contains("resp=JoinSuccess");
                if joined != view_ok {
                    return format!("FAIL:join-accept-authentic={}-but-joined={}", view_ok, joined);
                }
                if joined {
                    in_attempt = false;
                    if !out.contains("keys=ok") {
                        return "FAIL:session-keys-differ-from-the-derivation".into();
                    }
                    // the last snapshot describes the configuration before the accept only if no
                    // Class A downlink or new session lies in between
                    let before = snaps[..i].iter().rposition(|s| s.is_some()).and_then(|bi| {
                        let stale = evs[bi + 1..i].iter().any(|e| {
                            let k = e.split_whitespace().next().unwrap_or("");
                            matches!(k, "rx1" | "rx2" | "abp" | "sess" | "*rx1" | "*rx2" | "adr" | "dr")
                        });
                        if stale { None } else { snaps[bi].clone() }
                    });
                    // only a snapshot taken right after the accept describes the session it created
                    let after = match snaps.get(i + 1).cloned().flatten() {
                        Some(s) => s,
                        None => continue,
                    };
                    let devaddr: u32 = w[5].parse().unwrap_or(0);
                    let dls: u8 = w[6].parse().unwrap_or(0);
                    let rxd: u8 = w[7].parse().unwrap_or(0);
                    if after.st != 2 || after.devaddr != devaddr || after.fcnt_up != 0 || after.fcnt_down.is_some() {
                        return format!("FAIL:session-after-join-devaddr={}-fcnt_up={}-fcnt_down={:?}", after.devaddr, after.fcnt_up, after.fcnt_down);
                    }
                    let want_delay = if (rxd & 15) < 2 { 1000 } else { (rxd & 15) as u32 * 1000 };
                    if after.rx1d != want_delay {
                        return format!("FAIL:rx-delay-{}-gives-{}", rxd, after.rx1d);
                    }
                    if let Some(b) = &before {
                        let off = (dls >> 4) & 7;
                        let want_off = if off <= max_rx1_offset(region) { off } else { b.off };
                        if after.off != want_off {
                            return format!("FAIL:rx1-offset-{}-after-dlsettings-{:#x}", after.off, dls);
                        }
                        let r2 = dls & 15;
                        let defined = dr_table(region).get(r2 as usize).cloned().flatten().is_some();
                        if defined && after.rx2dr != Some(r2) {
                            return format!("FAIL:valid-rx2dr-{}-not-applied", r2);
                        }
                        if dr_rfu(region, r2) || r2 == 15 {
                            if after.rx2dr != b.rx2dr {
                                return format!("FAIL:invalid-rx2dr-{}-applied", r2);
                            }
                        }
                        // CFList
                        let cf = w[8];
                        if let Some(fs) = cf.strip_prefix("d:") {
                            if !after.fixed {
                                let n0 = num_default_channels(region);
                                for (k, f) in fs.split(',').enumerate() {
                                    let f: u32 = f.parse().unwrap_or(0);
                                    let got = after.chans.get(n0 + k).cloned().flatten();
                                    let prev = b.chans.get(n0 + k).cloned().flatten();
                                    if f == 0 {
                                        if got.is_some() {
                                            return "FAIL:cflist-zero-frequency-did-not-clear-channel".into();
                                        }
                                    } else if in_band(region, f) {
                                        if got.as_ref().map(|c| c.freq) != Some(f) {
                                            return format!("FAIL:cflist-frequency-{}-not-applied", f);
                                        }
                                        // the channel is the one the JoinAccept defines: RX1 on its own
                                        // frequency and the CFList data-rate range DR0..DR5, whatever an
                                        // earlier session had negotiated for that slot (DlChannelReq
                                        // pairing, NewChannelReq range)
                                        if let Some(c) = got.as_ref() {
                                            if c.dl.unwrap_or(c.freq) != f {
                                                return format!("FAIL:cflist-channel-{}-keeps-the-rx1-frequency-{}-of-the-previous-session", n0 + k, c.dl.unwrap_or(c.freq));
                                            }
                                            if c.drr != 0x50 {
                                                return format!("FAIL:cflist-channel-{}-keeps-the-data-rate-range-{:#x}-of-the-previous-session", n0 + k, c.drr);
                                            }
                                        }
                                    } else if got != prev {
                                        return format!("FAIL:cflist-out-of-band-frequency-{}-applied", f);
                                    }
                                }
                            } else if after.mask != b.mask {
                                return "FAIL:type0-cflist-changed-a-fixed-plan".into();
                            }
                        } else if cf.starts_with("f:") && after.fixed {
                            // a type-1 CFList IS the channel mask of a fixed plan afterwards, whatever
                            // channels it enables (500 kHz channels only, none at all)
                            let want = unhex(&cf[2..]);
                            if want.len() == 9 && after.mask.len() >= 9 && after.mask[..9] != want[..] {
                                return format!("FAIL:type1-cflist-mask-{}-not-applied-(mask={})", hex(&want), hex(&after.mask[..9]));
                            }
                        } else if cf.starts_with("f:") && !after.fixed && (after.chans != b.chans) {
                            return "FAIL:type1-cflist-changed-a-dynamic-plan".into();
                        } else if cf == "-" && after.chans != b.chans {
                            return "FAIL:channels-changed-without-cflist".into();
                        }
                    }
                }
            }
            "timeout" if in_attempt => {
                in_attempt = false;
                if out != "resp=NoJoinAccept" {
                    return format!("FAIL:failed-join-attempt-reported-{}", out);
                }
                // judged only on a snapshot taken right after the failed attempt (a later one may
                // follow another, successful, join)
                if let Some(Some(s)) = snaps.get(i + 1) {
                    if s.st == 2 {
                        return "FAIL:joined-without-join-accept".into();
                    }
                }
            }
            _ => {}
        }
    }
    "ok".into()
}

// ------------------------------------------------------------------------------------------ C12

/// reference automaton: (ack owed, ADR on, uplinks since last accepted downlink, data rate)
pub fn oracle_c12(op: &str, outs: &[String]) -> String {
    if let Some(f) = faults(outs) {
        return f;
    }
    let (hd, evs) = split_events(op);
    let (region, _, _) = header_fields(&hd);
    let table = dr_table(&region);
    let lower_exists = |dr: u8| (0..dr).any(|d| table[d as usize].is_some());
    let next_lower = |dr: u8| (0..dr).rev().find(|d| table[*d as usize].is_some());
    let mut ack_owed = false;
    let mut adr = true;
    let mut cnt: u32 = 0;
    let mut dr: u8 = 0;
    let mut resync_dr = false;
    let mut win12: Option<(u32, u32)> = None;
    let mut devaddr: u32 = 0;
    let mut joined = false;
    let mut pending_uplink = false;
    for (ev, out) in evs.iter().zip(outs.iter()) {
        let w: Vec<&str> = ev.split_whitespace().collect();
        match w[0] {
            "abp" => {
                joined = true;
                devaddr = w[1].parse().unwrap_or(0);
                ack_owed = false;
                cnt = 0;
            }
            "sess" => {
                joined = true;
                devaddr = w[1].parse().unwrap_or(0);
                cnt = w[4].parse().unwrap_or(0);
                ack_owed = w[7] == "1";
            }
            "adr" => {
                adr = w[1] == "1";
                if !adr {
                    cnt = 0;
                }
            }
            "dr" => dr = w[1].parse().unwrap_or(0),
            "otaa" => joined = false,
            "send" => {
                if !joined {
                    continue;
                }
                let tx = match parse_tx(out) {
                    Some(t) => t,
                    None => continue,
                };
                let up = match tx.up {
                    Some(u) => u,
                    None => return "FAIL:uplink-not-decodable".into(),
                };
                win12 = Some((ref_max_m(&region, tx.rx1.sf, tx.rx1.bw).unwrap_or(tx.rx1.mp), ref_max_m(&region, tx.rx2.sf, tx.rx2.bw).unwrap_or(tx.rx2.mp)));
                if resync_dr {
                    // an accepted Class A downlink carried a LinkADRReq: the network may have commanded
                    // another data rate (C08/C09 judge that); the automaton follows the rate in use
                    if let Some(d) = table.iter().position(|x| *x == Some((tx.rf.sf, tx.rf.bw))) {
                        dr = d as u8;
                    }
                    resync_dr = false;
                }
                let want_req = adr && cnt >= 64 && lower_exists(dr);
                if up.devaddr != devaddr {
                    return format!("FAIL:devaddr-{}-expected-{}", up.devaddr, devaddr);
                }
                if up.confirmed != (w[2] == "1") {
                    return "FAIL:message-type-differs-from-request".into();
                }
                if up.ack != ack_owed {
                    return format!("FAIL:ack-bit-{}-expected-{}", up.ack, ack_owed);
                }
                if up.adr != adr {
                    return format!("FAIL:adr-bit-{}-expected-{}", up.adr, adr);
                }
                if up.adr_ack_req != want_req {
                    return format!("FAIL:adrackreq-{}-expected-{}-(cnt={},dr={})", up.adr_ack_req, want_req, cnt, dr);
                }
                if table.get(dr as usize).cloned().flatten() != Some((tx.rf.sf, tx.rf.bw)) && !is_fixed(&region) {
                    return format!("FAIL:uplink-datarate-sf{}-bw{}-expected-dr{}", tx.rf.sf, tx.rf.bw, dr);
                }
                ack_owed = false;
                pending_uplink = true;
            }
            "timeout" => {
                if joined && out != "resp=SessionExpired" {
                    if adr {
                        cnt = cnt.saturating_add(1);
                        if cnt >= 96 && (cnt - 64) % 32 == 0 {
                            if let Some(d) = next_lower(dr) {
                                dr = d;
                            }
                        }
                    }
                }
                pending_uplink = false;
            }
            "rx1" | "rx2" | "rxc" => {
                if out.contains("resp=JoinSuccess") {
                    joined = true;
                    devaddr = w[5].parse().unwrap_or(0);
                    ack_owed = false;
                    cnt = 0;
                    continue;
                }
                // `SessionExpired` also ends a procedure in which an oversized frame was heard at the
                // end of the counter space: it counts as an acceptance only for an authentic frame that
                // fits the window (a stale one would have been answered with NoUpdate)
                let fits12 = match (w[0], win12) {
                    ("rx1", Some((a, _))) => w.get(4).and_then(|x| x.parse::<u32>().ok()).map(|l| l <= a + 5),
                    ("rx2", Some((_, b))) => w.get(4).and_then(|x| x.parse::<u32>().ok()).map(|l| l <= b + 5),
                    _ => Some(true),
                };
                let authentic12 = w.len() >= 8 && w[3] == "d" && w[7] != "-";
                let expired_accept = out.starts_with("resp=SessionExpired") && authentic12 && fits12 == Some(true);
                if out.starts_with("resp=DownlinkReceived(") && w.get(3) != Some(&"d") {
                    // builder X — the reference does not take these octets for a downlink data frame at all
                    // (view `g` / `j`: unparseable, an uplink-typed frame, a JoinAccept)
                    return "FAIL:accepted-what-the-reference-does-not-take-for-a-downlink-frame".into();
                }
                if out.starts_with("resp=DownlinkReceived(") || expired_accept {
                    cnt = 0;
                    if w[5] == "1" {
                        ack_owed = true;
                    }
                    // a LinkADRReq in a Class A downlink may change the data rate
                    if w[0] != "rxc" && w.len() >= 11 && w[3] == "d" {
                        let mut bytes = if w[8] == "-" { vec![] } else { unhex(w[8]) };
                        if w[9] == "0" && w[10] != "-" {
                            bytes.extend_from_slice(&unhex(w[10]));
                        }
                        if split_cmds(&bytes, down_len).0.iter().any(|c| c.0 == 0x03) {
                            resync_dr = true;
                        }
                    }
                    pending_uplink = false;
                } else if out.starts_with("resp=SessionExpired") {
                    // the procedure ended at the end of the counter space without an acceptance
                    pending_uplink = false;
                } else if (out.starts_with("resp=RxComplete") || out.starts_with("resp=NoAck")) && w[0] != "rxc" {
                    // an oversized frame ended the receive procedure as a timeout would
                    if adr {
                        cnt = cnt.saturating_add(1);
                        if cnt >= 96 && (cnt - 64) % 32 == 0 {
                            if let Some(d) = next_lower(dr) {
                                dr = d;
                            }
                        }
                    }
                    pending_uplink = false;
                }
            }
            _ => {}
        }
    }
    let _ = pending_uplink;
    "ok".into()
}

// ------------------------------------------------------------------------------------------ C20

pub fn oracle_c20(_op: &str, outs: &[String]) -> String {
    if let Some(f) = faults(outs) {
        return f;
    }
    for o in outs {
        if o.starts_with("persist=") && !(o == "persist=ok eq=1" || o == "persist=nosession") {
            return format!("FAIL:{}", o.replace(' ', "_"));
        }
    }
    "ok".into()
}

/// malformed / mutated serialised sessions: error, or a session on which operations do not panic
pub fn eval_c20_doc(op: &str) -> String {
    // `C20 doc <region> <hex of the JSON document>`
    let w: Vec<&str> = op.split_whitespace().collect();
    if w.len() != 4 {
        return "bad-op".into();
    }
    let doc = String::from_utf8_lossy(&unhex(w[3])).to_string();
    let region = match region_of(w[2]) {
        Some(r) => r,
        None => return "bad-op".into(),
    };
    let r = std::panic::catch_unwind(|| {
        match serde_json::from_str::<lorawan_device::mac::Session>(&doc) {
            Err(_) => "rejected".to_string(),
            Ok(sess) => {
                let mut mac = lorawan_device::mac::verif::VerifMac::new(lorawan_device::region::Configuration::new(region), 20, 0);
                mac.set_session(sess);
                let mut rng = HRng::new(1, vec![]);
                let snap = mac.snapshot();
                let devaddr = u32::from_le_bytes(snap.session.as_ref().unwrap().devaddr);
                let nwk = snap.session.as_ref().unwrap().nwkskey;
                let app = snap.session.as_ref().unwrap().appskey;
                // first an uplink whose windows both time out (counters as restored, nothing reset
                // by a downlink), then uplinks answered by an authentic downlink
                for k in 0..4u32 {
                    rng.refill();
                    let tx = mac.send(&mut rng, &[1, 2, 3], 1 + k as u8, k == 1);
                    if k == 0 {
                        let _ = mac.rx2_complete();
                        let _ = mac.snapshot();
                        continue;
                    }
                    if let Ok((t, _)) = &tx {
                        let mut d = DownDesc::new(devaddr, snap.session.as_ref().unwrap().fcnt_down.unwrap_or(0).wrapping_add(1 + k));
                        d.nwk = nwk;
                        d.app = app;
                        d.fopts = vec![0x06];
                        if let Some(b) = d.build() {
                            let _ = mac.handle_rx(&b, 0, &t.rx1);
                        }
                    }
                    let _ = mac.rx2_complete();
                    let _ = mac.snapshot();
                }
                "accepted".to_string()
            }
        }
    });
    match r {
        Ok(s) => format!("doc-handled ## oracle=ok ({})", s).replace(" (accepted)", "").replace(" (rejected)", ""),
        Err(_) => "doc-handled ## oracle=FAIL:PANIC-on-deserialised-session".into(),
    }
}
