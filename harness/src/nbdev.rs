//! Device-level runner for the REAL non-blocking `nb_device::Device` with a scripted radio.
//! Op-line grammar: see lean/Driver/Nb.lean.
#![allow(dead_code)]
use crate::mac::*;
use crate::util::*;
use lorawan_device::nb_device::radio::{Event as REvent, PhyRxTx, Response as RResponse, RfConfig, RxQuality, TxConfig};
use lorawan_device::nb_device::{Device, Error as NbError, Event, Response};
use lorawan_device::{region, AppEui, AppKey, AppSKey, DevAddr, DevEui, JoinMode, NwkSKey, Timings};

#[derive(Clone, Debug)]
pub enum NbItem {
    Dflt,
    Err,
    TxDoneNow(u32),
    Idle,
}

#[derive(Debug)]
pub enum MyEv {
    TxDone(u32),
    Rx(i8, Vec<u8>),
}

pub struct NbRadio {
    pub script: Vec<NbItem>,
    pub calls: Vec<String>,
    pub last_frame: Vec<u8>,
    pub packet: Vec<u8>,
    pub offset: i32,
    pub duration: u32,
}

fn show_rf_cfg(r: &RfConfig) -> String {
    format!("{},{},{},{}", r.frequency, r.bb.sf.factor(), r.bb.bw.hz(), r.max_payload_len)
}

impl NbRadio {
    fn next(&mut self) -> NbItem {
        if self.script.is_empty() {
            NbItem::Dflt
        } else {
            self.script.remove(0)
        }
    }
}

impl PhyRxTx for NbRadio {
    type PhyEvent = MyEv;
    type PhyError = ();
    type PhyResponse = ();
    const ANTENNA_GAIN: i8 = 0;
    const MAX_RADIO_POWER: u8 = 20;

    fn get_mut_radio(&mut self) -> &mut Self {
        self
    }
    fn get_received_packet(&mut self) -> &mut [u8] {
        &mut self.packet
    }
    fn handle_event(&mut self, event: REvent<'_, Self>) -> Result<RResponse<Self>, ()> {
        match event {
            REvent::TxRequest(cfg, buf) => {
                let cfg: TxConfig = cfg;
                self.calls.push(format!("txreq({},{},{})", show_rf_cfg(&cfg.rf), cfg.pw, buf.len()));
                self.last_frame = buf.to_vec();
                match self.next() {
                    NbItem::Dflt => Ok(RResponse::Txing),
                    NbItem::TxDoneNow(ts) => Ok(RResponse::TxDone(ts)),
                    NbItem::Idle => Ok(RResponse::Idle),
                    NbItem::Err => Err(()),
                }
            }
            REvent::RxRequest(rf) => {
                self.calls.push(format!("rxreq({})", show_rf_cfg(&rf)));
                match self.next() {
                    NbItem::Err => Err(()),
                    _ => Ok(RResponse::Rxing),
                }
            }
            REvent::CancelRx => {
                self.calls.push("cancel".into());
                match self.next() {
                    NbItem::Err => Err(()),
                    _ => Ok(RResponse::Idle),
                }
            }
            REvent::Phy(ev) => {
                self.calls.push("phy".into());
                match self.next() {
                    NbItem::Err => Err(()),
                    NbItem::Idle => Ok(RResponse::Idle),
                    _ => match ev {
                        MyEv::TxDone(ts) => Ok(RResponse::TxDone(ts)),
                        MyEv::Rx(snr, b) => {
                            self.packet = b;
                            Ok(RResponse::RxDone(RxQuality::new(-80, snr)))
                        }
                    },
                }
            }
        }
    }
}

impl Timings for NbRadio {
    fn get_rx_window_offset_ms(&self) -> i32 {
        self.offset
    }
    fn get_rx_window_duration_ms(&self) -> u32 {
        self.duration
    }
}

type Dev = Device<NbRadio, HRng, 256, 8>;

pub struct NRunner {
    pub dev: Dev,
    pub nwk: [u8; 16],
    pub app: [u8; 16],
    /// the application leaves downlinks in the device's queue until `take`
    pub hold: bool,
}

fn parse_item(t: &str) -> Option<NbItem> {
    match t {
        "O" => Some(NbItem::Dflt),
        "E" => Some(NbItem::Err),
        "I" => Some(NbItem::Idle),
        _ => t.strip_prefix('D').and_then(|x| x.parse().ok()).map(NbItem::TxDoneNow),
    }
}

fn parse_header(hd: &str) -> Option<NRunner> {
    // <suite> nbdev <region> <seed> <forced|-> <offset> <duration>
    let w: Vec<&str> = hd.split_whitespace().collect();
    if w.len() != 7 || w[1] != "nbdev" {
        return None;
    }
    let reg = region_of(w[2])?;
    let seed: u64 = w[3].parse().ok()?;
    let forced: Vec<u32> = if w[4] == "-" { vec![] } else { w[4].split(',').map(|x| x.parse().ok()).collect::<Option<Vec<u32>>>()? };
    let radio = NbRadio { script: vec![], calls: vec![], last_frame: vec![], packet: vec![], offset: w[5].parse().ok()?, duration: w[6].parse().ok()? };
    // the RNG is not reachable through the public API (no per-call refill): one generous budget per device
    let mut rng = HRng::new(seed, forced);
    rng.budget = 200_000;
    let dev: Dev = Device::new(region::Configuration::new(reg), radio, rng);
    Some(NRunner { dev, nwk: NWK_KEY, app: APP_KEY, hold: false })
}

pub fn parse_header_pub(hd: &str) -> Option<NRunner> {
    parse_header(hd)
}

fn show_result(r: Result<Response, NbError<NbRadio>>) -> String {
    match r {
        Ok(Response::NoUpdate) => "NoUpdate".into(),
        Ok(Response::TimeoutRequest(t)) => format!("TimeoutRequest({})", t),
        Ok(Response::JoinRequestSending) => "JoinRequestSending".into(),
        Ok(Response::JoinSuccess) => "JoinSuccess".into(),
        Ok(Response::NoJoinAccept) => "NoJoinAccept".into(),
        Ok(Response::UplinkSending(n)) => format!("UplinkSending({})", n),
        Ok(Response::DownlinkReceived(n)) => format!("DownlinkReceived({})", n),
        Ok(Response::NoAck) => "NoAck".into(),
        Ok(Response::ReadyToSend) => "ReadyToSend".into(),
        Ok(Response::SessionExpired) => "SessionExpired".into(),
        Ok(Response::RxComplete) => "RxComplete".into(),
        Err(NbError::Radio(_)) => "Err(Radio)".into(),
        Err(NbError::State(e)) => format!("Err(State:{:?})", e),
        Err(NbError::Mac(_)) => "Err(Mac)".into(),
    }
}

impl NRunner {
    fn finish(&mut self, res: String, fcnt: Option<u32>) -> String {
        let calls = std::mem::take(&mut self.dev.get_radio().calls).join(";");
        let up = if calls.contains("txreq(") && fcnt.is_some() {
            let frame = self.dev.get_radio().last_frame.clone();
            if frame.len() == 23 && frame[0] == 0 {
                "up=join".to_string()
            } else {
                show_uplink(&frame, &self.nwk, &self.app, fcnt.unwrap())
            }
        } else {
            "up=-".into()
        };
        let mut v = vec![];
        if !self.hold {
            while let Some(d) = self.dev.take_downlink() {
                v.push(format!("{}:{}", d.fport, hex(&d.data)));
            }
        }
        v.reverse();
        if let Some(s) = self.dev.verif_snapshot().session {
            self.nwk = s.nwkskey;
            self.app = s.appskey;
        }
        format!("calls={} => {} {} dls={}", calls, res, up, if v.is_empty() { "-".to_string() } else { v.join(",") })
    }
    pub fn step(&mut self, ev: &str) -> Option<String> {
        let (cmd, script) = match ev.split_once('|') {
            Some((a, b)) => (a.trim(), b.trim()),
            None => (ev.trim(), ""),
        };
        let w: Vec<&str> = cmd.split_whitespace().collect();
        let mut items = vec![];
        for t in script.split_whitespace() {
            items.push(parse_item(t)?);
        }
        self.dev.get_radio().script = items;
        // the RNG is not reachable through the public API: give every event a fresh budget by construction (5000 per call is
        // enforced inside HRng through `refill` at creation only; long loops still trip it)
        let fcnt = self.dev.get_fcnt_up();
        match w.as_slice() {
            ["abp", da] => {
                let da: u32 = da.parse().ok()?;
                self.nwk = NWK_KEY;
                self.app = APP_KEY;
                let r = self.dev.join(JoinMode::ABP { nwkskey: NwkSKey::from(NWK_KEY), appskey: AppSKey::from(APP_KEY), devaddr: DevAddr::from_value(da) });
                match r {
                    Ok(Response::JoinSuccess) => Some("ok".into()),
                    _ => Some("abp-failed".into()),
                }
            }
            ["sess", da, up, down, rest @ ..] if rest.is_empty() || rest.len() == 2 => {
                let da: u32 = da.parse().ok()?;
                let base = lorawan_device::mac::Session::new(NwkSKey::from(NWK_KEY), AppSKey::from(APP_KEY), DevAddr::from_value(da));
                let mut j = serde_json::to_value(&base).unwrap();
                j["fcnt_up"] = serde_json::json!(up.parse::<u32>().ok()?);
                j["fcnt_down"] = if *down == "-" { serde_json::json!(null) } else { serde_json::json!(down.parse::<u32>().ok()?) };
                if rest.len() == 2 {
                    // the stored `confirmed` flag and ADR counter of a session saved after a confirmed uplink
                    j["confirmed"] = serde_json::json!(rest[0] == "1");
                    j["adr_ack_cnt"] = serde_json::json!(rest[1].parse::<u32>().ok()?);
                }
                let sess: lorawan_device::mac::Session = serde_json::from_value(j).ok()?;
                self.dev.set_session(sess);
                self.nwk = NWK_KEY;
                self.app = APP_KEY;
                Some("ok".into())
            }
            ["njoin"] => {
                let r = self.dev.join(JoinMode::OTAA { deveui: DevEui::from([0x0b; 8]), appeui: AppEui::from([0x0a; 8]), appkey: AppKey::from(ROOT_KEY) });
                let s = show_result(r);
                Some(self.finish(s, Some(0)))
            }
            ["nsend", port, conf, data] => {
                let port: u8 = port.parse().ok()?;
                let data = unhex(data);
                let r = self.dev.send(&data, port, *conf == "1");
                let s = show_result(r);
                Some(self.finish(s, fcnt))
            }
            ["nradio", "txdone", ts] => {
                let ts: u32 = ts.parse().ok()?;
                let r = self.dev.handle_event(Event::RadioEvent(REvent::Phy(MyEv::TxDone(ts))));
                let s = show_result(r);
                Some(self.finish(s, None))
            }
            ["nradio", "rx", snr, hexb, ..] => {
                let snr: i8 = snr.parse().ok()?;
                let r = self.dev.handle_event(Event::RadioEvent(REvent::Phy(MyEv::Rx(snr, unhex(hexb)))));
                let s = show_result(r);
                Some(self.finish(s, None))
            }
            ["ntimeout"] => {
                let r = self.dev.handle_event(Event::TimeoutFired);
                let s = show_result(r);
                Some(self.finish(s, None))
            }
            ["adr", b] => {
                self.dev.set_adr(*b == "1");
                Some("ok".into())
            }
            ["dr", n] => {
                self.dev.set_datarate(lorawan_device::region::DR::from(n.parse::<u8>().ok()?));
                Some("ok".into())
            }
            ["hold"] => {
                // the application stops collecting downlinks after every call
                self.hold = true;
                Some("ok".into())
            }
            ["take"] => {
                let mut v = vec![];
                while let Some(d) = self.dev.take_downlink() {
                    v.push(format!("{}:{}", d.fport, hex(&d.data)));
                }
                v.reverse();
                Some(format!("dls={}", if v.is_empty() { "-".to_string() } else { v.join(",") }))
            }
            ["snap"] => Some(show_snap(&self.dev.verif_snapshot())),
            _ => None,
        }
    }
}

pub fn run_history(op: &str) -> Vec<String> {
    let mut segs = op.split(';');
    let hd = segs.next().unwrap_or("");
    let evs: Vec<String> = segs.map(|s| s.trim().to_string()).collect();
    let runner = match parse_header(hd) {
        Some(r) => r,
        None => return vec!["bad-op".into()],
    };
    let mut out: Vec<String> = vec![];
    let mut runner = std::panic::AssertUnwindSafe(runner);
    for ev in evs {
        reset_hang();
        let r = std::panic::catch_unwind(std::panic::AssertUnwindSafe(|| runner.step(&ev)));
        match r {
            Ok(Some(s)) => out.push(s),
            Ok(None) => {
                out.push("bad-op".into());
                break;
            }
            Err(_) => {
                out.push(if was_hang() { "HANG".into() } else { "PANIC".into() });
                break;
            }
        }
    }
    out
}
