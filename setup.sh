#!/bin/sh
# MANIFEST.setup_cmd: build everything from files on disk only (offline).
set -e
cd "$(dirname "$0")"
export CARGO_NET_OFFLINE=true
(cd tools/translate && cargo build --release --offline)
tools/translate/target/release/lv-translate "$(readlink -f repo-link)" lean/LoraVerif/Gen || true
(cd lean && lake build LoraVerif lvdriver)
# build every property's theorem module once, so that the quick checks start from compiled .olean files
# (a module that does not build is reported by its own check, not here)
MODS=$(python3 -c "import json,glob;print(' '.join(sorted({json.load(open(f))['lean_module'] for f in glob.glob('props/C*.json')})))")
(cd lean && lake build $MODS) || true
# builds the harness against repo-link and records the content hash of the sources it was built from
./check --build-harness
echo setup-done
