#!/bin/sh
# MANIFEST.setup_cmd: build everything from files on disk only (offline).
set -e
cd "$(dirname "$0")"
export CARGO_NET_OFFLINE=true
(cd tools/translate && cargo build --release --offline)
tools/translate/target/release/lv-translate "$(readlink -f repo-link)" lean/LoraVerif/Gen || true
(cd lean && lake build LoraVerif lvdriver)
(cd harness && cargo build --release --offline)
echo setup-done
