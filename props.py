"""Per-property configuration of ./check (which theorem module, which theorems are audited, which
generated units the proofs depend on, which harness suites tie the model to the code)."""

TB_COMMON = [
    "Lean 4.33.0 kernel; compiled .olean re-checked by leanchecker",
    "axioms: propext, Classical.choice, Quot.sound only (audited with #print axioms on every run); no native_decide, no bv_decide, no sorry, no own axioms",
    "tools/translate (Rust, syn): Rust→Lean translation of the listed items, with checked-overflow integer semantics (LoraVerif/Rt.lean); cross-checked on every run by running the real function and the generated Lean function on the same inputs",
    "harness/ (Rust) + lean/Driver (compiled Lean): the correspondence run itself",
    "rustc/LLVM semantics of the integer fragment",
]

PROPS = {
    "C16": dict(
        lean_module="LoraVerif.Props.C16",
        theorems=["C16.new_spec", "C16.toa_eq_spec", "C16.toa_is_formula", "C16.toa_monotone", "C16.code_monotone"],
        gen_units=["Modulation"],
        suites=["C16"],
        trusted_base=TB_COMMON + ["Spec/Airtime.lean: my transcription of the Semtech airtime formula (AN1200.13 / SX127x datasheet 4.1.1.7) over ℤ"],
        assumptions=["payload length is a u8 and the preamble an Option<u8> (the function's own signature)",
                     "BaseBandModulationParams values are those `new` builds, with the public ldro flag arbitrary (t_sym_us is a private field)"],
        explanation="Theorems quantify over all 8 SF x 10 BW x 4 CR x both LDRO flags x both header modes x len 0..255 x preamble none/0..255 (structural proof, no enumeration) on the model regenerated from lora-modulation/src/lib.rs; the correspondence run checks translator fidelity and the glue by running the real time_on_air_us against the generated Lean function and the spec.",
    ),
}
