#!/usr/bin/env python3
"""Resolve 'both sides appended' merge conflicts: props/*.json by list union (strings: the changed side, both changed:
ours + what theirs appended to the base), text files by keeping both sides of every conflict block. Usage: merge_union.py <path>..."""
import sys, json, subprocess, re
def show(stage, p):
    try: return subprocess.run(['git','show',':%d:%s'%(stage,p)],capture_output=True,text=True,check=True).stdout
    except subprocess.CalledProcessError: return None
def mj(b,o,t):
    if isinstance(o,dict) and isinstance(t,dict):
        r={}
        for k in list(o.keys())+[k for k in t.keys() if k not in o]:
            if k in o and k in t: r[k]=mj((b or {}).get(k) if isinstance(b,dict) else None,o[k],t[k])
            else: r[k]=o.get(k,t.get(k))
        return r
    if isinstance(o,list) and isinstance(t,list):
        return o+[x for x in t if x not in o]
    if o==t: return o
    if b is not None and o==b: return t
    if b is not None and t==b: return o
    if isinstance(o,str) and isinstance(t,str) and isinstance(b,str) and t.startswith(b): return o+t[len(b):]
    return o
for p in sys.argv[1:]:
    if p.endswith('.json') and 'translate_report' not in p:
        b,o,t=[show(i,p) for i in (1,2,3)]
        r=mj(json.loads(b) if b else None,json.loads(o),json.loads(t))
        open(p,'w').write(json.dumps(r,indent=1,ensure_ascii=False)+"\n")
    else:
        s=open(p).read()
        s=re.sub(r'<<<<<<< [^\n]*\n(.*?)=======\n(.*?)>>>>>>> [^\n]*\n',lambda m:m.group(1)+m.group(2),s,flags=re.S)
        open(p,'w').write(s)
    print('resolved',p)
