#!/usr/bin/env python3
"""Quick C14 correspondence on a fixed op file (used for the mutation test of builder I):
   mutcheck_c14.py <opsfile>   -> prints the number of mismatches (impl vs model / spec) and the first one.
Rebuilds nothing: run after `cargo build --release --offline` in harness/."""
import subprocess, sys, os
root = os.path.dirname(os.path.dirname(os.path.abspath(__file__)))
H = os.environ.get("LVHARNESS", os.path.join(root, "harness/target/release/lvharness"))
D = os.path.join(root, "lean/.lake/build/bin/lvdriver")
ops = [l.rstrip("\n") for l in open(sys.argv[1]) if l.strip()]
impl = subprocess.run([H, "eval", sys.argv[1]], capture_output=True, text=True).stdout.split("\n")
drv = subprocess.run([D], stdin=open(sys.argv[1]), capture_output=True, text=True).stdout.split("\n")
bad = []
for op, i, d in zip(ops, impl, drv):
    m, _, s = d.rpartition("|")
    if i != m or (s != "-" and i != s):
        bad.append((op, i[:160], d[:160]))
print("lines=%d mismatches=%d" % (len(ops), len(bad)))
if bad:
    print("first: %s\n  impl : %s\n  model: %s" % bad[0])
sys.exit(1 if bad else 0)
