#!/usr/bin/env python3
"""manifest_claim.py <id> <technique> <level text> <level note>: move a property from not_applicable to checks"""
import json, sys
pid, tech, text, note = sys.argv[1:5]
m = json.load(open('/verif/MANIFEST.json'))
m['not_applicable'] = [x for x in m['not_applicable'] if x['property_id'] != pid]
m['checks'] = [c for c in m['checks'] if c['property_id'] != pid]
m['checks'].append({
    "property_id": pid,
    "quick_cmd": f"./check {pid} --tier quick",
    "thorough_cmd": f"./check {pid} --tier thorough",
    "evidence_file": f"evidence/{pid}.json",
    "replay_cmd_template": f"./check {pid} --replay {{path}}",
    "engine": "lean-proof+correspondence",
    "level_claimed": {"category": "proof", "text": text, "design_ref": f"DESIGN.md §5 {pid}"},
    "level_note": note,
    "technique": tech,
})
m['checks'].sort(key=lambda c: c['property_id'])
json.dump(m, open('/verif/MANIFEST.json', 'w'), indent=1)
print('claimed', pid)
