//! builder J — tie A for the static regional parameters and small pure MAC helpers.
//!
//! `region_static` (unit `Gen.RegionStatic`) follows the wiring of the source instead of a list of
//! names: `State::new` maps every `Region` variant to a plan type and a constructor; the plan type
//! (`type EU868 = DynamicChannelPlan<EU868Region>`, `struct US915(FixedChannelPlan<US915Region>)`)
//! names the region type and its const-generic arguments; the constructor names the band-limit
//! function.  Every associated constant of the region type's trait impls, the band-limit function,
//! `init_channels` and a few one-line `RegionHandler` methods (instantiated per region) are
//! translated, followed by dispatch tables over the generated `Region` enum.  Any other shape of
//! the source fails the unit loudly (stub), it is never guessed.
use crate::ir::{self, Seq, Tail, Ty};
use crate::tr::{int_ty, FnSig, FnTr, Registry, Res};
use std::collections::HashMap;
use std::fmt::Write as _;
use syn::*;

pub(crate) fn last_ident(p: &Path) -> String {
    p.segments.last().map(|s| s.ident.to_string()).unwrap_or_default()
}

pub(crate) fn type_last_seg(t: &Type) -> Option<&PathSegment> {
    match t {
        Type::Path(tp) => tp.path.segments.last(),
        Type::Reference(r) => type_last_seg(&r.elem),
        Type::Paren(p) => type_last_seg(&p.elem),
        _ => None,
    }
}

pub(crate) fn type_name(t: &Type) -> String {
    type_last_seg(t).map(|s| s.ident.to_string()).unwrap_or_default()
}

/// all items of the files, inline modules flattened (test modules skipped)
pub(crate) fn flat_items(files: &[File]) -> Vec<&Item> {
    fn walk<'a>(items: &'a [Item], out: &mut Vec<&'a Item>) {
        for it in items {
            if let Item::Mod(m) = it {
                if m.ident == "tests" || m.ident == "test" {
                    continue;
                }
                if let Some((_, its)) = &m.content {
                    walk(its, out);
                }
            } else {
                out.push(it);
            }
        }
    }
    let mut v = vec![];
    for f in files {
        walk(&f.items, &mut v);
    }
    v
}

pub(crate) fn generic_args(seg: &PathSegment) -> Vec<&GenericArgument> {
    match &seg.arguments {
        PathArguments::AngleBracketed(ab) => ab.args.iter().collect(),
        _ => vec![],
    }
}

pub(crate) fn single_tail_expr(b: &Block) -> Option<&Expr> {
    match b.stmts.as_slice() {
        [Stmt::Expr(e, None)] => Some(e),
        [Stmt::Expr(Expr::Return(r), Some(_))] => r.expr.as_deref(),
        _ => None,
    }
}

/// `a::b::f(args)` → (["a","b","f"], args)
pub(crate) fn call_parts(e: &Expr) -> Option<(Vec<String>, Vec<&Expr>)> {
    let e = match e {
        Expr::Paren(p) => &*p.expr,
        e => e,
    };
    if let Expr::Call(c) = e {
        if let Expr::Path(p) = &*c.func {
            return Some((p.path.segments.iter().map(|s| s.ident.to_string()).collect(), c.args.iter().collect()));
        }
    }
    None
}

pub(crate) fn single_ident(e: &Expr) -> Option<String> {
    match e {
        Expr::Path(p) if p.path.segments.len() == 1 => Some(p.path.segments[0].ident.to_string()),
        Expr::Reference(r) => single_ident(&r.expr),
        Expr::Paren(p) => single_ident(&p.expr),
        _ => None,
    }
}

pub(crate) fn new_tr<'a>(reg: &'a Registry, self_ty: Option<String>, prefix: &str) -> FnTr<'a> {
    FnTr { reg, self_ty, ret: Ty::Unit, counter: 0, fn_prefix: prefix.to_string(), local_fns: HashMap::new(), extra_defs: vec![], muts: vec![], tparams: HashMap::new() }
}

pub(crate) fn find_free_fn<'a>(files: &'a [File], name: &str) -> Option<&'a ItemFn> {
    flat_items(files).into_iter().find_map(|it| match it {
        Item::Fn(f) if f.sig.ident == name => Some(f),
        _ => None,
    })
}

// ------------------------------------------------------------------------------------------------
// region wiring

pub(crate) struct Wiring {
    pub(crate) variant: String,
    /// builder H: the `State` variant the arm constructs (`Region::X => State::Y(..)`)
    pub(crate) state_variant: String,
    pub(crate) fixed: bool,
    pub(crate) plan_ty: String,
    pub(crate) region_ty: String,
    /// const-generic arguments of the region type in the plan type (`AS923Region<921_400_000, 1800000>`)
    pub(crate) args: Vec<Expr>,
    pub(crate) freq_fn: String,
}

fn region_of_plan_type(t: &Type, wrapper: &str, what: &str) -> Res<(String, Vec<Expr>)> {
    let seg = type_last_seg(t).ok_or(format!("{}: not a path type", what))?;
    if seg.ident != wrapper {
        return Err(format!("{}: expected {}<..>, found {}", what, wrapper, seg.ident));
    }
    let ga = generic_args(seg);
    let [GenericArgument::Type(rt)] = ga.as_slice() else {
        return Err(format!("{}: expected exactly one type argument", what));
    };
    let rseg = type_last_seg(rt).ok_or(format!("{}: region type is not a path", what))?;
    let mut args = vec![];
    for a in generic_args(rseg) {
        match a {
            GenericArgument::Const(e) => args.push(e.clone()),
            GenericArgument::Type(Type::Path(tp)) if tp.path.segments.len() == 1 => {
                args.push(Expr::Path(ExprPath { attrs: vec![], qself: None, path: tp.path.clone() }))
            }
            _ => return Err(format!("{}: unsupported generic argument of {}", what, rseg.ident)),
        }
    }
    Ok((rseg.ident.to_string(), args))
}

pub(crate) fn region_wiring(files: &[File]) -> Res<Vec<Wiring>> {
    let items = flat_items(files);
    let mut state_new: Option<&ImplItemFn> = None;
    for it in &items {
        if let Item::Impl(im) = it {
            if im.trait_.is_none() && type_name(&im.self_ty) == "State" {
                for ii in &im.items {
                    if let ImplItem::Fn(f) = ii {
                        if f.sig.ident == "new" {
                            state_new = Some(f);
                        }
                    }
                }
            }
        }
    }
    let f = state_new.ok_or("region wiring: `impl State { fn new }` not found")?;
    let Some(Expr::Match(m)) = single_tail_expr(&f.block) else {
        return Err("region wiring: State::new is not a single match".into());
    };
    let mut out = vec![];
    for arm in &m.arms {
        if arm.guard.is_some() {
            return Err("region wiring: guarded arm in State::new".into());
        }
        let variant = match &arm.pat {
            Pat::Path(p) => last_ident(&p.path),
            _ => return Err("region wiring: State::new arm is not a `Region::X` pattern".into()),
        };
        let what = format!("region wiring ({})", variant);
        let (segs, args) = call_parts(&arm.body).ok_or(format!("{}: arm body is not State::X(..)", what))?;
        if segs.len() != 2 || (segs[0] != "State" && segs[0] != "Self") || args.len() != 1 {
            return Err(format!("{}: arm body is not State::X(ctor)", what));
        }
        let (csegs, cargs) = call_parts(args[0]).ok_or(format!("{}: constructor is not a call", what))?;
        if csegs.len() != 2 || !cargs.is_empty() {
            return Err(format!("{}: constructor is not `Type::ctor()`", what));
        }
        let (plan_ty, ctor) = (csegs[0].clone(), csegs[1].clone());
        // the plan type: alias of DynamicChannelPlan<R> or newtype around FixedChannelPlan<R>
        let mut found: Option<(bool, String, Vec<Expr>)> = None;
        for it in &items {
            match it {
                Item::Type(t) if t.ident == plan_ty => {
                    let (rt, a) = region_of_plan_type(&t.ty, "DynamicChannelPlan", &what)?;
                    found = Some((false, rt, a));
                }
                Item::Struct(s) if s.ident == plan_ty => {
                    let Fields::Unnamed(fu) = &s.fields else { return Err(format!("{}: {} is not a newtype", what, plan_ty)) };
                    if fu.unnamed.len() != 1 {
                        return Err(format!("{}: {} is not a newtype", what, plan_ty));
                    }
                    let (rt, a) = region_of_plan_type(&fu.unnamed[0].ty, "FixedChannelPlan", &what)?;
                    found = Some((true, rt, a));
                }
                _ => {}
            }
        }
        let (fixed, region_ty, rargs) = found.ok_or(format!("{}: plan type {} not found", what, plan_ty))?;
        // the band-limit function handed to the plan constructor
        let mut freq_fn = None;
        for it in &items {
            let Item::Impl(im) = it else { continue };
            if !fixed {
                if im.trait_.is_some() || type_name(&im.self_ty) != "DynamicChannelPlan" {
                    continue;
                }
                for ii in &im.items {
                    let ImplItem::Fn(g) = ii else { continue };
                    if g.sig.ident != ctor {
                        continue;
                    }
                    let e = single_tail_expr(&g.block).ok_or(format!("{}: {} is not a single expression", what, ctor))?;
                    let (s, a) = call_parts(e).ok_or(format!("{}: {} is not `Self::new(f)`", what, ctor))?;
                    if s != ["Self", "new"] || a.len() != 1 {
                        return Err(format!("{}: {} is not `Self::new(f)`", what, ctor));
                    }
                    freq_fn = Some(single_ident(a[0]).ok_or(format!("{}: {}: argument of Self::new is not a function name", what, ctor))?);
                }
            } else {
                let is_default = im.trait_.as_ref().map(|(_, p, _)| last_ident(p) == "Default").unwrap_or(false);
                if !is_default || type_name(&im.self_ty) != plan_ty {
                    continue;
                }
                if ctor != "default" {
                    return Err(format!("{}: fixed plan constructed by {} (expected default())", what, ctor));
                }
                for ii in &im.items {
                    let ImplItem::Fn(g) = ii else { continue };
                    let e = single_tail_expr(&g.block).ok_or(format!("{}: default() is not a single expression", what))?;
                    let (s, a) = call_parts(e).ok_or(format!("{}: default() is not `{}(FixedChannelPlan::new(f))`", what, plan_ty))?;
                    if s.last().map(|x| x.as_str()) != Some(plan_ty.as_str()) || a.len() != 1 {
                        return Err(format!("{}: default() is not `{}(..)`", what, plan_ty));
                    }
                    let (s2, a2) = call_parts(a[0]).ok_or(format!("{}: default() does not call FixedChannelPlan::new", what))?;
                    if s2.len() < 2 || s2[s2.len() - 2] != "FixedChannelPlan" || s2[s2.len() - 1] != "new" || a2.len() != 1 {
                        return Err(format!("{}: default() does not call FixedChannelPlan::new(f)", what));
                    }
                    freq_fn = Some(single_ident(a2[0]).ok_or(format!("{}: argument of FixedChannelPlan::new is not a function name", what))?);
                }
            }
        }
        let freq_fn = freq_fn.ok_or(format!("{}: constructor {}::{} not found", what, plan_ty, ctor))?;
        out.push(Wiring { variant, state_variant: segs[1].clone(), fixed, plan_ty, region_ty, args: rargs, freq_fn });
    }
    if out.is_empty() {
        return Err("region wiring: State::new has no arms".into());
    }
    Ok(out)
}

// ------------------------------------------------------------------------------------------------
// associated constants and `init_channels` of one region type

#[derive(Clone)]
struct Assoc {
    name: String,
    ty: Ty,
    /// Lean definition name, to be applied to the region type's const-generic arguments
    lean: String,
}

struct RegionTy {
    nparams: usize,
    consts: Vec<Assoc>,
    /// Lean name of the translated `init_channels` table (dynamic plans)
    init_channels: Option<String>,
}

/// const-generic parameters of an impl block, checked to be passed positionally to the self type
fn impl_const_params(im: &ItemImpl, what: &str) -> Res<Vec<(String, &'static str)>> {
    let mut ps = vec![];
    for g in &im.generics.params {
        match g {
            GenericParam::Const(c) => {
                let t = int_ty(&type_name(&c.ty)).ok_or(format!("{}: const generic {} is not an integer", what, c.ident))?;
                ps.push((c.ident.to_string(), t));
            }
            GenericParam::Lifetime(_) => {}
            GenericParam::Type(t) => return Err(format!("{}: type parameter {} on a region type impl", what, t.ident)),
        }
    }
    let seg = type_last_seg(&im.self_ty).ok_or(format!("{}: self type is not a path", what))?;
    let args = generic_args(seg);
    if args.len() != ps.len() {
        return Err(format!("{}: self type takes {} arguments, impl has {} const parameters", what, args.len(), ps.len()));
    }
    for (a, (p, _)) in args.iter().zip(ps.iter()) {
        let ok = match a {
            GenericArgument::Type(Type::Path(tp)) => tp.path.is_ident(p.as_str()),
            GenericArgument::Const(Expr::Path(ep)) => ep.path.is_ident(p.as_str()),
            _ => false,
        };
        if !ok {
            return Err(format!("{}: const parameters are not passed positionally to the self type", what));
        }
    }
    Ok(ps)
}

/// value of an arithmetic expression over integer literals
fn fold_const(e: &Expr) -> Option<i128> {
    match e {
        Expr::Lit(ExprLit { lit: Lit::Int(i), .. }) => i.base10_parse::<i128>().ok(),
        Expr::Paren(p) => fold_const(&p.expr),
        Expr::Group(g) => fold_const(&g.expr),
        Expr::Binary(b) => {
            let (l, r) = (fold_const(&b.left)?, fold_const(&b.right)?);
            match b.op {
                BinOp::Add(_) => l.checked_add(r),
                BinOp::Sub(_) => l.checked_sub(r),
                BinOp::Mul(_) => l.checked_mul(r),
                BinOp::Shl(_) if (0..64).contains(&r) => Some(l << r),
                BinOp::BitOr(_) => Some(l | r),
                _ => None,
            }
        }
        _ => None,
    }
}

fn lean_params(ps: &[(String, &'static str)]) -> String {
    ps.iter().map(|(n, _)| format!(" ({} : Int)", n)).collect::<String>()
}

fn translate_region_type(files: &[File], reg: &mut Registry, out: &mut String, region_ty: &str) -> Res<RegionTy> {
    let items = flat_items(files);
    let mut res = RegionTy { nparams: 0, consts: vec![], init_channels: None };
    let mut seen_impl = false;
    for it in &items {
        let Item::Impl(im) = it else { continue };
        let Some((_, tpath, _)) = &im.trait_ else { continue };
        if type_name(&im.self_ty) != region_ty {
            continue;
        }
        let trait_name = last_ident(tpath);
        if !["ChannelRegion", "DynamicChannelRegion", "FixedChannelRegion"].contains(&trait_name.as_str()) {
            continue;
        }
        let what = format!("impl {} for {}", trait_name, region_ty);
        let ps = impl_const_params(im, &what)?;
        if seen_impl && ps.len() != res.nparams {
            return Err(format!("{}: differing numbers of const parameters between impls", what));
        }
        seen_impl = true;
        res.nparams = ps.len();
        for ii in &im.items {
            match ii {
                ImplItem::Const(c) => {
                    let name = c.ident.to_string();
                    let lean = format!("{}.{}", region_ty, name);
                    let (ty, term) = {
                        let mut tr = new_tr(reg, Some(region_ty.to_string()), &lean);
                        let ty = tr.ty(&c.ty).map_err(|e| format!("{}::{}: {}", what, name, e))?;
                        let mut env: HashMap<String, Ty> = ps.iter().map(|(n, t)| (n.clone(), Ty::Int(t))).collect();
                        let mut st = vec![];
                        let cexpr = inline_consts_expr(files, tr.reg, &c.expr);
                        let (term, _) = tr.ex(&cexpr, &mut env, &mut st, Some(ty.clone())).map_err(|e| format!("{}::{}: {}", what, name, e))?;
                        let term = if st.is_empty() {
                            term
                        } else {
                            // arithmetic over literals (`869_000_000 + 525_000`): folded here, with the type's range check
                            match (fold_const(&cexpr), &ty) {
                                (Some(v), Ty::Int(t)) if crate::tr::int_range(t).0 <= v && v <= crate::tr::int_range(t).1 => v.to_string(),
                                _ => return Err(format!("{}::{}: not a pure constant expression", what, name)),
                            }
                        };
                        (ty, term)
                    };
                    writeln!(out, "/-- `{}`: `const {}` -/", what, name).unwrap();
                    writeln!(out, "def {}{} : {} := {}\n", lean, lean_params(&ps), ty.lean(), term).unwrap();
                    if res.consts.iter().any(|a| a.name == name) {
                        return Err(format!("{}: constant {} defined twice", what, name));
                    }
                    res.consts.push(Assoc { name, ty, lean });
                }
                ImplItem::Fn(f) if f.sig.ident == "init_channels" => {
                    let lean = format!("{}.init_channels", region_ty);
                    let pname = f
                        .sig
                        .inputs
                        .iter()
                        .find_map(|a| match a {
                            FnArg::Typed(pt) => match &*pt.pat {
                                Pat::Ident(i) => Some(i.ident.to_string()),
                                _ => None,
                            },
                            _ => None,
                        })
                        .ok_or(format!("{}: init_channels has no named parameter", what))?;
                    let seq = {
                        let mut tr = new_tr(reg, Some(region_ty.to_string()), &lean);
                        let mut env: HashMap<String, Ty> = ps.iter().map(|(n, t)| (n.clone(), Ty::Int(t))).collect();
                        let mut st = vec![];
                        let mut rows = vec![];
                        for s in &f.block.stmts {
                            let bad = || format!("{}: init_channels: statement is not `{}[i] = Some(Channel::new(f, dr_min, dr_max));`", what, pname);
                            let Stmt::Expr(Expr::Assign(a), Some(_)) = s else { return Err(bad()) };
                            let Expr::Index(ix) = &*a.left else { return Err(bad()) };
                            if single_ident(&ix.expr).as_deref() != Some(pname.as_str()) {
                                return Err(bad());
                            }
                            let (ssegs, sargs) = call_parts(&a.right).ok_or_else(bad)?;
                            if ssegs != ["Some"] || sargs.len() != 1 {
                                return Err(bad());
                            }
                            let (csegs, cargs) = call_parts(sargs[0]).ok_or_else(bad)?;
                            if csegs.len() < 2 || csegs[csegs.len() - 2] != "Channel" || csegs[csegs.len() - 1] != "new" || cargs.len() != 3 {
                                return Err(bad());
                            }
                            let e = |x: String| format!("{}: init_channels: {}", what, x);
                            let (i, _) = tr.ex(&ix.index, &mut env, &mut st, Some(Ty::Int("usize"))).map_err(e)?;
                            let (fq, _) = tr.ex(cargs[0], &mut env, &mut st, Some(Ty::Int("u32"))).map_err(e)?;
                            let (lo, tlo) = tr.ex(cargs[1], &mut env, &mut st, Some(Ty::Named("DR".into()))).map_err(e)?;
                            let (hi, thi) = tr.ex(cargs[2], &mut env, &mut st, Some(Ty::Named("DR".into()))).map_err(e)?;
                            if tlo != Ty::Named("DR".into()) || thi != Ty::Named("DR".into()) {
                                return Err(format!("{}: init_channels: data-rate bounds are not of type DR", what));
                            }
                            rows.push(format!("({}, {}, {}, {})", i, fq, lo, hi));
                        }
                        Seq { stmts: st, tail: Tail::Val(format!("[{}]", rows.join(", "))) }
                    };
                    writeln!(out, "/-- `{}`: the assignments `{}[i] = Some(Channel::new(f, dr_min, dr_max))` of `init_channels`,", what, pname).unwrap();
                    writeln!(out, "in source order, as (i, f, dr_min, dr_max); `none` = an arithmetic panic while evaluating them -/").unwrap();
                    let mut body = String::new();
                    ir::render_m(&seq, 1, &mut body);
                    writeln!(out, "def {}{} : Option (List (Int × Int × DR × DR)) := {}\n", lean, lean_params(&ps), body).unwrap();
                    res.init_channels = Some(lean);
                }
                _ => {}
            }
        }
    }
    if !seen_impl {
        return Err(format!("no ChannelRegion impl found for {}", region_ty));
    }
    Ok(res)
}

// ------------------------------------------------------------------------------------------------
// one-line RegionHandler methods, instantiated per region

/// `RegionHandler` methods that are translated for every region with the plan's type parameter
/// (`R` / `F`) instantiated by the region type; a method whose body reads `self` is not translatable
/// this way and fails the unit.
const HANDLER_METHODS: &[&str] = &["get_rx2_frequency", "rx1_dr_offset_validate", "has_fixed_channel_plan", "get_default_datarate"];

pub(crate) fn handler_method<'a>(items: &[&'a Item], plan: &str, method: &str) -> Res<(&'a Signature, &'a Block, Option<String>)> {
    // the plan's own impl first, then the trait's default body
    for it in items {
        let Item::Impl(im) = it else { continue };
        let is_rh = im.trait_.as_ref().map(|(_, p, _)| last_ident(p) == "RegionHandler").unwrap_or(false);
        if !is_rh || type_name(&im.self_ty) != plan {
            continue;
        }
        let tparam = im.generics.params.iter().find_map(|g| match g {
            GenericParam::Type(t) => Some(t.ident.to_string()),
            _ => None,
        });
        for ii in &im.items {
            if let ImplItem::Fn(f) = ii {
                if f.sig.ident == method {
                    return Ok((&f.sig, &f.block, tparam));
                }
            }
        }
    }
    for it in items {
        let Item::Trait(t) = it else { continue };
        if t.ident != "RegionHandler" {
            continue;
        }
        for ti in &t.items {
            if let TraitItem::Fn(f) = ti {
                if f.sig.ident == method {
                    if let Some(b) = &f.default {
                        return Ok((&f.sig, b, None));
                    }
                }
            }
        }
    }
    Err(format!("RegionHandler::{} not found for {}", method, plan))
}

fn without_receiver(sig: &Signature) -> Signature {
    let mut s = sig.clone();
    s.inputs = s.inputs.into_iter().filter(|a| !matches!(a, FnArg::Receiver(_))).collect();
    s
}

// ------------------------------------------------------------------------------------------------
// the `Sel::CustomMulti` entry point of unit `Gen.RegionStatic`

pub fn region_static(files: &[File], _names: &[String], reg: &mut Registry, out: &mut String) -> Res<()> {
    let region_enum: Vec<String> = reg.enums.get("Region").ok_or("region_static: enum Region must be translated first")?.iter().map(|(v, _)| v.clone()).collect();
    if !reg.enums.contains_key("DR") {
        return Err("region_static: enum DR must be registered first".into());
    }
    let wiring = region_wiring(files)?;
    let wired: Vec<&str> = wiring.iter().map(|w| w.variant.as_str()).collect();
    for v in &region_enum {
        if !wired.contains(&v.as_str()) {
            return Err(format!("region_static: State::new has no arm for Region::{}", v));
        }
    }
    for w in &wiring {
        if !region_enum.contains(&w.variant) {
            return Err(format!("region_static: State::new arm {} is not a Region variant", w.variant));
        }
    }
    // band-limit functions, one instance per region under a name derived from the `Region` variant
    // (the Rust function's own name is an implementation detail theorems should not mention)
    for w in &wiring {
        let f = find_free_fn(files, &w.freq_fn).ok_or(format!("region_static: fn {} not found", w.freq_fn))?;
        let lean = format!("{}.frequency_valid", w.variant);
        let (text, sig, extra) = {
            let mut tr = new_tr(reg, None, &lean);
            let fblock = inline_consts_block(files, tr.reg, &f.block);
            let (text, sig) = tr.function(&f.sig, &fblock, &lean).map_err(|e| format!("fn {}: {}", w.freq_fn, e))?;
            (text, sig, tr.extra_defs)
        };
        if sig.fallible || sig.ret != Ty::Bool || sig.params.len() != 1 || !matches!(sig.params[0].1, Ty::Int("u32")) {
            return Err(format!("region_static: {} is not a total fn(u32) -> bool", w.freq_fn));
        }
        for d in extra {
            out.push_str(&d);
            out.push('\n');
        }
        writeln!(out, "/-- `{}` (the function `{}::{}()` hands to the plan constructor) -/", w.freq_fn, w.plan_ty, if w.fixed { "default" } else { "new_.." }).unwrap();
        out.push_str(&text);
        out.push('\n');
    }
    // region types
    let mut rtypes: Vec<(String, RegionTy)> = vec![];
    for w in &wiring {
        if rtypes.iter().any(|(n, _)| *n == w.region_ty) {
            continue;
        }
        let rt = translate_region_type(files, reg, out, &w.region_ty)?;
        rtypes.push((w.region_ty.clone(), rt));
    }
    // const-generic arguments per region, as Lean terms
    let mut argterms: Vec<String> = vec![];
    for w in &wiring {
        let rt = &rtypes.iter().find(|(n, _)| *n == w.region_ty).unwrap().1;
        if rt.nparams != w.args.len() {
            return Err(format!("region_static: {} passes {} const arguments to {}, which takes {}", w.plan_ty, w.args.len(), w.region_ty, rt.nparams));
        }
        let mut terms = String::new();
        let mut tr = new_tr(reg, None, "");
        for a in &w.args {
            let mut st = vec![];
            let mut env = HashMap::new();
            let (t, _) = tr.ex(a, &mut env, &mut st, Some(Ty::Int("u32"))).map_err(|e| format!("region_static: const argument of {}: {}", w.plan_ty, e))?;
            if !st.is_empty() {
                return Err(format!("region_static: const argument of {} is not a literal", w.plan_ty));
            }
            write!(terms, " {}", ir::paren(&t)).unwrap();
        }
        argterms.push(terms);
    }
    // ---- dispatch tables over `Region`
    writeln!(out, "/-- `State::new`: the plan type's kind (newtype around `FixedChannelPlan` / alias of `DynamicChannelPlan`) -/").unwrap();
    writeln!(out, "def plan_is_fixed : Region → Bool").unwrap();
    for w in &wiring {
        writeln!(out, "  | .{} => {}", w.variant, w.fixed).unwrap();
    }
    writeln!(out).unwrap();
    writeln!(out, "/-- `State::new`: the band-limit function the region's plan is constructed with (`frequency_valid` calls it) -/").unwrap();
    writeln!(out, "def frequency_valid : Region → Int → Bool").unwrap();
    for w in &wiring {
        writeln!(out, "  | .{}, f => {}.frequency_valid f", w.variant, w.variant).unwrap();
    }
    writeln!(out).unwrap();
    // associated constants: the union of names, in order of first appearance
    let mut names: Vec<(String, Ty)> = vec![];
    for (_, rt) in &rtypes {
        for a in &rt.consts {
            match names.iter().find(|(n, _)| *n == a.name) {
                None => names.push((a.name.clone(), a.ty.clone())),
                Some((_, t)) if *t != a.ty => return Err(format!("region_static: constant {} has different types in different regions", a.name)),
                _ => {}
            }
        }
    }
    for (name, ty) in &names {
        let everywhere = wiring.iter().all(|w| rtypes.iter().find(|(n, _)| *n == w.region_ty).unwrap().1.consts.iter().any(|a| a.name == *name));
        writeln!(out, "/-- associated constant `{}` of the region type behind each `Region`{} -/", name, if everywhere { "" } else { " (`none`: the region's plan kind does not define it)" }).unwrap();
        writeln!(out, "def {} : Region → {}", name, if everywhere { ty.lean() } else { format!("Option {}", ty.lean()) }).unwrap();
        for (w, at) in wiring.iter().zip(argterms.iter()) {
            let rt = &rtypes.iter().find(|(n, _)| *n == w.region_ty).unwrap().1;
            match rt.consts.iter().find(|a| a.name == *name) {
                Some(a) if everywhere => writeln!(out, "  | .{} => {}{}", w.variant, a.lean, at).unwrap(),
                Some(a) => writeln!(out, "  | .{} => some ({}{})", w.variant, a.lean, at).unwrap(),
                None => writeln!(out, "  | .{} => none", w.variant).unwrap(),
            }
        }
        writeln!(out).unwrap();
    }
    writeln!(out, "/-- `init_channels` of the region type behind each `Region` (outer `none`: fixed plan, no such table) -/").unwrap();
    writeln!(out, "def init_channels : Region → Option (Option (List (Int × Int × DR × DR)))").unwrap();
    for (w, at) in wiring.iter().zip(argterms.iter()) {
        let rt = &rtypes.iter().find(|(n, _)| *n == w.region_ty).unwrap().1;
        match (&rt.init_channels, w.fixed) {
            (Some(l), false) => writeln!(out, "  | .{} => some ({}{})", w.variant, l, at).unwrap(),
            (None, true) => writeln!(out, "  | .{} => none", w.variant).unwrap(),
            (None, false) => return Err(format!("region_static: dynamic region type {} has no init_channels", w.region_ty)),
            (Some(_), true) => return Err(format!("region_static: fixed region type {} has init_channels", w.region_ty)),
        }
    }
    writeln!(out).unwrap();
    // ---- RegionHandler one-liners, instantiated per region
    let items = flat_items(files);
    let mut sigs: HashMap<String, Vec<FnSig>> = HashMap::new();
    for (w, at) in wiring.iter().zip(argterms.iter()) {
        let plan = if w.fixed { "FixedChannelPlan" } else { "DynamicChannelPlan" };
        let rt = &rtypes.iter().find(|(n, _)| *n == w.region_ty).unwrap().1;
        for m in HANDLER_METHODS {
            let (sig, body, tparam) = handler_method(&items, plan, m)?;
            // `R::NAME` / `F::NAME` resolve to the region's constants while this instance is translated
            let mut added = vec![];
            if let Some(tp) = &tparam {
                for a in &rt.consts {
                    let key = format!("{}::{}", tp, a.name);
                    reg.consts.insert(key.clone(), (a.ty.clone(), format!("({}{})", a.lean, at)));
                    added.push(key);
                }
            }
            let lean = format!("{}.{}", w.variant, m);
            let r = {
                let mut tr = new_tr(reg, None, &lean);
                tr.function(&without_receiver(sig), body, &lean).map(|(t, s)| (t, s, tr.extra_defs))
            };
            for k in added {
                reg.consts.remove(&k);
            }
            let (text, fsig, extra) = r.map_err(|e| format!("region_static: {} of {} for {}: {}", m, plan, w.variant, e))?;
            for d in extra {
                out.push_str(&d);
                out.push('\n');
            }
            out.push_str(&text);
            out.push('\n');
            sigs.entry(m.to_string()).or_default().push(fsig);
        }
    }
    for m in HANDLER_METHODS {
        let ss = &sigs[*m];
        let first = &ss[0];
        for s in ss {
            if s.fallible != first.fallible || s.ret != first.ret || s.params.iter().map(|p| &p.1).ne(first.params.iter().map(|p| &p.1)) {
                return Err(format!("region_static: RegionHandler::{} has different shapes in the dynamic and fixed plans", m));
            }
        }
        let mut ty = String::from("Region");
        for (_, t) in &first.params {
            write!(ty, " → {}", t.lean()).unwrap();
        }
        write!(ty, " → {}", if first.fallible { format!("Option {}", first.ret.lean()) } else { first.ret.lean() }).unwrap();
        writeln!(out, "/-- `RegionHandler::{}` of the plan behind each `Region` -/", m).unwrap();
        writeln!(out, "def {} : {}", m, ty).unwrap();
        for w in &wiring {
            writeln!(out, "  | .{} => {}.{}", w.variant, w.variant, m).unwrap();
        }
        writeln!(out).unwrap();
    }
    Ok(())
}

// ================================================================================================
// generic small extractors (used by `Gen.RegionStatic` and `Gen.MacStatic`)

/// all functions named `fn_name` in impls of `type_name` (`None`: module-level functions)
fn find_method<'a>(files: &'a [File], type_name_: Option<&str>, trait_name: Option<&str>, fn_name: &str) -> Option<(&'a Signature, &'a Block, Option<&'a ItemImpl>)> {
    for it in flat_items(files) {
        match (it, type_name_) {
            (Item::Fn(f), None) if f.sig.ident == fn_name => return Some((&f.sig, &f.block, None)),
            (Item::Impl(im), Some(tn)) => {
                if type_name(&im.self_ty) != tn {
                    continue;
                }
                let tr = im.trait_.as_ref().map(|(_, p, _)| last_ident(p));
                if trait_name.is_some() && tr.as_deref() != trait_name {
                    continue;
                }
                for ii in &im.items {
                    if let ImplItem::Fn(f) = ii {
                        if f.sig.ident == fn_name {
                            return Some((&f.sig, &f.block, Some(im)));
                        }
                    }
                }
            }
            _ => {}
        }
    }
    None
}

fn emit_fn(out: &mut String, lean: &str, params: &[(String, Ty)], ret: &Ty, seq: &Seq) -> bool {
    let ps = params.iter().map(|(n, t)| format!(" ({} : {})", crate::tr::lean_ident(n), t.lean())).collect::<String>();
    let fallible = seq.fallible();
    if fallible {
        let mut body = String::new();
        ir::render_m(seq, 1, &mut body);
        writeln!(out, "def {}{} : Option {} := {}\n", lean, ps, ret.lean(), body).unwrap();
    } else {
        let mut body = String::new();
        ir::render_p(seq, 1, &mut body);
        writeln!(out, "def {}{} : {} :=\n  {}\n", lean, ps, ret.lean(), body).unwrap();
    }
    fallible
}

/// A function whose body is the construction of a newtype (`T(expr)` / `Self(expr)`), emitted as
/// the function computing the wrapped value; const-generic parameters of the impl become leading
/// parameters.  Registered under `T::f` so that callers translate.
fn newtype_fn(files: &[File], reg: &mut Registry, out: &mut String, ty_name: &str, trait_name: Option<&str>, fn_name: &str) -> Res<()> {
    let what = format!("{}::{}", ty_name, fn_name);
    let (sig, block, im) = find_method(files, Some(ty_name), trait_name, fn_name).ok_or(format!("{} not found", what))?;
    let st_item = flat_items(files)
        .into_iter()
        .find_map(|it| match it {
            Item::Struct(s) if s.ident == ty_name => Some(s),
            _ => None,
        })
        .ok_or(format!("struct {} not found", ty_name))?;
    let Fields::Unnamed(fu) = &st_item.fields else { return Err(format!("{} is not a newtype", ty_name)) };
    if fu.unnamed.len() != 1 {
        return Err(format!("{} is not a newtype", ty_name));
    }
    let e = single_tail_expr(block).ok_or(format!("{}: body is not a single expression", what))?;
    let (segs, args) = call_parts(e).ok_or(format!("{}: body is not `{}(..)`", what, ty_name))?;
    if segs.len() != 1 || (segs[0] != ty_name && segs[0] != "Self") || args.len() != 1 {
        return Err(format!("{}: body is not `{}(..)`", what, ty_name));
    }
    let lean = format!("{}.{}", ty_name, fn_name);
    let (params, ret, seq) = {
        let mut tr = new_tr(reg, Some(ty_name.to_string()), &lean);
        let fty = tr.ty(&fu.unnamed[0].ty).map_err(|e| format!("{}: {}", what, e))?;
        let mut params: Vec<(String, Ty)> = vec![];
        if let Some(im) = im {
            for g in &im.generics.params {
                if let GenericParam::Const(c) = g {
                    let t = int_ty(&type_name(&c.ty)).ok_or(format!("{}: const generic {} is not an integer", what, c.ident))?;
                    params.push((c.ident.to_string(), Ty::Int(t)));
                }
            }
        }
        for a in &sig.inputs {
            match a {
                FnArg::Typed(pt) => {
                    let Pat::Ident(i) = &*pt.pat else { return Err(format!("{}: unsupported parameter pattern", what)) };
                    params.push((i.ident.to_string(), tr.ty(&pt.ty).map_err(|e| format!("{}: {}", what, e))?));
                }
                FnArg::Receiver(_) => return Err(format!("{}: takes self", what)),
            }
        }
        let mut env: HashMap<String, Ty> = params.iter().cloned().collect();
        let mut st = vec![];
        let (term, _) = tr.ex(args[0], &mut env, &mut st, Some(fty.clone())).map_err(|e| format!("{}: {}", what, e))?;
        (params, fty, Seq { stmts: st, tail: Tail::Val(term) })
    };
    writeln!(out, "/-- `{}`: the value wrapped by the newtype it returns -/", what).unwrap();
    let fallible = emit_fn(out, &lean, &params, &ret, &seq);
    reg.fns.insert(format!("{}::{}", ty_name, fn_name), FnSig { lean, params, ret, fallible, muts: vec![] });
    Ok(())
}

/// `lorawan-encoding/src/types.rs`: the raw byte of a `DataRateRange`, the default `ChannelMask<N>`,
/// and the `N` the two plan structs instantiate it with
pub fn encoding_newtypes(files: &[File], _names: &[String], reg: &mut Registry, out: &mut String) -> Res<()> {
    newtype_fn(files, reg, out, "DataRateRange", None, "new_range")?;
    newtype_fn(files, reg, out, "ChannelMask", Some("Default"), "default")?;
    for plan in ["DynamicChannelPlan", "FixedChannelPlan"] {
        let s = flat_items(files)
            .into_iter()
            .find_map(|it| match it {
                Item::Struct(s) if s.ident == plan => Some(s),
                _ => None,
            })
            .ok_or(format!("struct {} not found", plan))?;
        let f = s.fields.iter().find(|f| f.ident.as_ref().map(|i| i == "channel_mask").unwrap_or(false)).ok_or(format!("{}: no field channel_mask", plan))?;
        let seg = type_last_seg(&f.ty).ok_or(format!("{}.channel_mask: not a path type", plan))?;
        if seg.ident != "ChannelMask" {
            return Err(format!("{}.channel_mask is not a ChannelMask", plan));
        }
        let ga = generic_args(seg);
        let [GenericArgument::Const(Expr::Lit(ExprLit { lit: Lit::Int(n), .. }))] = ga.as_slice() else {
            return Err(format!("{}.channel_mask: ChannelMask<N> with a non-literal N", plan));
        };
        writeln!(out, "/-- `{}.channel_mask : ChannelMask<{}>` -/", plan, n.base10_digits()).unwrap();
        writeln!(out, "def {}.CHANNEL_MASK_N : Int := {}\n", plan, n.base10_digits()).unwrap();
    }
    Ok(())
}

// ------------------------------------------------------------------------------------------------
// a comparison of a function body as a function of its operands

struct CmpSpec {
    ty_name: Option<&'static str>,
    fn_name: &'static str,
    /// the comparison is the first one (pre-order) whose source mentions all of these
    needles: &'static [&'static str],
    /// parameters (name, integer type), positional: the OPERANDS of the comparison in order of first
    /// appearance.  An operand is a maximal sub-expression that is not arithmetic over literals and
    /// known constants: a local variable, a field (`self.adr_ack_cnt`), a call (`cmd.payload_len()`).
    /// Named this way a rewrite that only introduces or removes a local (`let n = cmd.payload_len();`)
    /// yields the same generated function.
    params: &'static [(&'static str, &'static str)],
    lean: &'static str,
}

fn squash(e: &impl quote::ToTokens) -> String {
    quote::quote!(#e).to_string().chars().filter(|c| !c.is_whitespace()).collect()
}

fn is_cmp(op: &BinOp) -> bool {
    matches!(op, BinOp::Lt(_) | BinOp::Le(_) | BinOp::Gt(_) | BinOp::Ge(_) | BinOp::Eq(_) | BinOp::Ne(_))
}

fn comparison_fn(files: &[File], reg: &mut Registry, out: &mut String, spec: &CmpSpec) -> Res<()> {
    use syn::visit::Visit;
    use syn::visit_mut::VisitMut;
    let what = format!("{}{}", spec.ty_name.map(|t| format!("{}::", t)).unwrap_or_default(), spec.fn_name);
    let (_, block, _) = find_method(files, spec.ty_name, None, spec.fn_name).ok_or(format!("{} not found", what))?;
    struct Finder<'s> {
        needles: &'s [&'static str],
        found: Option<Expr>,
    }
    impl<'ast, 's> Visit<'ast> for Finder<'s> {
        fn visit_expr_binary(&mut self, b: &'ast ExprBinary) {
            if self.found.is_some() {
                return;
            }
            if is_cmp(&b.op) {
                let s = squash(b);
                if self.needles.iter().all(|n| s.contains(&n.chars().filter(|c| !c.is_whitespace()).collect::<String>())) {
                    self.found = Some(Expr::Binary(b.clone()));
                    return;
                }
            }
            syn::visit::visit_expr_binary(self, b);
        }
        fn visit_item_fn(&mut self, _: &'ast ItemFn) {}
    }
    let mut fd = Finder { needles: spec.needles, found: None };
    fd.visit_block(block);
    if fd.found.is_none() {
        // the comparison may have been moved into a helper method of the same type that the
        // function calls on `self` (an "extract method" rewrite): follow such calls, breadth first
        struct Calls(Vec<String>);
        impl<'ast> Visit<'ast> for Calls {
            fn visit_expr_method_call(&mut self, m: &'ast ExprMethodCall) {
                if squash(&m.receiver) == "self" {
                    self.0.push(m.method.to_string());
                }
                syn::visit::visit_expr_method_call(self, m);
            }
            fn visit_item_fn(&mut self, _: &'ast ItemFn) {}
        }
        let mut queue = Calls(vec![]);
        queue.visit_block(block);
        let mut seen: Vec<String> = vec![spec.fn_name.to_string()];
        let mut k = 0;
        while k < queue.0.len() && fd.found.is_none() && seen.len() < 32 {
            let name = queue.0[k].clone();
            k += 1;
            if seen.contains(&name) {
                continue;
            }
            seen.push(name.clone());
            if let Some((_, b, _)) = find_method(files, spec.ty_name, None, &name) {
                fd.visit_block(b);
                queue.visit_block(b);
            }
        }
    }
    let mut cmp = fd.found.ok_or(format!("{}: no comparison mentioning {:?}", what, spec.needles))?;
    let source = quote::quote!(#cmp).to_string();
    // operands → parameters, in order of first appearance
    struct Operands<'r> {
        reg: &'r Registry,
        seen: Vec<String>,
        names: Vec<String>,
        overflow: bool,
    }
    impl<'r> Operands<'r> {
        fn replace(&mut self, e: &mut Expr) {
            let key = squash(e);
            let k = match self.seen.iter().position(|s| *s == key) {
                Some(k) => k,
                None => {
                    self.seen.push(key);
                    self.seen.len() - 1
                }
            };
            match self.names.get(k) {
                Some(n) => {
                    let id = Ident::new(n, proc_macro2::Span::call_site());
                    *e = parse_quote!(#id);
                }
                None => self.overflow = true,
            }
        }
    }
    impl<'r> VisitMut for Operands<'r> {
        fn visit_expr_mut(&mut self, e: &mut Expr) {
            match e {
                Expr::Binary(_) | Expr::Paren(_) | Expr::Group(_) | Expr::Cast(_) | Expr::Unary(_) | Expr::Lit(_) | Expr::Reference(_) => syn::visit_mut::visit_expr_mut(self, e),
                Expr::Path(p) => {
                    // known: a registered constant or an enum variant; anything else (a local, `R::CONST`
                    // of a generic parameter) is an operand
                    let segs: Vec<String> = p.path.segments.iter().map(|s| s.ident.to_string()).collect();
                    let last = segs.last().cloned().unwrap_or_default();
                    let known = if segs.len() == 1 {
                        self.reg.consts.contains_key(&last)
                    } else {
                        let ty = &segs[segs.len() - 2];
                        self.reg.consts.contains_key(&format!("{}::{}", ty, last))
                            || self.reg.enums.get(ty).map(|v| v.iter().any(|(n, _)| *n == last)).unwrap_or(false)
                            || (ty.len() > 1 && self.reg.consts.contains_key(&last))
                    };
                    if !known {
                        self.replace(e);
                    }
                }
                _ => self.replace(e),
            }
        }
        // the target type of a cast is no operand
        fn visit_type_mut(&mut self, _: &mut Type) {}
    }
    let mut ops = Operands { reg, seen: vec![], names: spec.params.iter().map(|(n, _)| n.to_string()).collect(), overflow: false };
    ops.visit_expr_mut(&mut cmp);
    if ops.overflow || ops.seen.len() != spec.params.len() {
        return Err(format!("{}: the comparison `{}` has the operands {:?}, expected {} ({:?})", what, source, ops.seen, spec.params.len(), spec.params.iter().map(|p| p.0).collect::<Vec<_>>()));
    }
    let operand_doc = ops.seen.iter().zip(spec.params.iter()).map(|(s, (n, t))| format!("{} : {} = `{}`", n, t, s)).collect::<Vec<_>>().join(", ");
    let params: Vec<(String, Ty)> = spec.params.iter().map(|(n, t)| (n.to_string(), Ty::Int(int_ty(t).expect("CmpSpec: integer type")))).collect();
    let seq = {
        let mut tr = new_tr(reg, None, spec.lean);
        let mut env: HashMap<String, Ty> = params.iter().cloned().collect();
        let mut st = vec![];
        let (term, ty) = tr.ex(&cmp, &mut env, &mut st, Some(Ty::Bool)).map_err(|e| format!("{}: `{}`: {}", what, source, e))?;
        if ty != Ty::Bool {
            return Err(format!("{}: `{}` is not a bool", what, source));
        }
        Seq { stmts: st, tail: Tail::Val(term) }
    };
    writeln!(out, "/-- `{}`: the comparison `{}`,", what, source.replace('\n', " ")).unwrap();
    writeln!(out, "as a function of its operands {} -/", operand_doc).unwrap();
    emit_fn(out, spec.lean, &params, &Ty::Bool, &seq);
    Ok(())
}

// ------------------------------------------------------------------------------------------------
// Gen.MacStatic

/// `Uplink::add_mac_command`: `self.pending.len() + cmd.payload_len() < FOPTS_MAX_LEN`
pub fn add_mac_command_fits(files: &[File], _n: &[String], reg: &mut Registry, out: &mut String) -> Res<()> {
    comparison_fn(
        files,
        reg,
        out,
        &CmpSpec {
            ty_name: Some("Uplink"),
            fn_name: "add_mac_command",
            needles: &["FOPTS_MAX_LEN"],
            params: &[("pending_len", "usize"), ("payload_len", "usize")],
            lean: "Uplink.add_mac_command.fits",
        },
    )
}

/// `Session::handle_rx`: `payload_len > max_payload_len as usize + MHDR_LEN + MIC_LEN`
pub fn handle_rx_oversized(files: &[File], _n: &[String], reg: &mut Registry, out: &mut String) -> Res<()> {
    comparison_fn(
        files,
        reg,
        out,
        &CmpSpec {
            ty_name: Some("Session"),
            fn_name: "handle_rx",
            needles: &["max_payload_len"],
            params: &[("payload_len", "usize"), ("max_payload_len", "u8")],
            lean: "Session.handle_rx.oversized",
        },
    )
}

/// `Session::rx2_complete`: `self.adr_ack_cnt >= (ADR_ACK_LIMIT + ADR_ACK_DELAY) as u32`
pub fn rx2_complete_backoff_due(files: &[File], _n: &[String], reg: &mut Registry, out: &mut String) -> Res<()> {
    comparison_fn(
        files,
        reg,
        out,
        &CmpSpec {
            ty_name: Some("Session"),
            fn_name: "rx2_complete",
            needles: &["ADR_ACK_LIMIT", "ADR_ACK_DELAY"],
            params: &[("adr_ack_cnt", "u32")],
            lean: "Session.rx2_complete.backoff_due",
        },
    )
}

/// `Session::prepare_buffer`: `self.adr_ack_cnt >= ADR_ACK_LIMIT as u32`
pub fn prepare_buffer_adr_ack_req(files: &[File], _n: &[String], reg: &mut Registry, out: &mut String) -> Res<()> {
    comparison_fn(
        files,
        reg,
        out,
        &CmpSpec {
            ty_name: Some("Session"),
            fn_name: "prepare_buffer",
            needles: &["ADR_ACK_LIMIT"],
            params: &[("adr_ack_cnt", "u32")],
            lean: "Session.prepare_buffer.adr_ack_limit_reached",
        },
    )
}

/// `Session::rx2_complete` / `handle_rx`: `self.fcnt_up == 0xFFFF_FFFF`
pub fn fcnt_up_exhausted(files: &[File], _n: &[String], reg: &mut Registry, out: &mut String) -> Res<()> {
    for (f, lean) in [("rx2_complete", "Session.rx2_complete.fcnt_up_exhausted"), ("handle_rx", "Session.handle_rx.fcnt_up_exhausted")] {
        comparison_fn(
            files,
            reg,
            out,
            &CmpSpec { ty_name: Some("Session"), fn_name: f, needles: &["self.fcnt_up"], params: &[("fcnt_up", "u32")], lean },
        )?;
    }
    Ok(())
}

/// the variants named by the `matches!(cmd, A(_) | B(_) | ..)` filter of `Uplink::clear_mac_commands`
pub fn retained_answers(files: &[File], _n: &[String], _reg: &mut Registry, out: &mut String) -> Res<()> {
    use syn::visit::Visit;
    let (_, block, _) = find_method(files, Some("Uplink"), None, "clear_mac_commands").ok_or("Uplink::clear_mac_commands not found")?;
    struct V(Vec<Macro>);
    impl<'ast> Visit<'ast> for V {
        fn visit_macro(&mut self, m: &'ast Macro) {
            if last_ident(&m.path) == "matches" {
                self.0.push(m.clone());
            }
        }
    }
    let mut v = V(vec![]);
    v.visit_block(block);
    let [m] = v.0.as_slice() else {
        return Err(format!("Uplink::clear_mac_commands: expected exactly one matches!(..), found {}", v.0.len()));
    };
    let (_, pat) = m
        .parse_body_with(|input: syn::parse::ParseStream| {
            let e: Expr = input.parse()?;
            input.parse::<Token![,]>()?;
            let p = Pat::parse_multi_with_leading_vert(input)?;
            if !input.is_empty() {
                return Err(input.error("matches! with a guard"));
            }
            Ok((e, p))
        })
        .map_err(|e| format!("Uplink::clear_mac_commands: matches!: {}", e))?;
    let cases: Vec<&Pat> = match &pat {
        Pat::Or(o) => o.cases.iter().collect(),
        p => vec![p],
    };
    let mut names = vec![];
    for c in cases {
        match c {
            Pat::TupleStruct(ts) if ts.elems.len() == 1 && matches!(ts.elems[0], Pat::Wild(_)) => names.push(last_ident(&ts.path)),
            _ => return Err("Uplink::clear_mac_commands: matches! alternative is not `Variant(_)`".into()),
        }
    }
    writeln!(out, "/-- `Uplink::clear_mac_commands(true)`: the `UplinkMacCommand` variants its `matches!` filter retains -/").unwrap();
    writeln!(out, "def Uplink.clear_mac_commands.retained : List String := [{}]\n", names.iter().map(|n| format!("{:?}", n)).collect::<Vec<_>>().join(", ")).unwrap();
    Ok(())
}

/// A checked setter `fn set_x(&mut self, v: T) -> Result<&mut Self, E> { guards returning Err; self.data[k] = e; Ok(self) }`
/// as the function `v ↦ Option byte` (`none` = refused) plus the index `k`.
fn setter_value(files: &[File], reg: &mut Registry, out: &mut String, ty_name: &str, fn_name: &str) -> Res<()> {
    use syn::visit_mut::VisitMut;
    let what = format!("{}::{}", ty_name, fn_name);
    let (sig, block, _) = find_method(files, Some(ty_name), None, fn_name).ok_or(format!("{} not found", what))?;
    let mut stmts: Vec<Stmt> = vec![];
    let mut index: Option<Expr> = None;
    let n = block.stmts.len();
    struct ErrToNone(bool);
    impl VisitMut for ErrToNone {
        fn visit_expr_return_mut(&mut self, r: &mut ExprReturn) {
            let is_err = r.expr.as_ref().and_then(|e| call_parts(e)).map(|(s, _)| s.last().map(|x| x == "Err").unwrap_or(false)).unwrap_or(false);
            if is_err {
                r.expr = Some(Box::new(parse_quote!(None)));
            } else {
                self.0 = true;
            }
        }
    }
    for (i, s) in block.stmts.iter().enumerate() {
        match s {
            Stmt::Expr(Expr::If(_), _) if i + 2 < n => {
                let mut s2 = s.clone();
                let mut v = ErrToNone(false);
                v.visit_stmt_mut(&mut s2);
                if v.0 {
                    return Err(format!("{}: a guard returns something other than Err(..)", what));
                }
                stmts.push(s2);
            }
            Stmt::Expr(Expr::Assign(a), Some(_)) if i + 2 == n => {
                let Expr::Index(ix) = &*a.left else { return Err(format!("{}: assignment target is not self.data[k]", what)) };
                if squash(&ix.expr) != "self.data" {
                    return Err(format!("{}: assignment target is not self.data[k]", what));
                }
                index = Some((*ix.index).clone());
                let rhs = &a.right;
                stmts.push(parse_quote!(return Some(#rhs);));
            }
            Stmt::Expr(e, None) if i + 1 == n => {
                if squash(e) != "Ok(self)" {
                    return Err(format!("{}: does not end in Ok(self)", what));
                }
            }
            _ => return Err(format!("{}: unsupported statement shape for a checked setter", what)),
        }
    }
    let index = index.ok_or(format!("{}: no `self.data[k] = ..` assignment", what))?;
    let mut sig2 = without_receiver(sig);
    sig2.output = parse_quote!(-> Option<u8>);
    let blk = Block { brace_token: Default::default(), stmts };
    let lean = format!("{}.{}.byte", ty_name, fn_name);
    let (text, extra, idx_term) = {
        let mut tr = new_tr(reg, None, &lean);
        let (text, _) = tr.function(&sig2, &blk, &lean).map_err(|e| format!("{}: {}", what, e))?;
        let mut st = vec![];
        let mut env = HashMap::new();
        let (t, _) = tr.ex(&index, &mut env, &mut st, Some(Ty::Int("usize"))).map_err(|e| format!("{}: index: {}", what, e))?;
        if !st.is_empty() {
            return Err(format!("{}: index is not a literal", what));
        }
        (text, tr.extra_defs, t)
    };
    for d in extra {
        out.push_str(&d);
        out.push('\n');
    }
    writeln!(out, "/-- `{}`: the byte it stores in `self.data[{}]` (`some none`: refused with `Err`; outer `none`: panic) -/", what, idx_term).unwrap();
    out.push_str(&text);
    out.push('\n');
    writeln!(out, "def {}.{}.index : Int := {}\n", ty_name, fn_name, idx_term).unwrap();
    Ok(())
}

pub fn dev_status_margin(files: &[File], _n: &[String], reg: &mut Registry, out: &mut String) -> Res<()> {
    setter_value(files, reg, out, "DevStatusAnsCreator", "set_margin")
}

/// The `Configuration { .. }` literal inside `Mac::new`, as a function of the local variables it reads.
pub fn mac_new_configuration(files: &[File], _n: &[String], reg: &mut Registry, out: &mut String) -> Res<()> {
    use syn::visit::Visit;
    let (_, block, _) = find_method(files, Some("Mac"), None, "new").ok_or("Mac::new not found")?;
    struct V(Vec<ExprStruct>);
    impl<'ast> Visit<'ast> for V {
        fn visit_expr_struct(&mut self, s: &'ast ExprStruct) {
            if last_ident(&s.path) == "Configuration" {
                self.0.push(s.clone());
            }
            syn::visit::visit_expr_struct(self, s);
        }
    }
    let mut v = V(vec![]);
    v.visit_block(block);
    let [lit] = v.0.as_slice() else { return Err(format!("Mac::new: expected exactly one Configuration {{..}} literal, found {}", v.0.len())) };
    let fields = reg.structs.get("Configuration").ok_or("struct Configuration must be translated first")?.clone();
    // local variables read by the literal become parameters, typed by the field they initialise
    let mut params: Vec<(String, Ty)> = vec![];
    for fv in &lit.fields {
        if let Some(id) = single_ident(&fv.expr) {
            if !reg.consts.contains_key(&id) && id != "None" {
                let fname = match &fv.member {
                    Member::Named(i) => i.to_string(),
                    _ => return Err("Mac::new: tuple field".into()),
                };
                let fty = fields.iter().find(|(n, _)| *n == fname).ok_or(format!("Mac::new: unknown field {}", fname))?.1.clone();
                params.push((id, fty));
            }
        }
    }
    let lean = "Mac.new.configuration";
    let seq = {
        let mut tr = new_tr(reg, None, lean);
        let mut env: HashMap<String, Ty> = params.iter().cloned().collect();
        let mut st = vec![];
        let (term, _) = tr.ex(&Expr::Struct(lit.clone()), &mut env, &mut st, Some(Ty::Named("Configuration".into()))).map_err(|e| format!("Mac::new: Configuration literal: {}", e))?;
        Seq { stmts: st, tail: Tail::Val(term) }
    };
    if lit.fields.len() != fields.len() {
        return Err("Mac::new: the Configuration literal does not initialise every field".into());
    }
    writeln!(out, "/-- the `Configuration {{ .. }}` literal of `Mac::new` -/").unwrap();
    emit_fn(out, lean, &params, &Ty::Named("Configuration".into()), &seq);
    Ok(())
}

/// `DynamicChannelPlan::process_join_accept`: the data-rate range `Channel::new(value, lo, hi)` gives
/// a channel created from a CFList frequency
pub fn cflist_channel(files: &[File], _n: &[String], reg: &mut Registry, out: &mut String) -> Res<()> {
    use syn::visit::Visit;
    let (_, block, _) = find_method(files, Some("DynamicChannelPlan"), Some("RegionHandler"), "process_join_accept").ok_or("DynamicChannelPlan::process_join_accept not found")?;
    struct V(Vec<ExprCall>);
    impl<'ast> Visit<'ast> for V {
        fn visit_expr_call(&mut self, c: &'ast ExprCall) {
            if let Some((segs, args)) = call_parts(&Expr::Call(c.clone())) {
                if segs.len() >= 2 && segs[segs.len() - 2] == "Channel" && segs[segs.len() - 1] == "new" && args.len() == 3 {
                    self.0.push(c.clone());
                }
            }
            syn::visit::visit_expr_call(self, c);
        }
    }
    let mut v = V(vec![]);
    v.visit_block(block);
    let [c] = v.0.as_slice() else { return Err(format!("process_join_accept: expected exactly one Channel::new(..), found {}", v.0.len())) };
    let (lo, hi) = {
        let mut tr = new_tr(reg, None, "");
        let mut env = HashMap::new();
        let mut st = vec![];
        let (lo, tlo) = tr.ex(&c.args[1], &mut env, &mut st, Some(Ty::Named("DR".into()))).map_err(|e| format!("process_join_accept: {}", e))?;
        let (hi, thi) = tr.ex(&c.args[2], &mut env, &mut st, Some(Ty::Named("DR".into()))).map_err(|e| format!("process_join_accept: {}", e))?;
        if !st.is_empty() || tlo != Ty::Named("DR".into()) || thi != Ty::Named("DR".into()) {
            return Err("process_join_accept: the data-rate bounds of the CFList channel are not DR constants".into());
        }
        (lo, hi)
    };
    writeln!(out, "/-- `DynamicChannelPlan::process_join_accept`: a CFList frequency becomes `Channel::new(value, {}, {})` -/", lo, hi).unwrap();
    writeln!(out, "def DynamicChannelPlan.process_join_accept.cflist_dr_min : DR := {}\n", lo).unwrap();
    writeln!(out, "def DynamicChannelPlan.process_join_accept.cflist_dr_max : DR := {}\n", hi).unwrap();
    Ok(())
}

/// the index / data-rate range tests of `DynamicChannelPlan::handle_new_channel` and `channel_dl_update`
pub fn new_channel_guards(files: &[File], _n: &[String], reg: &mut Registry, out: &mut String) -> Res<()> {
    for spec in [
        CmpSpec {
            ty_name: Some("DynamicChannelPlan"),
            fn_name: "handle_new_channel",
            needles: &["NUM_JOIN_CHANNELS"],
            params: &[("index", "u8"), ("num_join_channels", "u8")],
            lean: "DynamicChannelPlan.handle_new_channel.index_is_join_channel",
        },
        CmpSpec {
            ty_name: Some("DynamicChannelPlan"),
            fn_name: "handle_new_channel",
            needles: &["NUM_CHANNELS_DYNAMIC"],
            params: &[("index", "u8")],
            lean: "DynamicChannelPlan.handle_new_channel.index_past_plan",
        },
        CmpSpec {
            ty_name: Some("DynamicChannelPlan"),
            fn_name: "handle_new_channel",
            needles: &["NUM_DATARATES"],
            params: &[("max_data_rate", "u8")],
            lean: "DynamicChannelPlan.handle_new_channel.max_dr_in_table",
        },
        CmpSpec {
            ty_name: Some("DynamicChannelPlan"),
            fn_name: "channel_dl_update",
            needles: &["NUM_CHANNELS_DYNAMIC"],
            params: &[("index", "u8")],
            lean: "DynamicChannelPlan.channel_dl_update.index_past_plan",
        },
    ] {
        comparison_fn(files, reg, out, &spec)?;
    }
    Ok(())
}

// ------------------------------------------------------------------------------------------------
// the MAC hook facade mirrors two setters of the front-ends: the three bodies, normalised

/// `Device::set_adr` / `Device::set_datarate` of the async front-end (files[0]), of the non-blocking
/// front-end (files[1]) and their mirrors in the cfg-guarded facade `VerifMac` (files[2]), as token
/// strings with the parameters renamed positionally, `self.shared.mac` written `self.mac` and the
/// final `;` dropped: the harness drives MAC-level histories through the facade, so the facade must
/// say what the front-ends say.
pub fn frontend_mirrors(files: &[File], _n: &[String], _reg: &mut Registry, out: &mut String) -> Res<()> {
    if files.len() < 3 {
        return Err("frontend_mirrors: expected async_device/mod.rs, nb_device/mod.rs, mac/verif.rs".into());
    }
    let norm = |sig: &Signature, block: &Block| -> String {
        let params: Vec<String> = sig
            .inputs
            .iter()
            .filter_map(|a| if let FnArg::Typed(pt) = a { if let Pat::Ident(i) = &*pt.pat { Some(i.ident.to_string()) } else { None } } else { None })
            .collect();
        let stmts = &block.stmts;
        let text = quote::quote!(#(#stmts)*).to_string();
        let mut toks: Vec<String> = text.split_whitespace().map(|t| match params.iter().position(|p| p == t) { Some(k) => format!("p{}", k), None => t.to_string() }).collect();
        // self . shared . mac  →  self . mac
        let mut k = 0;
        while k + 4 < toks.len() {
            if toks[k] == "self" && toks[k + 1] == "." && toks[k + 2] == "shared" && toks[k + 3] == "." && toks[k + 4] == "mac" {
                toks.drain(k + 1..k + 3);
            }
            k += 1;
        }
        while toks.last().map(|t| t == ";").unwrap_or(false) {
            toks.pop();
        }
        toks.join(" ")
    };
    for f in ["set_adr", "set_datarate"] {
        for (k, (who, ty)) in [("async", "Device"), ("nb", "Device"), ("hook", "VerifMac")].into_iter().enumerate() {
            let (sig, block, _) = find_method(&files[k..k + 1], Some(ty), None, f).ok_or(format!("{}::{} not found in file {}", ty, f, k))?;
            writeln!(out, "/-- body of `{}::{}` ({}), normalised -/", ty, f, who).unwrap();
            writeln!(out, "def {}_{} : String := {:?}\n", who, f, norm(sig, block)).unwrap();
        }
    }
    Ok(())
}

// ------------------------------------------------------------------------------------------------
// module-level constants referenced by a translated body but not selected by the unit

/// Replace, in `block` / `expr`, every reference to a module-level `const NAME: <int> = <expr>` of the
/// unit's files whose value folds to an integer literal — and every `NAME[<literal>]` of a
/// module-level const array of such values — by the typed literal, unless the registry already
/// knows `NAME` (a constant the unit selects keeps its name in the generated text). A maintainer
/// hoisting a literal into a `const` then leaves the generated model unchanged.
pub struct ConstInliner<'a> {
    pub files: &'a [File],
    pub known: Vec<String>,
}

impl<'a> ConstInliner<'a> {
    pub fn new(files: &'a [File], reg: &Registry) -> Self {
        ConstInliner { files, known: reg.consts.keys().cloned().collect() }
    }
    fn find_const(&self, name: &str) -> Option<&'a ItemConst> {
        flat_items(self.files).into_iter().find_map(|it| match it {
            Item::Const(c) if c.ident == name => Some(c),
            _ => None,
        })
    }
    fn int_suffix(ty: &Type) -> Option<String> {
        let n = type_name(ty);
        crate::tr::int_ty(&n).map(|s| s.to_string())
    }
    fn value_of(&self, e: &Expr, depth: usize) -> Option<i128> {
        if depth > 6 {
            return None;
        }
        match e {
            Expr::Lit(ExprLit { lit: Lit::Int(i), .. }) => i.base10_parse::<i128>().ok(),
            Expr::Paren(p) => self.value_of(&p.expr, depth),
            Expr::Group(g) => self.value_of(&g.expr, depth),
            Expr::Path(p) if p.path.segments.len() == 1 => {
                let c = self.find_const(&p.path.segments[0].ident.to_string())?;
                Self::int_suffix(&c.ty)?;
                self.value_of(&c.expr, depth + 1)
            }
            Expr::Binary(b) => {
                let (l, r) = (self.value_of(&b.left, depth)?, self.value_of(&b.right, depth)?);
                match b.op {
                    BinOp::Add(_) => l.checked_add(r),
                    BinOp::Sub(_) => l.checked_sub(r),
                    BinOp::Mul(_) => l.checked_mul(r),
                    BinOp::Shl(_) if (0..64).contains(&r) => Some(l << r),
                    BinOp::BitOr(_) => Some(l | r),
                    _ => None,
                }
            }
            _ => None,
        }
    }
    fn literal(v: i128, suffix: &str) -> Option<Expr> {
        let (lo, hi) = crate::tr::int_range(crate::tr::int_ty(suffix)?);
        if v < lo || v > hi {
            return None;
        }
        let lit = syn::LitInt::new(&format!("{}{}", v, suffix), proc_macro2::Span::call_site());
        Some(Expr::Lit(ExprLit { attrs: vec![], lit: Lit::Int(lit) }))
    }
    fn replacement(&self, e: &Expr) -> Option<Expr> {
        match e {
            Expr::Path(p) if p.path.segments.len() == 1 => {
                let name = p.path.segments[0].ident.to_string();
                if self.known.contains(&name) || !name.chars().any(|c| c.is_ascii_uppercase()) || name.chars().any(|c| c.is_ascii_lowercase()) {
                    return None;
                }
                let c = self.find_const(&name)?;
                let suffix = Self::int_suffix(&c.ty)?;
                Self::literal(self.value_of(&c.expr, 0)?, &suffix)
            }
            Expr::Index(ix) => {
                let Expr::Path(p) = &*ix.expr else { return None };
                if p.path.segments.len() != 1 {
                    return None;
                }
                let name = p.path.segments[0].ident.to_string();
                if self.known.contains(&name) {
                    return None;
                }
                let c = self.find_const(&name)?;
                let Type::Array(at) = &*c.ty else { return None };
                let suffix = Self::int_suffix(&at.elem)?;
                let Expr::Array(arr) = &*c.expr else { return None };
                let k = self.value_of(&ix.index, 0)?;
                let el = arr.elems.iter().nth(usize::try_from(k).ok()?)?;
                Self::literal(self.value_of(el, 0)?, &suffix)
            }
            _ => None,
        }
    }
}

impl<'a> syn::visit_mut::VisitMut for ConstInliner<'a> {
    fn visit_expr_mut(&mut self, e: &mut Expr) {
        if let Some(r) = self.replacement(e) {
            *e = r;
            return;
        }
        syn::visit_mut::visit_expr_mut(self, e);
    }
    fn visit_item_fn_mut(&mut self, f: &mut ItemFn) {
        syn::visit_mut::visit_item_fn_mut(self, f);
    }
}

pub fn inline_consts_block(files: &[File], reg: &Registry, b: &Block) -> Block {
    use syn::visit_mut::VisitMut;
    let mut b = b.clone();
    ConstInliner::new(files, reg).visit_block_mut(&mut b);
    b
}

pub fn inline_consts_expr(files: &[File], reg: &Registry, e: &Expr) -> Expr {
    use syn::visit_mut::VisitMut;
    let mut e = e.clone();
    ConstInliner::new(files, reg).visit_expr_mut(&mut e);
    e
}
