//! The list of translation units: which items of which /repo source files become which Gen module.
use crate::{Sel::*, Unit};

pub fn units() -> Vec<Unit> {
    vec![Unit {
        module: "Gen.Modulation",
        file: "lora-modulation/src/lib.rs",
        more_files: vec![],
        imports: vec![],
        items: vec![
            Enum("Bandwidth"),
            Fn("Bandwidth::hz"),
            FromImpl("Bandwidth", "u32"),
            Enum("SpreadingFactor"),
            Fn("SpreadingFactor::factor"),
            FromImpl("SpreadingFactor", "u32"),
            Enum("CodingRate"),
            Fn("CodingRate::denom"),
            Struct("BaseBandModulationParams"),
            Fn("BaseBandModulationParams::new"),
            Fn("BaseBandModulationParams::delay_in_symbols"),
            Fn("BaseBandModulationParams::symbols_to_ms"),
            Fn("BaseBandModulationParams::time_on_air_us"),
        ],
    },
    // C03 / C19: (cid, len) tables of the six CommandHandler enums (tables.rs::cmd_tables)
    Unit {
        module: "Gen.CmdTables",
        file: "lorawan-encoding/src/maccommands.rs",
        more_files: vec![],
        imports: vec![],
        items: vec![Custom(crate::tables::cmd_tables)],
    }]
}
