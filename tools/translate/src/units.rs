//! The list of translation units: which items of which /repo source files become which Gen module.
use crate::{Sel::*, Unit};

pub fn units() -> Vec<Unit> {
    vec![Unit {
        module: "Gen.Modulation",
        file: "lora-modulation/src/lib.rs",
        more_files: vec![],
        imports: vec![],
        items: vec![
            Enum("Bandwidth"),
            Fn("Bandwidth::hz"),
            FromImpl("Bandwidth", "u32"),
            Enum("SpreadingFactor"),
            Fn("SpreadingFactor::factor"),
            FromImpl("SpreadingFactor", "u32"),
            Enum("CodingRate"),
            Fn("CodingRate::denom"),
            Struct("BaseBandModulationParams"),
            Fn("BaseBandModulationParams::new"),
            Fn("BaseBandModulationParams::delay_in_symbols"),
            Fn("BaseBandModulationParams::symbols_to_ms"),
            Fn("BaseBandModulationParams::time_on_air_us"),
        ],
    },
    // ---- builder B (C15/C17): pure integer functions and tables of the lora-phy drivers
    Unit {
        module: "Gen.PhyArith",
        file: "lora-phy/src/sx126x/variant.rs",
        more_files: vec!["lora-phy/src/sx126x/mod.rs", "lora-phy/src/sx127x/mod.rs"],
        imports: vec![],
        items: vec![
            // SX126x PA tables and their lookup
            Struct("PaTableEntry"),
            Struct("PaTable"),
            Fn("PaTable::lookup"),
            Const("SX1261_PA_TABLE"),
            Const("SX1262_PA_TABLE"),
            Const("STM32WL_HP_PA_TABLE"),
            // SX126x synthesiser word
            Const("SX126X_XTAL_FREQ"),
            Const("SX126X_PLL_STEP_SHIFT_AMOUNT"),
            Const("SX126X_PLL_STEP_SCALED"),
            Const("SX126X_MAX_LORA_SYMB_NUM_TIMEOUT"),
            Fn("Sx126x::convert_freq_in_hz_to_pll_step"),
            // SX127x synthesiser word, RSSI linearisation, limits and offsets
            Const("SX127X_MIN_LORA_SYMB_NUM_TIMEOUT"),
            Const("SX127X_MAX_LORA_SYMB_NUM_TIMEOUT"),
            Const("SX1272_RSSI_OFFSET"),
            Const("SX1276_RSSI_OFFSET_LF"),
            Const("SX1276_RSSI_OFFSET_HF"),
            Const("SX1276_RF_MID_BAND_THRESH"),
            Fn("freq_to_pll_step"),
            Fn("pll_step_to_freq"),
            Fn("linearize_rssi"),
        ],
    }]
}
