//! The list of translation units: which items of which /repo source files become which Gen module.
use crate::{Sel::*, Unit};

pub fn units() -> Vec<Unit> {
    vec![Unit {
        module: "Gen.Modulation",
        file: "lora-modulation/src/lib.rs",
        more_files: vec![],
        imports: vec![],
        items: vec![
            Enum("Bandwidth"),
            Fn("Bandwidth::hz"),
            FromImpl("Bandwidth", "u32"),
            Enum("SpreadingFactor"),
            Fn("SpreadingFactor::factor"),
            FromImpl("SpreadingFactor", "u32"),
            Enum("CodingRate"),
            Fn("CodingRate::denom"),
            Struct("BaseBandModulationParams"),
            Fn("BaseBandModulationParams::new"),
            Fn("BaseBandModulationParams::delay_in_symbols"),
            Fn("BaseBandModulationParams::symbols_to_ms"),
            Fn("BaseBandModulationParams::time_on_air_us"),
        ],
    },
        Unit {
            module: "Gen.Session",
            file: "lorawan-device/src/mac/session.rs",
            more_files: vec!["lorawan-device/src/region/constants.rs", "lorawan-device/src/mac/mod.rs"],
            imports: vec![],
            items: vec![
                Const("MAX_FCNT_GAP"),
                Const("ADR_ACK_LIMIT"),
                Const("ADR_ACK_DELAY"),
                Const("RECEIVE_DELAY1"),
                Const("JOIN_ACCEPT_DELAY1"),
                Const("JOIN_ACCEPT_DELAY2"),
                Fn("next_fcnt_down"),
                Fn("del_to_delay_ms"),
            ],
        },
        Unit {
            module: "Gen.Region",
            file: "lorawan-device/src/region/mod.rs",
            more_files: vec![
                "lorawan-device/src/region/constants.rs",
                "lorawan-device/src/mac/mod.rs",
                "lorawan-encoding/src/types.rs",
                "lora-modulation/src/lib.rs",
                "lorawan-device/src/region/dynamic_channel_plans/eu868.rs",
                "lorawan-device/src/region/dynamic_channel_plans/eu433.rs",
                "lorawan-device/src/region/dynamic_channel_plans/in865.rs",
                "lorawan-device/src/region/dynamic_channel_plans/as923.rs",
                "lorawan-device/src/region/fixed_channel_plans/us915/mod.rs",
                "lorawan-device/src/region/fixed_channel_plans/us915/datarates.rs",
                "lorawan-device/src/region/fixed_channel_plans/us915/frequencies.rs",
                "lorawan-device/src/region/fixed_channel_plans/au915/mod.rs",
                "lorawan-device/src/region/fixed_channel_plans/au915/datarates.rs",
                "lorawan-device/src/region/fixed_channel_plans/au915/frequencies.rs",
            ],
            imports: vec!["LoraVerif.Gen.Modulation"],
            items: vec![
                ExternEnum("Bandwidth"),
                ExternEnum("SpreadingFactor"),
                Const("NUM_DATARATES"),
                Const("NUM_CHANNELS_DYNAMIC"),
                Enum("Window"),
                Enum("DR"),
                FromImpl("u8", "DR"),
                Fn("DR::offset_sub"),
                Struct("Datarate"),
                // EU868
                ConstAs("eu868.rs", "MAX_EIRP", "EU868_MAX_EIRP"),
                ConstAs("eu868.rs", "DATARATES", "EU868_DATARATES"),
                TraitFn("ChannelRegion", "EU868Region", "tx_power_adjust"),
                TraitFn("DynamicChannelRegion", "EU868Region", "get_rx_datarate"),
                // EU433
                ConstAs("eu433.rs", "MAX_EIRP", "EU433_MAX_EIRP"),
                ConstAs("eu433.rs", "DATARATES", "EU433_DATARATES"),
                TraitFn("ChannelRegion", "EU433Region", "tx_power_adjust"),
                TraitFn("DynamicChannelRegion", "EU433Region", "get_rx_datarate"),
                // IN865
                ConstAs("in865.rs", "MAX_EIRP", "IN865_MAX_EIRP"),
                ConstAs("in865.rs", "DATARATES", "IN865_DATARATES"),
                TraitFn("ChannelRegion", "IN865Region", "tx_power_adjust"),
                TraitFn("DynamicChannelRegion", "IN865Region", "get_rx_datarate"),
                // AS923 (four sub-plans share tables and rules)
                ConstAs("as923.rs", "MAX_EIRP", "AS923_MAX_EIRP"),
                ConstAs("as923.rs", "DATARATES", "AS923_DATARATES"),
                TraitFn("ChannelRegion", "AS923Region", "tx_power_adjust"),
                TraitFn("DynamicChannelRegion", "AS923Region", "get_rx_datarate"),
                // US915
                ConstAs("us915/mod.rs", "US_DBM", "US915_US_DBM"),
                ConstAs("us915/mod.rs", "MAX_EIRP", "US915_MAX_EIRP"),
                ConstAs("us915/datarates.rs", "DATARATES", "US915_DATARATES"),
                ConstAs("us915/frequencies.rs", "UPLINK_CHANNEL_MAP", "US915_UPLINK_CHANNEL_MAP"),
                ConstAs("us915/frequencies.rs", "DOWNLINK_CHANNEL_MAP", "US915_DOWNLINK_CHANNEL_MAP"),
                TraitFn("ChannelRegion", "US915Region", "tx_power_adjust"),
                TraitFn("FixedChannelRegion", "US915Region", "get_rx_datarate"),
                // AU915
                ConstAs("au915/mod.rs", "MAX_EIRP", "AU915_MAX_EIRP"),
                ConstAs("au915/datarates.rs", "DATARATES", "AU915_DATARATES"),
                ConstAs("au915/frequencies.rs", "UPLINK_CHANNEL_MAP", "AU915_UPLINK_CHANNEL_MAP"),
                ConstAs("au915/frequencies.rs", "DOWNLINK_CHANNEL_MAP", "AU915_DOWNLINK_CHANNEL_MAP"),
                TraitFn("ChannelRegion", "AU915Region", "tx_power_adjust"),
                TraitFn("FixedChannelRegion", "AU915Region", "get_rx_datarate"),
            ],
        },
    // ---- builder B (C15/C17): pure integer functions and tables of the lora-phy drivers
    Unit {
        module: "Gen.PhyArith",
        file: "lora-phy/src/sx126x/variant.rs",
        more_files: vec!["lora-phy/src/sx126x/mod.rs", "lora-phy/src/sx127x/mod.rs"],
        imports: vec![],
        items: vec![
            // SX126x PA tables and their lookup
            Struct("PaTableEntry"),
            Struct("PaTable"),
            Fn("PaTable::lookup"),
            Const("SX1261_PA_TABLE"),
            Const("SX1262_PA_TABLE"),
            Const("STM32WL_HP_PA_TABLE"),
            // SX126x synthesiser word
            Const("SX126X_XTAL_FREQ"),
            Const("SX126X_PLL_STEP_SHIFT_AMOUNT"),
            Const("SX126X_PLL_STEP_SCALED"),
            Const("SX126X_MAX_LORA_SYMB_NUM_TIMEOUT"),
            Fn("Sx126x::convert_freq_in_hz_to_pll_step"),
            // SX127x synthesiser word, RSSI linearisation, limits and offsets
            Const("SX127X_MIN_LORA_SYMB_NUM_TIMEOUT"),
            Const("SX127X_MAX_LORA_SYMB_NUM_TIMEOUT"),
            Const("SX1272_RSSI_OFFSET"),
            Const("SX1276_RSSI_OFFSET_LF"),
            Const("SX1276_RSSI_OFFSET_HF"),
            Const("SX1276_RF_MID_BAND_THRESH"),
            Fn("freq_to_pll_step"),
            Fn("pll_step_to_freq"),
            Fn("linearize_rssi"),
        ],
    },
    // C03 / C19: (cid, len) tables of the six CommandHandler enums (tables.rs::cmd_tables)
    Unit {
        module: "Gen.CmdTables",
        file: "lorawan-encoding/src/maccommands.rs",
        more_files: vec![],
        imports: vec![],
        items: vec![Custom(crate::tables::cmd_tables)],
    },
    // ---- builder D (C13/C14): opcodes, registers, IRQ masks and code tables of the two PHY drivers
    Unit {
        module: "Gen.PhyCodes126",
        file: "lora-phy/src/sx126x/radio_kind_params.rs",
        more_files: vec!["lora-modulation/src/lib.rs"],
        imports: vec![],
        items: vec![
            Enum("Bandwidth"),
            Fn("Bandwidth::hz"),
            Enum("SpreadingFactor"),
            Enum("CodingRate"),
            Enum("PacketType"),
            Fn("PacketType::value"),
            Enum("IrqMask"),
            Fn("IrqMask::value"),
            Fn("IrqMask::is_set"),
            Enum("Register"),
            Fn("Register::addr1"),
            Fn("Register::addr2"),
            Enum("OpCode"),
            Fn("OpCode::value"),
            Enum("StandbyMode"),
            Fn("StandbyMode::value"),
            Enum("RegulatorMode"),
            Fn("RegulatorMode::value"),
            Enum("TcxoCtrlVoltage"),
            Fn("TcxoCtrlVoltage::value"),
            Enum("RampTime"),
            Fn("RampTime::value"),
            Enum("CADSymbols"),
            Fn("CADSymbols::value"),
            Struct("SleepParams"),
            Fn("SleepParams::value"),
            Custom(crate::tables::d_sf_value),
            Custom(crate::tables::d_bw_value),
            Custom(crate::tables::d_cr_value),
        ],
    },
    Unit {
        module: "Gen.PhyCodes127",
        file: "lora-phy/src/sx127x/radio_kind_params.rs",
        more_files: vec!["lora-modulation/src/lib.rs"],
        imports: vec![],
        items: vec![
            Enum("Bandwidth"),
            Fn("Bandwidth::hz"),
            Enum("SpreadingFactor"),
            Enum("CodingRate"),
            Enum("LoRaMode"),
            Fn("LoRaMode::value"),
            Enum("DioMapping1Dio0"),
            Fn("DioMapping1Dio0::value"),
            Enum("DioMapping1Dio1"),
            Fn("DioMapping1Dio1::value"),
            Enum("DioMapping1Dio3"),
            Fn("DioMapping1Dio3::value"),
            Enum("IrqMask"),
            Fn("IrqMask::value"),
            Enum("Register"),
            Fn("Register::read_addr"),
            Fn("Register::write_addr"),
            Enum("RampTime"),
            Fn("RampTime::value"),
            Enum("LnaGain"),
            Fn("LnaGain::value"),
            Fn("LnaGain::boosted_value"),
            Enum("PaDac"),
            Fn("PaDac::value"),
            Enum("PaConfig"),
            Fn("PaConfig::value"),
            Enum("OcpTrim"),
            Fn("OcpTrim::value"),
            Custom(crate::tables::d_sf_value),
            Custom(crate::tables::d_cr_value),
            Custom(crate::tables::d_cr_denom_value),
        ],
    },
    Unit {
        module: "Gen.PhyCodes1276",
        file: "lora-phy/src/sx127x/sx1276.rs",
        more_files: vec!["lora-modulation/src/lib.rs"],
        imports: vec![],
        items: vec![Enum("Bandwidth"), Custom(crate::tables::d_bw_value)],
    },
    Unit {
        module: "Gen.PhyCodes1272",
        file: "lora-phy/src/sx127x/sx1272.rs",
        more_files: vec!["lora-modulation/src/lib.rs"],
        imports: vec![],
        items: vec![Enum("Bandwidth"), Custom(crate::tables::d_bw_value)],
    },
    // ---- builder J (tie A for the static regional parameters): band limits, default RX2 frequency,
    // RX1 offset limit, join channels, uplink DR limit, 500 kHz join DR, default channels — found by
    // following `State::new` (statics.rs::region_static), plus one-line RegionHandler methods
    Unit {
        module: "Gen.RegionStatic",
        file: "lorawan-device/src/region/mod.rs",
        more_files: vec![
            "lorawan-encoding/src/types.rs",
            "lorawan-device/src/region/constants.rs",
            "lorawan-device/src/region/dynamic_channel_plans/mod.rs",
            "lorawan-device/src/region/dynamic_channel_plans/eu868.rs",
            "lorawan-device/src/region/dynamic_channel_plans/eu433.rs",
            "lorawan-device/src/region/dynamic_channel_plans/in865.rs",
            "lorawan-device/src/region/dynamic_channel_plans/as923.rs",
            "lorawan-device/src/region/fixed_channel_plans/mod.rs",
            "lorawan-device/src/region/fixed_channel_plans/us915/mod.rs",
            "lorawan-device/src/region/fixed_channel_plans/au915/mod.rs",
        ],
        imports: vec!["LoraVerif.Gen.Region"],
        items: vec![
            ExternEnum("DR"),
            Enum("Region"),
            CustomMulti(crate::statics::region_static),
            // default channel plan ingredients: DataRateRange byte, default ChannelMask, Channel
            Const("NUM_CHANNELS_DYNAMIC"),
            Alias("DataRateRange", "u8"),
            CustomMulti(crate::statics::encoding_newtypes),
            Struct("Channel"),
            Fn("Channel::new_with_dr"),
            Fn("Channel::new"),
            Fn("Channel::rx1_frequency"),
            Fn("Channel::ul_frequency"),
            CustomMulti(crate::statics::cflist_channel),
            Const("NUM_DATARATES"),
            CustomMulti(crate::statics::new_channel_guards),
        ],
    },
    // ---- builder J (tie A for small pure MAC helpers), three units so that a construct the
    // translator cannot follow any more degrades only the properties that use it
    // C10 / C11: RX delays and the initial configuration
    Unit {
        module: "Gen.MacStatic",
        file: "lorawan-device/src/mac/mod.rs",
        more_files: vec!["lorawan-device/src/region/constants.rs", "lorawan-encoding/src/types.rs"],
        imports: vec!["LoraVerif.Gen.Region"],
        items: vec![
            ExternEnum("DR"),
            ExternEnum("Window"),
            Enum("Frame"),
            Const("RECEIVE_DELAY1"),
            Const("RECEIVE_DELAY2"),
            Const("JOIN_ACCEPT_DELAY1"),
            Const("JOIN_ACCEPT_DELAY2"),
            Struct("Configuration"),
            StructPartial("Mac", &["configuration"]),
            Fn("Mac::get_rx_delay"),
            CustomMulti(crate::statics::mac_new_configuration),
        ],
    },
    // C08: answer-queue limit, retained (sticky) answers, DevStatusAns margin byte
    Unit {
        module: "Gen.UplinkStatic",
        file: "lorawan-device/src/mac/uplink/mod.rs",
        more_files: vec!["lorawan-encoding/src/packet_length.rs", "lorawan-encoding/src/maccommandcreator.rs"],
        imports: vec![],
        items: vec![
            Const("FOPTS_MAX_LEN"),
            CustomMulti(crate::statics::retained_answers),
            CustomMulti(crate::statics::dev_status_margin),
        ],
    },
    // C05 / C06 / C12: comparisons of session.rs against the protocol constants
    Unit {
        module: "Gen.SessionStatic",
        file: "lorawan-device/src/mac/session.rs",
        more_files: vec!["lorawan-device/src/region/constants.rs", "lorawan-encoding/src/packet_length.rs"],
        imports: vec![],
        items: vec![
            Const("MHDR_LEN"),
            Const("MIC_LEN"),
            Const("MAX_FCNT_GAP"),
            Const("ADR_ACK_LIMIT"),
            Const("ADR_ACK_DELAY"),
            // (builder N: `handle_rx_oversized` and `fcnt_up_exhausted` — single comparisons of `handle_rx` /
            // `rx2_complete` — are superseded by the whole-method units Gen.SessionRx / Gen.SessionFn)
            CustomMulti(crate::statics::rx2_complete_backoff_due),
            CustomMulti(crate::statics::prepare_buffer_adr_ack_req),
        ],
    },
    // ---- builder L (tie A for whole stateful methods, state-passing translation)
    // C06 / C12: `Session::rx2_complete` — struct values in, (Response, Session, Configuration) out
    Unit {
        module: "Gen.SessionFn",
        file: "lorawan-device/src/mac/session.rs",
        more_files: vec!["lorawan-device/src/region/constants.rs", "lorawan-device/src/mac/mod.rs", "lorawan-encoding/src/types.rs"],
        imports: vec!["LoraVerif.Gen.Region"],
        items: vec![
            ExternEnum("DR"),
            Const("ADR_ACK_LIMIT"),
            Const("ADR_ACK_DELAY"),
            Alias("FcntDown", "u32"),
            EnumData("Response"),
            Struct("Configuration"),
            StructPartial("Session", &["confirmed", "fcnt_up", "fcnt_down", "adr_ack_cnt"]),
            Raw("/-- what the translated methods observe of `region::Configuration`: the result of\n`next_lower_datarate(region, dr)` (a loop over `region.get_datarate`; abstract here) -/\nstructure RegionCfg where\n  next_lower : DR → Option DR\n\ndef next_lower_datarate (region : RegionCfg) (current : DR) : Option DR := region.next_lower current\n"),
            Alias("region::Configuration", "RegionCfg"),
            ExternFn("next_lower_datarate", "next_lower_datarate", &[("region", "region::Configuration"), ("current", "DR")], "Option<DR>"),
            Fn("Session::rx2_complete"),
        ],
    },
    // C08: the answer queue `Uplink` over a byte-list model of the heapless Vec
    Unit {
        module: "Gen.UplinkFn",
        file: "lorawan-device/src/mac/uplink/mod.rs",
        more_files: vec!["lorawan-encoding/src/packet_length.rs"],
        imports: vec![],
        items: vec![
            Const("FOPTS_MAX_LEN"),
            Raw("/-- what `add_mac_command` observes of its `M: SerializableMacCommand` argument -/\nstructure SerializableMacCommand where\n  cid : Int\n  payload_bytes : List Int\n  payload_len : Int\n"),
            ExternStructRaw("SerializableMacCommand", &[("cid", "u8"), ("payload_bytes", "[u8]"), ("payload_len", "usize")]),
            ExternFn("SerializableMacCommand::cid", "SerializableMacCommand.cid", &[("self", "SerializableMacCommand")], "u8"),
            ExternFn("SerializableMacCommand::payload_bytes", "SerializableMacCommand.payload_bytes", &[("self", "SerializableMacCommand")], "[u8]"),
            ExternFn("SerializableMacCommand::payload_len", "SerializableMacCommand.payload_len", &[("self", "SerializableMacCommand")], "usize"),
            Struct("Uplink"),
            Fn("Uplink::set_downlink_confirmation"),
            Fn("Uplink::clear_downlink_confirmation"),
            Fn("Uplink::confirms_downlink"),
            Fn("Uplink::add_mac_command"),
            Fn("Uplink::mac_commands"),
            // `clear_mac_commands(true)`: the iterator pipeline parse → filter(matches!) → re-serialise stays an
            // uninterpreted function of the queue (its variant list: Gen.UplinkStatic `retained`); the
            // control structure around it is translated
            Raw("/-- the iterator pipeline of `clear_mac_commands(true)`: (queue, accumulator so far) ↦ accumulator -/\nopaque retained_pipeline : List Int → List Int → List Int\n"),
            AbstractStmt("parse_uplink_mac_commands(", "retained_pipeline", &["self.pending", "data"], &["data"]),
            Fn("Uplink::clear_mac_commands"),
        ],
    },
    // ---- builder L, C12 / C09: `set_adr` / `set_datarate` of both front-ends and of the hook facade as
    // SEMANTIC functions (`Mac::get_session_mut` — `Option<&mut Session>` — becomes a getter/setter pair)
    Unit {
        module: "Gen.SetAdrAsync",
        file: "lorawan-device/src/mac/mod.rs",
        more_files: vec!["lorawan-device/src/async_device/mod.rs", "lorawan-device/src/mac/session.rs", "lorawan-device/src/mac/otaa.rs", "lorawan-encoding/src/types.rs"],
        imports: vec!["LoraVerif.Gen.Region"],
        items: vec![
            ExternEnum("DR"),
            Struct("Configuration"),
            StructPartial("Session", &["confirmed", "fcnt_up", "fcnt_down", "adr_ack_cnt"]),
            StructPartial("Otaa", &[]),
            EnumData("State"),
            StructPartial("Mac", &["configuration", "state"]),
            StructPartial("Device", &["mac"]),
            Fn("Device::set_adr"),
            Fn("Device::set_datarate"),
        ],
    },
    Unit {
        module: "Gen.SetAdrNb",
        file: "lorawan-device/src/mac/mod.rs",
        more_files: vec!["lorawan-device/src/nb_device/mod.rs", "lorawan-device/src/mac/session.rs", "lorawan-device/src/mac/otaa.rs", "lorawan-encoding/src/types.rs"],
        imports: vec!["LoraVerif.Gen.Region"],
        items: vec![
            ExternEnum("DR"),
            Struct("Configuration"),
            StructPartial("Session", &["confirmed", "fcnt_up", "fcnt_down", "adr_ack_cnt"]),
            StructPartial("Otaa", &[]),
            EnumData("State"),
            StructPartial("Mac", &["configuration", "state"]),
            StructPartial("Shared", &["mac"]),
            StructPartial("Device", &["shared"]),
            Fn("Device::set_adr"),
            Fn("Device::set_datarate"),
        ],
    },
    Unit {
        module: "Gen.SetAdrHook",
        file: "lorawan-device/src/mac/mod.rs",
        more_files: vec!["lorawan-device/src/mac/verif.rs", "lorawan-device/src/mac/session.rs", "lorawan-device/src/mac/otaa.rs", "lorawan-encoding/src/types.rs"],
        imports: vec!["LoraVerif.Gen.Region"],
        items: vec![
            ExternEnum("DR"),
            Struct("Configuration"),
            StructPartial("Session", &["confirmed", "fcnt_up", "fcnt_down", "adr_ack_cnt"]),
            StructPartial("Otaa", &[]),
            EnumData("State"),
            StructPartial("Mac", &["configuration", "state"]),
            StructPartial("VerifMac", &["mac"]),
            Fn("VerifMac::set_adr"),
            Fn("VerifMac::set_datarate"),
        ],
    },
    // ---- builder O (tie A for the PHY command encoders, I/O mode of phyio.rs): driver methods as values of
    // `Rt.Phy.IoM` — the list of SPI transfers / busy waits they request, reads answered by an abstract device
    // `RadioError` once, for all encoder units
    Unit {
        module: "Gen.PhyErr",
        file: "lora-phy/src/mod_params.rs",
        more_files: vec![],
        imports: vec![],
        items: vec![EnumData("RadioError")],
    },
    Unit {
        module: "Gen.PhyEnc1262",
        file: "lora-phy/src/sx126x/mod.rs",
        more_files: vec!["lora-phy/src/sx126x/variant.rs", "lora-phy/src/sx126x/radio_kind_params.rs", "lora-phy/src/mod_params.rs", "lora-modulation/src/lib.rs"],
        imports: vec!["LoraVerif.RtPhy", "LoraVerif.Gen.PhyCodes126", "LoraVerif.Gen.PhyArith", "LoraVerif.Gen.PhyErr"],
        items: vec![
            ExternUnit("Gen.PhyCodes126"),
            ExternUnit("Gen.PhyArith"),
            ExternUnit("Gen.PhyErr"),
            Enum("DeviceSel"),
            Struct("ModulationParams"),
            Struct("PacketParams"),
            Struct("Sx1262"),
            Alias("C", "Sx1262"),
            Struct("Config"),
            StructPartial("Sx126x", &["config"]),
            IoMode(true),
            TraitFn("RadioKind", "Sx126x", "set_modulation_params"),
            TraitFn("RadioKind", "Sx126x", "set_packet_params"),
            TraitFn("RadioKind", "Sx126x", "set_tx_power_and_ramp_time"),
            TraitFn("RadioKind", "Sx126x", "set_channel"),
            IoMode(false),
        ],
    },
    Unit {
        module: "Gen.PhyEnc1261",
        file: "lora-phy/src/sx126x/mod.rs",
        more_files: vec!["lora-phy/src/sx126x/variant.rs", "lora-phy/src/sx126x/radio_kind_params.rs", "lora-phy/src/mod_params.rs", "lora-modulation/src/lib.rs"],
        imports: vec!["LoraVerif.RtPhy", "LoraVerif.Gen.PhyCodes126", "LoraVerif.Gen.PhyArith", "LoraVerif.Gen.PhyErr"],
        items: vec![
            ExternUnit("Gen.PhyCodes126"),
            ExternUnit("Gen.PhyArith"),
            ExternUnit("Gen.PhyErr"),
            Enum("DeviceSel"),
            Struct("ModulationParams"),
            Struct("Sx1261"),
            Alias("C", "Sx1261"),
            Struct("Config"),
            StructPartial("Sx126x", &["config"]),
            IoMode(true),
            TraitFn("RadioKind", "Sx126x", "set_tx_power_and_ramp_time"),
            IoMode(false),
        ],
    },
    // ---- builder P (tie A for the SX127x command encoders; continues builder O): the variant functions of
    // `Sx1276` / `Sx1272` and the `RadioKind` methods of `Sx127x` that call them, `C` fixed per unit
    Unit {
        module: "Gen.PhyEnc1276",
        file: "lora-phy/src/sx127x/mod.rs",
        more_files: vec!["lora-phy/src/sx127x/sx1276.rs", "lora-phy/src/sx127x/radio_kind_params.rs", "lora-phy/src/mod_params.rs", "lora-modulation/src/lib.rs"],
        imports: vec!["LoraVerif.RtPhy", "LoraVerif.Gen.PhyCodes127", "LoraVerif.Gen.PhyErr"],
        items: vec![
            ExternUnit("Gen.PhyCodes127"),
            ExternUnit("Gen.PhyErr"),
            Struct("ModulationParams"),
            Struct("PacketParams"),
            Struct("Sx1276"),
            Struct("Sx1276Data"),
            Alias("C", "Sx1276"),
            Alias("C::Data", "Sx1276Data"),
            Struct("Config"),
            StructPartial("Sx127x", &["config", "data"]),
            IoMode(true),
            TraitFn("RadioKind", "Sx127x", "set_tx_power_and_ramp_time"),
            TraitFn("RadioKind", "Sx127x", "set_modulation_params"),
            TraitFn("RadioKind", "Sx127x", "set_packet_params"),
            Fn("Sx127x::set_lora_symbol_num_timeout"),
            IoMode(false),
        ],
    },
    Unit {
        module: "Gen.PhyEnc1272",
        file: "lora-phy/src/sx127x/mod.rs",
        more_files: vec!["lora-phy/src/sx127x/sx1272.rs", "lora-phy/src/sx127x/radio_kind_params.rs", "lora-phy/src/mod_params.rs", "lora-modulation/src/lib.rs"],
        imports: vec!["LoraVerif.RtPhy", "LoraVerif.Gen.PhyCodes127", "LoraVerif.Gen.PhyErr"],
        items: vec![
            ExternUnit("Gen.PhyCodes127"),
            ExternUnit("Gen.PhyErr"),
            Struct("ModulationParams"),
            Struct("PacketParams"),
            Struct("Sx1272"),
            Alias("C", "Sx1272"),
            Struct("Config"),
            StructPartial("Sx127x", &["config"]),
            IoMode(true),
            TraitFn("RadioKind", "Sx127x", "set_tx_power_and_ramp_time"),
            TraitFn("RadioKind", "Sx127x", "set_modulation_params"),
            TraitFn("RadioKind", "Sx127x", "set_packet_params"),
            IoMode(false),
        ],
    },
    // ---- builder E (tie A, PHY encoders continued): the `while` loop of the SX126x symbol-count timeout
    Unit {
        module: "Gen.PhyEncE126",
        file: "lora-phy/src/sx126x/mod.rs",
        more_files: vec!["lora-phy/src/sx126x/variant.rs", "lora-phy/src/sx126x/radio_kind_params.rs", "lora-phy/src/mod_params.rs", "lora-modulation/src/lib.rs"],
        imports: vec!["LoraVerif.RtPhy", "LoraVerif.Gen.PhyCodes126", "LoraVerif.Gen.PhyArith", "LoraVerif.Gen.PhyErr"],
        items: vec![
            ExternUnit("Gen.PhyCodes126"),
            ExternUnit("Gen.PhyArith"),
            ExternUnit("Gen.PhyErr"),
            Struct("Sx1262"),
            Alias("C", "Sx1262"),
            Struct("Config"),
            StructPartial("Sx126x", &["config"]),
            Raw("/-- how many steps a `while` loop may take before the translation answers `none` (a panic) -/\nclass LoopFuel where\n  fuel : Nat\nvariable [LoopFuel]\n"),
            IoMode(true),
            Fn("Sx126x::set_lora_symbol_num_timeout"),
            IoMode(false),
        ],
    },
    // builder E: `calibrate_image` of the SX126x (array element assignment inside an `if` chain)
    Unit {
        module: "Gen.PhyEncE126Cal",
        file: "lora-phy/src/sx126x/mod.rs",
        more_files: vec!["lora-phy/src/sx126x/variant.rs", "lora-phy/src/sx126x/radio_kind_params.rs", "lora-phy/src/mod_params.rs", "lora-modulation/src/lib.rs"],
        imports: vec!["LoraVerif.RtPhy", "LoraVerif.Gen.PhyCodes126", "LoraVerif.Gen.PhyArith", "LoraVerif.Gen.PhyErr"],
        items: vec![
            ExternUnit("Gen.PhyCodes126"),
            ExternUnit("Gen.PhyArith"),
            ExternUnit("Gen.PhyErr"),
            Struct("Sx1262"),
            Alias("C", "Sx1262"),
            Struct("Config"),
            StructPartial("Sx126x", &["config"]),
            IoMode(true),
            TraitFn("RadioKind", "Sx126x", "calibrate_image"),
            IoMode(false),
        ],
    },
    // builder E: `set_channel` of the SX127x (`freq_to_pll_step` reused from Gen.PhyArith)
    Unit {
        module: "Gen.PhyEncE1276Ch",
        file: "lora-phy/src/sx127x/mod.rs",
        more_files: vec!["lora-phy/src/sx127x/sx1276.rs", "lora-phy/src/sx127x/radio_kind_params.rs", "lora-phy/src/mod_params.rs", "lora-modulation/src/lib.rs"],
        imports: vec!["LoraVerif.RtPhy", "LoraVerif.Gen.PhyCodes127", "LoraVerif.Gen.PhyArith", "LoraVerif.Gen.PhyErr"],
        items: vec![
            ExternUnit("Gen.PhyCodes127"),
            ExternUnit("Gen.PhyArith"),
            ExternUnit("Gen.PhyErr"),
            Struct("Sx1276"),
            Struct("Sx1276Data"),
            Alias("C", "Sx1276"),
            Alias("C::Data", "Sx1276Data"),
            Struct("Config"),
            StructPartial("Sx127x", &["config", "data"]),
            IoMode(true),
            TraitFn("RadioKind", "Sx127x", "set_channel"),
            IoMode(false),
        ],
    },
    // builder E: `set_tx_power_and_ramp_time` of the SX126x instantiated at the Stm32wl variant
    Unit {
        module: "Gen.PhyEncEWl",
        file: "lora-phy/src/sx126x/mod.rs",
        more_files: vec!["lora-phy/src/sx126x/variant.rs", "lora-phy/src/sx126x/radio_kind_params.rs", "lora-phy/src/mod_params.rs", "lora-modulation/src/lib.rs"],
        imports: vec!["LoraVerif.RtPhy", "LoraVerif.Gen.PhyCodes126", "LoraVerif.Gen.PhyArith", "LoraVerif.Gen.PhyErr"],
        items: vec![
            ExternUnit("Gen.PhyCodes126"),
            ExternUnit("Gen.PhyArith"),
            ExternUnit("Gen.PhyErr"),
            Enum("DeviceSel"),
            Struct("ModulationParams"),
            Struct("Stm32wl"),
            Alias("C", "Stm32wl"),
            Struct("Config"),
            StructPartial("Sx126x", &["config"]),
            IoMode(true),
            TraitFn("RadioKind", "Sx126x", "set_tx_power_and_ramp_time"),
            IoMode(false),
        ],
    },
    // ---- builder N (tie A for more stateful methods)
    // C11: `Otaa::handle_rx` — the join step.  The crypto stays abstract: the radio buffer is what
    // `check_mic_and_decrypt_in_place` yields on it under a key (`none` = `Err`), the decrypted view exposes
    // its fields and the two key derivations as functions; the region is an abstract carrier with the
    // three methods the join step calls (`RegionOps`).  Translated for real: `Otaa::handle_rx`,
    // `Session::derive_new`, `Session::new`, `DLSettings::{rx1_dr_offset, rx2_data_rate}`,
    // `del_to_delay_ms`, `NetworkCredentials::appkey`, `Uplink::default()`.
    Unit {
        module: "Gen.OtaaFn",
        file: "lorawan-device/src/mac/otaa.rs",
        more_files: vec![
            "lorawan-device/src/mac/mod.rs",
            "lorawan-device/src/mac/session.rs",
            "lorawan-device/src/mac/uplink/mod.rs",
            "lorawan-device/src/region/constants.rs",
            "lorawan-encoding/src/types.rs",
            "lorawan-encoding/src/packet_length.rs",
        ],
        imports: vec!["LoraVerif.Gen.Region"],
        items: vec![
            ExternEnum("DR"),
            ExternFnX("u8::into_DR", "u8.into_DR", &[("v", "u8")], "DR", &[], true),
            Const("RECEIVE_DELAY1"),
            Const("FOPTS_MAX_LEN"),
            Struct("Configuration"),
            Newtype("DLSettings"),
            Fn("DLSettings::rx1_dr_offset"),
            Fn("DLSettings::rx2_data_rate"),
            Raw(OTAA_RAW),
            ExternStructRaw("AES128", &[]),
            ExternStructRaw("AppKey", &[]),
            ExternStructRaw("NwkSKey", &[]),
            ExternStructRaw("AppSKey", &[]),
            ExternStructRaw("DevAddr", &[]),
            ExternStructRaw("DevNonce", &[]),
            ExternStructRaw("DefaultCrypto", &[]),
            ExternStructRaw("CfList", &[]),
            ExternStructRaw("Datarate", &[]),
            ExternStructRaw("DecryptedJoinAcceptPayload", &[]),
            ExternStructRaw("RxBytes", &[]),
            ExternStructRaw("RadioBuffer", &[]),
            ExternStructRaw("RegionCfg", &[]),
            ExternFn("AppKey::inner", "AppKey.inner", &[("self", "AppKey")], "AES128"),
            ExternFn("DefaultCrypto::new", "DefaultCrypto.new", &[("key", "AES128")], "DefaultCrypto"),
            ExternFn("RadioBuffer::as_mut_for_read", "RadioBuffer.as_mut_for_read", &[("self", "RadioBuffer")], "RxBytes"),
            ExternFn("DecryptedJoinAcceptPayload::check_mic_and_decrypt_in_place", "RxBytes.check_mic_and_decrypt_in_place", &[("buf", "RxBytes"), ("crypto", "DefaultCrypto")], "Result<DecryptedJoinAcceptPayload, Error>"),
            ExternFn("DecryptedJoinAcceptPayload::c_f_list", "DecryptedJoinAcceptPayload.c_f_list", &[("self", "DecryptedJoinAcceptPayload")], "Option<CfList>"),
            ExternFn("DecryptedJoinAcceptPayload::rx_delay", "DecryptedJoinAcceptPayload.rx_delay", &[("self", "DecryptedJoinAcceptPayload")], "u8"),
            ExternFn("DecryptedJoinAcceptPayload::dl_settings", "DecryptedJoinAcceptPayload.dl_settings", &[("self", "DecryptedJoinAcceptPayload")], "DLSettings"),
            ExternFn("DecryptedJoinAcceptPayload::dev_addr", "DecryptedJoinAcceptPayload.dev_addr", &[("self", "DecryptedJoinAcceptPayload")], "DevAddr"),
            ExternFn("DecryptedJoinAcceptPayload::derive_nwkskey", "DecryptedJoinAcceptPayload.derive_nwkskey", &[("self", "DecryptedJoinAcceptPayload"), ("dev_nonce", "DevNonce"), ("crypto", "DefaultCrypto")], "NwkSKey"),
            ExternFn("DecryptedJoinAcceptPayload::derive_appskey", "DecryptedJoinAcceptPayload.derive_appskey", &[("self", "DecryptedJoinAcceptPayload"), ("dev_nonce", "DevNonce"), ("crypto", "DefaultCrypto")], "AppSKey"),
            ExternFnX("RegionCfg::process_join_accept", "RegionOps.process_join_accept", &[("self", "RegionCfg"), ("c_f_list", "Option<CfList>")], "", &["self"], true),
            ExternFn("RegionCfg::rx1_dr_offset_validate", "RegionOps.rx1_dr_offset_validate", &[("self", "RegionCfg"), ("value", "u8")], "Option<u8>"),
            ExternFn("RegionCfg::get_datarate", "RegionOps.get_datarate", &[("self", "RegionCfg"), ("dr", "u8")], "Option<Datarate>"),
            Struct("Uplink"),
            Struct("Session"),
            StructPartial("NetworkCredentials", &["appkey"]),
            Fn("Session::new"),
            Fn("Session::derive_new"),
            Struct("Otaa"),
            // in otaa.rs `Configuration` is the region's and `super::Configuration` the MAC's
            Alias("super::Configuration", "Configuration"),
            Alias("Configuration", "RegionCfg"),
            Fn("Otaa::handle_rx"),
            // builder C: the answer of a join whose windows passed without a JoinAccept
            EnumData("Response"),
            Fn("Otaa::rx2_complete"),
        ],
    },
    // C12 / C06: `Session::prepare_buffer` — the header of the uplink.  Abstract: frame encryption and MIC
    // (`DataFrame::build_into` is a parameter `codec`), the radio buffer (`TxBufOps`), `next_lower_datarate`
    // and the iterator pipeline of `clear_mac_commands(true)` (as in Gen.SessionFn / Gen.UplinkFn).
    Unit {
        module: "Gen.SessionTx",
        file: "lorawan-device/src/mac/session.rs",
        more_files: vec![
            "lorawan-device/src/mac/mod.rs",
            "lorawan-device/src/mac/uplink/mod.rs",
            "lorawan-device/src/region/constants.rs",
            "lorawan-encoding/src/creator.rs",
            "lorawan-encoding/src/parser.rs",
            "lorawan-encoding/src/types.rs",
            "lorawan-encoding/src/packet_length.rs",
        ],
        imports: vec!["LoraVerif.Gen.Region"],
        items: vec![
            ExternEnum("DR"),
            Const("ADR_ACK_LIMIT"),
            Const("FOPTS_MAX_LEN"),
            Alias("FcntUp", "u32"),
            Alias("NonZeroU8", "u8"),
            Struct("Configuration"),
            Raw(SESSION_TX_RAW1),
            ExternStructRaw("AES128", &[]),
            ExternStructRaw("NwkSKey", &[]),
            ExternStructRaw("AppSKey", &[]),
            ExternStructRaw("DevAddr", &[]),
            ExternStructRaw("DefaultCrypto", &[]),
            ExternStructRaw("RegionCfg", &[]),
            Alias("region::Configuration", "RegionCfg"),
            ExternFn("next_lower_datarate", "next_lower_datarate", &[("region", "region::Configuration"), ("current", "DR")], "Option<DR>"),
            ExternFn("NwkSKey::inner", "NwkSKey.inner", &[("self", "NwkSKey")], "AES128"),
            ExternFn("AppSKey::inner", "AppSKey.inner", &[("self", "AppSKey")], "AES128"),
            ExternFn("DefaultCrypto::new", "DefaultCrypto.new", &[("key", "AES128")], "DefaultCrypto"),
            Struct("SendData"),
            Enum("DataFrameType"),
            EnumData("Payload"),
            Struct("DataFrame"),
            Raw(SESSION_TX_RAW2),
            ExternStructRaw("RadioBuffer", &[]),
            ExternFn("DataFrame::build_into", "codec.build_into", &[("self", "DataFrame"), ("buf", "[u8]"), ("nwk", "DefaultCrypto"), ("app", "Option<DefaultCrypto>")], "Result<[u8], Error>"),
            ExternFnX("RadioBuffer::clear", "TxBufOps.clear", &[("self", "RadioBuffer")], "", &["self"], false),
            ExternFnX("RadioBuffer::extend_from_slice", "TxBufOps.extend_from_slice", &[("self", "RadioBuffer"), ("buf", "[u8]")], "Result<(), ()>", &["self"], false),
            Struct("Uplink"),
            Raw("/-- the iterator pipeline of `clear_mac_commands(true)`: (queue, accumulator so far) ↦ accumulator -/\nopaque retained_pipeline : List Int → List Int → List Int\n"),
            AbstractStmt("parse_uplink_mac_commands(", "retained_pipeline", &["self.pending", "data"], &["data"]),
            Struct("Session"),
            Fn("Session::prepare_buffer"),
        ],
    },
    // C05 / C07: `Session::handle_rx` — acceptance test and order of the state updates.  Abstract: parsing,
    // MIC validity and decryption (the buffer is what `EncryptedDataPayload::parse` / `decrypt_in_place` yield on
    // it), the handling of the MAC commands (`Session::handle_downlink_macs`: a method of `MacOps`), the region
    // (carrier of `MacOps`), `next_lower_datarate`.  Translated for real: `Session::handle_rx`,
    // `Session::rx2_complete`, `next_fcnt_down`, the `Uplink` helpers.
    Unit {
        module: "Gen.SessionRx",
        file: "lorawan-device/src/mac/session.rs",
        more_files: vec![
            "lorawan-device/src/mac/mod.rs",
            "lorawan-device/src/mac/uplink/mod.rs",
            "lorawan-device/src/lib.rs",
            "lorawan-device/src/region/constants.rs",
            "lorawan-encoding/src/parser.rs",
            "lorawan-encoding/src/types.rs",
            "lorawan-encoding/src/packet_length.rs",
        ],
        imports: vec!["LoraVerif.Gen.Region"],
        items: vec![
            ExternEnum("DR"),
            Const("ADR_ACK_LIMIT"),
            Const("ADR_ACK_DELAY"),
            Const("MAX_FCNT_GAP"),
            Const("MHDR_LEN"),
            Const("MIC_LEN"),
            Const("FOPTS_MAX_LEN"),
            Alias("FcntDown", "u32"),
            EnumData("Response"),
            Struct("Configuration"),
            Struct("Downlink"),
            EnumData("FrmPayload"),
            Raw(SESSION_RX_RAW1),
            ExternStructRaw("AES128", &[]),
            ExternStructRaw("NwkSKey", &[]),
            ExternStructRaw("AppSKey", &[]),
            ExternStructRaw("DevAddr", &[]),
            ExternStructRaw("DefaultCrypto", &[]),
            ExternStructRaw("Fhdr", &[]),
            ExternStructRaw("EncryptedDataPayload", &[]),
            ExternStructRaw("DecryptedDataPayload", &[]),
            ExternStructRaw("RxBytes", &[]),
            ExternStructRaw("RadioBuffer", &[]),
            ExternStructRaw("MacCmdBytes", &[]),
            ExternStructRaw("RegionCfg", &[]),
            Alias("region::Configuration", "RegionCfg"),
            ExternFn("NwkSKey::inner", "NwkSKey.inner", &[("self", "NwkSKey")], "AES128"),
            ExternFn("AppSKey::inner", "AppSKey.inner", &[("self", "AppSKey")], "AES128"),
            ExternFn("DefaultCrypto::new", "DefaultCrypto.new", &[("key", "AES128")], "DefaultCrypto"),
            ExternFn("RadioBuffer::as_mut_for_read", "RadioBuffer.as_mut_for_read", &[("self", "RadioBuffer")], "RxBytes"),
            ExternFn("EncryptedDataPayload::parse", "RxBytes.parse", &[("bytes", "RxBytes")], "Result<EncryptedDataPayload, Error>"),
            ExternFn("EncryptedDataPayload::as_bytes", "EncryptedDataPayload.as_bytes", &[("self", "EncryptedDataPayload")], "[u8]"),
            ExternFn("EncryptedDataPayload::is_confirmed", "EncryptedDataPayload.is_confirmed", &[("self", "EncryptedDataPayload")], "bool"),
            ExternFn("EncryptedDataPayload::is_uplink", "EncryptedDataPayload.is_uplink", &[("self", "EncryptedDataPayload")], "bool"),
            ExternFn("EncryptedDataPayload::fhdr", "EncryptedDataPayload.fhdr", &[("self", "EncryptedDataPayload")], "Fhdr"),
            ExternFn("EncryptedDataPayload::validate_mic", "EncryptedDataPayload.validate_mic", &[("self", "EncryptedDataPayload"), ("crypto", "DefaultCrypto"), ("fcnt", "u32")], "bool"),
            ExternFn("Fhdr::fcnt", "Fhdr.fcnt", &[("self", "Fhdr")], "u16"),
            ExternFn("Fhdr::f_opts", "Fhdr.f_opts", &[("self", "Fhdr")], "[u8]"),
            ExternFn("Fhdr::dev_addr", "Fhdr.dev_addr", &[("self", "Fhdr")], "DevAddr"),
            ExternFn("DecryptedDataPayload::decrypt_in_place", "RxBytes.decrypt_in_place", &[("bytes", "RxBytes"), ("nwk", "Option<DefaultCrypto>"), ("app", "Option<DefaultCrypto>"), ("fcnt", "u32")], "Result<DecryptedDataPayload, Error>"),
            ExternFn("DecryptedDataPayload::fhdr", "DecryptedDataPayload.fhdr", &[("self", "DecryptedDataPayload")], "Fhdr"),
            ExternFn("DecryptedDataPayload::f_port", "DecryptedDataPayload.f_port", &[("self", "DecryptedDataPayload")], "Option<u8>"),
            ExternFn("DecryptedDataPayload::frm_payload", "DecryptedDataPayload.frm_payload", &[("self", "DecryptedDataPayload")], "FrmPayload"),
            ExternFn("parse_downlink_mac_commands", "MacCmdBytes.mk", &[("data", "[u8]")], "MacCmdBytes"),
            ExternFn("Vec::from_slice", "Downlink.data_from_slice", &[("s", "[u8]")], "Result<Vec<u8, 256>, ()>"),
            Struct("Uplink"),
            Raw("/-- the iterator pipeline of `clear_mac_commands(true)` (not reached from `handle_rx`) -/\nopaque retained_pipeline : List Int → List Int → List Int\n"),
            AbstractStmt("parse_uplink_mac_commands(", "retained_pipeline", &["self.pending", "data"], &["data"]),
            Struct("Session"),
            Raw(SESSION_RX_RAW2),
            ExternFn("next_lower_datarate", "MacOps.next_lower", &[("region", "region::Configuration"), ("current", "DR")], "Option<DR>"),
            ExternFnX("Session::handle_downlink_macs", "MacOps.handle_downlink_macs", &[("self", "Session"), ("configuration", "Configuration"), ("region", "region::Configuration"), ("cmds", "MacCmdBytes"), ("snr", "i8"), ("answers_full", "bool")], "", &["self", "configuration", "region", "answers_full"], true),
            Fn("Session::handle_rx"),
        ],
    },
    // C08 / C10: `DynamicChannelPlan::handle_new_channel` and `channel_dl_update` (NewChannelReq / DlChannelReq on
    // dynamic plans).  Abstract: the region's parameters (`R::NUM_JOIN_CHANNELS`, `R::datarates()`, the band test
    // behind `frequency_valid`; a parameter `R`) and the bit operations of `ChannelMask` (`set_channel`,
    // `is_enabled`; a parameter `mops`).  Translated for real: the two handlers, `DataRateRange::{min,max}_data_rate`,
    // `Channel::new_with_dr`.
    Unit {
        module: "Gen.DynPlanFn",
        file: "lorawan-device/src/region/dynamic_channel_plans/mod.rs",
        more_files: vec!["lorawan-device/src/region/mod.rs", "lorawan-device/src/region/constants.rs", "lorawan-encoding/src/types.rs"],
        imports: vec!["LoraVerif.Gen.Region"],
        items: vec![
            ExternEnum("DR"),
            Const("NUM_CHANNELS_DYNAMIC"),
            Const("NUM_DATARATES"),
            Newtype("DataRateRange"),
            Fn("DataRateRange::max_data_rate"),
            Fn("DataRateRange::min_data_rate"),
            Struct("Channel"),
            Fn("Channel::new_with_dr"),
            Raw(DYN_PLAN_RAW1),
            ExternStructRaw("ChannelMask", &[]),
            ExternStructRaw("Datarate", &[]),
            StructPartial("DynamicChannelPlan", &["channels", "channel_mask"]),
            Raw(DYN_PLAN_RAW2),
            ExternConst("R::NUM_JOIN_CHANNELS", "u8", "R.NUM_JOIN_CHANNELS"),
            ExternFn("R::datarates", "R.datarates", &[], "[Option<Datarate>]"),
            ExternFn("DynamicChannelPlan::frequency_valid", "DynamicChannelPlan.frequency_valid R", &[("self", "DynamicChannelPlan"), ("freq", "u32")], "bool"),
            ExternFnX("ChannelMask::set_channel", "mops.set_channel", &[("self", "ChannelMask"), ("channel", "usize"), ("set", "bool")], "", &["self"], true),
            ExternFn("ChannelMask::is_enabled", "mops.is_enabled", &[("self", "ChannelMask"), ("index", "usize")], "Result<bool, Error>"),
            TraitFn("RegionHandler", "DynamicChannelPlan", "channel_dl_update"),
            TraitFn("RegionHandler", "DynamicChannelPlan", "handle_new_channel"),
        ],
    },
    // ---- builder R (discharging N's simulation hypotheses)
    // C08: the bit operations of `ChannelMask<N>` (types.rs) over the byte array `self.0`; `N` is a parameter
    Unit {
        module: "Gen.ChannelMaskFn",
        file: "lorawan-encoding/src/types.rs",
        more_files: vec![],
        imports: vec![],
        items: vec![
            Newtype("ChannelMask"),
            // `N` of `impl<const N: usize> ChannelMask<N>` is the length of the array `self.0: [u8; N]`
            ExternConst("N", "usize", "(Int.ofNat self._0.length)"),
            Fn("ChannelMask::set_bank"),
            Fn("ChannelMask::set_channel"),
            Fn("ChannelMask::get_index"),
            Fn("ChannelMask::channel_enabled"),
            Fn("ChannelMask::is_enabled"),
        ],
    },
    // C08: `Session::handle_downlink_macs` + `push_answer` — the per-command dispatch.  Abstract: parsing (the
    // iterator `MacCommands` is the list of the `Result`s it yields; the payload views expose the fields the
    // handler reads), the region (carrier of `MacRegionOps`: the twelve methods the handler calls).  Hand-written
    // prelude (trusted): the answer creators as records of their settable fields and their serialisation.
    // Translated for real: the `while let … next()` loop with `peek()` / `continue`, the `for` loop of identical
    // answers, `push_answer`, `Uplink::add_mac_command`, `DLSettings::{rx1_dr_offset, rx2_data_rate}`,
    // `del_to_delay_ms`, the variant list of `DownlinkMacCommand`.
    Unit {
        module: "Gen.SessionMacs",
        file: "lorawan-device/src/mac/session.rs",
        more_files: vec![
            "lorawan-device/src/mac/mod.rs",
            "lorawan-device/src/mac/uplink/mod.rs",
            "lorawan-device/src/lib.rs",
            "lorawan-device/src/region/constants.rs",
            "lorawan-encoding/src/parser.rs",
            "lorawan-encoding/src/types.rs",
            "lorawan-encoding/src/packet_length.rs",
            "lorawan-encoding/src/maccommands.rs",
        ],
        imports: vec!["LoraVerif.Gen.Region", "!LoraVerif.Gen.UplinkStatic", "LoraVerif.Gen.SessionRx"],
        items: vec![
            ExternUnit("Gen.SessionRx"),
            ExternFnX("u8::into_DR", "u8.into_DR", &[("v", "u8")], "DR", &[], true),
            Const("RECEIVE_DELAY1"),
            Newtype("DLSettings"),
            Fn("DLSettings::rx1_dr_offset"),
            Fn("DLSettings::rx2_data_rate"),
            Newtype("DataRateRange"),
            Raw(SESSION_MACS_RAW1),
            ExternStructRaw("SerializableMacCommand", &[("cid", "u8"), ("payload_bytes", "[u8]"), ("payload_len", "usize")]),
            ExternFn("SerializableMacCommand::cid", "SerializableMacCommand.cid", &[("self", "SerializableMacCommand")], "u8"),
            ExternFn("SerializableMacCommand::payload_bytes", "SerializableMacCommand.payload_bytes", &[("self", "SerializableMacCommand")], "[u8]"),
            ExternFn("SerializableMacCommand::payload_len", "SerializableMacCommand.payload_len", &[("self", "SerializableMacCommand")], "usize"),
            ExternStructRaw("ChannelMask", &[]),
            ExternStructRaw("Datarate", &[]),
            ExternStructRaw("Frequency", &[]),
            ExternStructRaw("Redundancy", &[]),
            ExternStructRaw("LinkCheckAnsPayload", &[]),
            ExternStructRaw("LinkADRReqPayload", &[]),
            ExternStructRaw("DutyCycleReqPayload", &[]),
            ExternStructRaw("RXParamSetupReqPayload", &[]),
            ExternStructRaw("DevStatusReqPayload", &[]),
            ExternStructRaw("NewChannelReqPayload", &[]),
            ExternStructRaw("RXTimingSetupReqPayload", &[]),
            ExternStructRaw("TXParamSetupReqPayload", &[]),
            ExternStructRaw("DlChannelReqPayload", &[]),
            ExternStructRaw("DeviceTimeAnsPayload", &[]),
            ExternFn("Frequency::value", "Frequency.value", &[("self", "Frequency")], "u32"),
            ExternFn("Redundancy::channel_mask_control", "Redundancy.channel_mask_control", &[("self", "Redundancy")], "u8"),
            ExternFn("LinkADRReqPayload::data_rate", "LinkADRReqPayload.data_rate", &[("self", "LinkADRReqPayload")], "DR"),
            ExternFn("LinkADRReqPayload::tx_power", "LinkADRReqPayload.tx_power", &[("self", "LinkADRReqPayload")], "DR"),
            ExternFn("LinkADRReqPayload::channel_mask", "LinkADRReqPayload.channel_mask", &[("self", "LinkADRReqPayload")], "ChannelMask"),
            ExternFn("LinkADRReqPayload::redundancy", "LinkADRReqPayload.redundancy", &[("self", "LinkADRReqPayload")], "Redundancy"),
            ExternFn("RXParamSetupReqPayload::dl_settings", "RXParamSetupReqPayload.dl_settings", &[("self", "RXParamSetupReqPayload")], "DLSettings"),
            ExternFn("RXParamSetupReqPayload::frequency", "RXParamSetupReqPayload.frequency", &[("self", "RXParamSetupReqPayload")], "Frequency"),
            ExternFn("NewChannelReqPayload::channel_index", "NewChannelReqPayload.channel_index", &[("self", "NewChannelReqPayload")], "u8"),
            ExternFn("NewChannelReqPayload::frequency", "NewChannelReqPayload.frequency", &[("self", "NewChannelReqPayload")], "Frequency"),
            ExternFn("NewChannelReqPayload::data_rate_range", "NewChannelReqPayload.data_rate_range", &[("self", "NewChannelReqPayload")], "Result<DataRateRange, Error>"),
            ExternFn("DlChannelReqPayload::channel_index", "DlChannelReqPayload.channel_index", &[("self", "DlChannelReqPayload")], "u8"),
            ExternFn("DlChannelReqPayload::frequency", "DlChannelReqPayload.frequency", &[("self", "DlChannelReqPayload")], "Frequency"),
            ExternFn("RXTimingSetupReqPayload::delay", "RXTimingSetupReqPayload.delay", &[("self", "RXTimingSetupReqPayload")], "u8"),
            EnumData("DownlinkMacCommand"),
            Raw(SESSION_MACS_RAW2),
            ExternStructRaw("DevStatusAnsCreator", &[]),
            ExternStructRaw("DlChannelAnsCreator", &[]),
            ExternStructRaw("LinkADRAnsCreator", &[]),
            ExternStructRaw("NewChannelAnsCreator", &[]),
            ExternStructRaw("RXParamSetupAnsCreator", &[]),
            ExternStructRaw("RXTimingSetupAnsCreator", &[]),
            ExternFn("DevStatusAnsCreator::new", "DevStatusAnsCreator.new", &[], "DevStatusAnsCreator"),
            ExternFnX("DevStatusAnsCreator::set_battery", "DevStatusAnsCreator.set_battery", &[("self", "DevStatusAnsCreator"), ("battery", "u8")], "", &["self"], false),
            ExternFnX("DevStatusAnsCreator::set_margin", "DevStatusAnsCreator.set_margin", &[("self", "DevStatusAnsCreator"), ("margin", "i8")], "Result<(), ()>", &["self"], true),
            ExternFn("DlChannelAnsCreator::new", "DlChannelAnsCreator.new", &[], "DlChannelAnsCreator"),
            ExternFnX("DlChannelAnsCreator::set_channel_frequency_ack", "DlChannelAnsCreator.set_channel_frequency_ack", &[("self", "DlChannelAnsCreator"), ("ack", "bool")], "", &["self"], false),
            ExternFnX("DlChannelAnsCreator::set_uplink_frequency_exists_ack", "DlChannelAnsCreator.set_uplink_frequency_exists_ack", &[("self", "DlChannelAnsCreator"), ("ack", "bool")], "", &["self"], false),
            ExternFn("LinkADRAnsCreator::new", "LinkADRAnsCreator.new", &[], "LinkADRAnsCreator"),
            ExternFnX("LinkADRAnsCreator::set_channel_mask_ack", "LinkADRAnsCreator.set_channel_mask_ack", &[("self", "LinkADRAnsCreator"), ("ack", "bool")], "", &["self"], false),
            ExternFnX("LinkADRAnsCreator::set_data_rate_ack", "LinkADRAnsCreator.set_data_rate_ack", &[("self", "LinkADRAnsCreator"), ("ack", "bool")], "", &["self"], false),
            ExternFnX("LinkADRAnsCreator::set_tx_power_ack", "LinkADRAnsCreator.set_tx_power_ack", &[("self", "LinkADRAnsCreator"), ("ack", "bool")], "", &["self"], false),
            ExternFn("NewChannelAnsCreator::new", "NewChannelAnsCreator.new", &[], "NewChannelAnsCreator"),
            ExternFnX("NewChannelAnsCreator::set_channel_frequency_ack", "NewChannelAnsCreator.set_channel_frequency_ack", &[("self", "NewChannelAnsCreator"), ("ack", "bool")], "", &["self"], false),
            ExternFnX("NewChannelAnsCreator::set_data_rate_range_ack", "NewChannelAnsCreator.set_data_rate_range_ack", &[("self", "NewChannelAnsCreator"), ("ack", "bool")], "", &["self"], false),
            ExternFn("RXParamSetupAnsCreator::new", "RXParamSetupAnsCreator.new", &[], "RXParamSetupAnsCreator"),
            ExternFnX("RXParamSetupAnsCreator::set_channel_ack", "RXParamSetupAnsCreator.set_channel_ack", &[("self", "RXParamSetupAnsCreator"), ("ack", "bool")], "", &["self"], false),
            ExternFnX("RXParamSetupAnsCreator::set_rx2_data_rate_ack", "RXParamSetupAnsCreator.set_rx2_data_rate_ack", &[("self", "RXParamSetupAnsCreator"), ("ack", "bool")], "", &["self"], false),
            ExternFnX("RXParamSetupAnsCreator::set_rx1_data_rate_offset_ack", "RXParamSetupAnsCreator.set_rx1_data_rate_offset_ack", &[("self", "RXParamSetupAnsCreator"), ("ack", "bool")], "", &["self"], false),
            ExternFn("RXTimingSetupAnsCreator::new", "RXTimingSetupAnsCreator.new", &[], "RXTimingSetupAnsCreator"),
            Raw(SESSION_MACS_RAW3),
            ExternFn("RegionCfg::channel_mask_get", "MacRegionOps.channel_mask_get", &[("self", "RegionCfg")], "ChannelMask"),
            ExternFn("RegionCfg::has_fixed_channel_plan", "MacRegionOps.has_fixed_channel_plan", &[("self", "RegionCfg")], "bool"),
            ExternFnX("RegionCfg::channel_dl_update", "MacRegionOps.channel_dl_update", &[("self", "RegionCfg"), ("index", "u8"), ("freq", "u32")], "(bool, bool)", &["self"], true),
            ExternFnX("RegionCfg::channel_mask_update", "MacRegionOps.channel_mask_update", &[("self", "RegionCfg"), ("channel_mask", "ChannelMask"), ("ch_mask_ctl", "u8"), ("ch_mask", "ChannelMask")], "Option<()>", &["channel_mask"], true),
            ExternFn("RegionCfg::is_uplink_datarate", "MacRegionOps.is_uplink_datarate", &[("self", "RegionCfg"), ("dr", "u8")], "bool"),
            ExternFnX("RegionCfg::check_tx_power", "MacRegionOps.check_tx_power", &[("self", "RegionCfg"), ("tx_power", "u8")], "Option<Option<u8>>", &[], true),
            ExternFnX("RegionCfg::channel_mask_validate", "MacRegionOps.channel_mask_validate", &[("self", "RegionCfg"), ("channel_mask", "ChannelMask"), ("dr", "Option<DR>")], "bool", &[], true),
            ExternFnX("RegionCfg::channel_mask_set", "MacRegionOps.channel_mask_set", &[("self", "RegionCfg"), ("channel_mask", "ChannelMask")], "", &["self"], false),
            ExternFnX("RegionCfg::handle_new_channel", "MacRegionOps.handle_new_channel", &[("self", "RegionCfg"), ("index", "u8"), ("freq", "u32"), ("data_rates", "Option<DataRateRange>")], "(bool, bool)", &["self"], true),
            ExternFn("RegionCfg::frequency_valid", "MacRegionOps.frequency_valid", &[("self", "RegionCfg"), ("f", "u32")], "bool"),
            ExternFn("RegionCfg::rx1_dr_offset_validate", "MacRegionOps.rx1_dr_offset_validate", &[("self", "RegionCfg"), ("value", "u8")], "Option<u8>"),
            ExternFn("RegionCfg::get_datarate", "MacRegionOps.get_datarate", &[("self", "RegionCfg"), ("dr", "u8")], "Option<Datarate>"),
            Alias("MacCommands", "[Result<DownlinkMacCommand, ()>]"),
            Fn("push_answer"),
            Fn("Session::handle_downlink_macs"),
        ],
    },
    // ---- builder T (tie A for `channel_mask_update` of the channel plans)
    // C11 / C08: what a LinkADRReq's ChMaskCntl / ChMask does to the working copy of the mask, for the fixed plans
    // (US915 / AU915: `FixedChannelPlan::channel_mask_update` with its helper `set_125k_channels`) and the dynamic
    // plans (`DynamicChannelPlan::channel_mask_update`).  Neither method reads a field of the plan, so the plans are
    // records without modelled fields.  The bit operations are those of `Gen.ChannelMaskFn` (regenerated from
    // types.rs), reused — not emitted again.  Translated for real: the range pattern `0..=3`, the `for i in 0..8`
    // loops over `set_bank` (`Rt.forRangeM`), `blocks & (1 << i) != 0`, the early `return None`.
    Unit {
        module: "Gen.PlanMaskFn",
        file: "lorawan-device/src/region/fixed_channel_plans/mod.rs",
        more_files: vec!["lorawan-device/src/region/dynamic_channel_plans/mod.rs", "lorawan-encoding/src/types.rs"],
        imports: vec!["LoraVerif.Gen.ChannelMaskFn"],
        items: vec![
            ExternUnit("Gen.ChannelMaskFn"),
            StructPartial("FixedChannelPlan", &[]),
            StructPartial("DynamicChannelPlan", &[]),
            Fn("FixedChannelPlan::set_125k_channels"),
            TraitFn("RegionHandler", "FixedChannelPlan", "channel_mask_update"),
            TraitFn("RegionHandler", "DynamicChannelPlan", "channel_mask_update"),
        ],
    },
    // C05 / C10: the RF configuration of the receive windows — `Mac::build_rf_config` (the data-rate lookup with its
    // fallback to the RX2 data rate and `unwrap`), `rx2_rf_config` (the overrides of RXParamSetupReq / the join accept),
    // `get_rxc_config`.  Abstract: the region (a record of the four lookups the methods call).  Reused, not emitted
    // again: `BaseBandModulationParams::new` (Gen.Modulation), `Datarate`, `DR`, `Window` (Gen.Region).
    Unit {
        module: "Gen.MacRfFn",
        file: "lorawan-device/src/mac/mod.rs",
        more_files: vec!["lorawan-device/src/radio.rs", "lorawan-device/src/region/mod.rs", "lorawan-device/src/region/constants.rs", "lorawan-encoding/src/types.rs"],
        imports: vec!["LoraVerif.Gen.Modulation", "LoraVerif.Gen.Region"],
        items: vec![
            ExternUnit("Gen.Modulation"),
            ExternUnit("Gen.Region"),
            Struct("Configuration"),
            Raw(MAC_RF_RAW),
            ExternStructRaw("RegionCfg", &[]),
            Alias("region::Configuration", "RegionCfg"),
            ExternStructRaw("Mac", &[("configuration", "Configuration"), ("region", "region::Configuration")]),
            ExternFn("RegionCfg::get_datarate", "RegionCfg.get_datarate", &[("self", "RegionCfg"), ("dr", "u8")], "Option<Datarate>"),
            ExternFnX("RegionCfg::get_rx_datarate", "RegionCfg.get_rx_datarate", &[("self", "RegionCfg"), ("tx_dr", "DR"), ("rx1_dr_offset", "u8"), ("window", "Window")], "DR", &[], true),
            ExternFn("RegionCfg::get_coding_rate", "RegionCfg.get_coding_rate", &[("self", "RegionCfg")], "CodingRate"),
            ExternFn("RegionCfg::get_rx2_frequency", "RegionCfg.get_rx2_frequency", &[("self", "RegionCfg")], "u32"),
            Struct("RfConfig"),
            EnumData("RxMode"),
            Struct("RxConfig"),
            Fn("Mac::build_rf_config"),
            Fn("Mac::rx2_rf_config"),
            Fn("Mac::get_rxc_config"),
            // both windows of an uplink, from the channel selection actually used (`region::TxChannel`, region/mod.rs)
            Struct("TxChannel"),
            Struct("RxWindows"),
            Fn("Mac::rx_windows"),
            // builder H: the window selection
            Fn("RxWindows::get"),
        ],
    },
    // ---- builder W (tie A for the MAC's top-level state machine)
    // C04 / C07 / C11: the dispatch of `Mac::{join_otaa, join_abp, send, handle_rx, handle_rxc, rx2_complete, get_rx_delay,
    // is_joined, get_fcnt_up}` over `State::{Joined, Otaa, Unjoined}`.  Abstract: the `Session` / `Otaa` methods the
    // dispatch calls, the region's `create_tx_config`, `TxConfig::adjust_power` and `Mac::rx_windows` (a record `ops`;
    // each is regenerated and tied in its own unit: Gen.SessionRx / SessionTx / OtaaFn / MacRfFn) and the carrier types
    // they move around (a class `Carriers`).  Translated for real: which state accepts which call, `Err(NotJoined)`
    // otherwise, the state transitions, the power limit of `send`, the delays of `get_rx_delay`.
    Unit {
        module: "Gen.MacTopFn",
        file: "lorawan-device/src/mac/mod.rs",
        more_files: vec!["lorawan-device/src/radio.rs", "lorawan-encoding/src/types.rs"],
        imports: vec!["LoraVerif.Gen.Region"],
        items: vec![
            ExternEnum("DR"),
            Enum("Frame"),
            Enum("Window"),
            EnumData("Response"),
            Struct("Configuration"),
            Struct("BoardEirp"),
            StructPartial("RfConfig", &["max_payload_len"]),
            Raw(MAC_TOP_RAW1),
            ExternStructRaw("Session", &[("fcnt_up", "u32")]),
            ExternStructRaw("Otaa", &[]),
            ExternStructRaw("RegionCfg", &[]),
            ExternStructRaw("RadioBuffer", &[]),
            ExternStructRaw("Downlink", &[]),
            ExternStructRaw("RNG", &[]),
            ExternStructRaw("NetworkCredentials", &[]),
            ExternStructRaw("NwkSKey", &[]),
            ExternStructRaw("AppSKey", &[]),
            ExternStructRaw("DevAddr", &[]),
            ExternStructRaw("TxConfig", &[]),
            ExternStructRaw("TxChannel", &[]),
            ExternStructRaw("RxWindows", &[]),
            ExternStructRaw("SendData", &[]),
            Alias("region::Configuration", "RegionCfg"),
            Alias("radio::TxConfig", "TxConfig"),
            Alias("region::TxChannel", "TxChannel"),
            Alias("otaa::Otaa", "Otaa"),
            EnumData("State"),
            Struct("Mac"),
            Raw(MAC_TOP_RAW2),
            ExternFn("Session::new", "ops.session_new", &[("nwkskey", "NwkSKey"), ("appskey", "AppSKey"), ("devaddr", "DevAddr")], "Session"),
            ExternFnX("Session::prepare_buffer", "ops.session_prepare_buffer", &[("self", "Session"), ("data", "SendData"), ("tx_buffer", "RadioBuffer"), ("configuration", "Configuration"), ("region", "RegionCfg")], "u32", &["self", "tx_buffer"], true),
            ExternFnX("Session::handle_rx", "ops.session_handle_rx", &[("self", "Session"), ("region", "RegionCfg"), ("configuration", "Configuration"), ("rx", "RadioBuffer"), ("dl", "[Downlink]"), ("max_payload_len", "u8"), ("snr", "i8"), ("ignore_mac", "bool")], "Response", &["self", "region", "configuration", "rx", "dl"], true),
            ExternFnX("Session::rx2_complete", "ops.session_rx2_complete", &[("self", "Session"), ("configuration", "Configuration"), ("region", "RegionCfg")], "Response", &["self", "configuration"], true),
            ExternFn("Otaa::new", "ops.otaa_new", &[("network_credentials", "NetworkCredentials")], "Otaa"),
            ExternFnX("Otaa::prepare_buffer", "ops.otaa_prepare_buffer", &[("self", "Otaa"), ("rng", "RNG"), ("buf", "RadioBuffer")], "u16", &["self", "rng", "buf"], true),
            ExternFnX("Otaa::handle_rx", "ops.otaa_handle_rx", &[("self", "Otaa"), ("region", "RegionCfg"), ("configuration", "Configuration"), ("rx", "RadioBuffer")], "Option<Session>", &["self", "region", "configuration", "rx"], true),
            ExternFnX("Otaa::rx2_complete", "ops.otaa_rx2_complete", &[("self", "Otaa")], "Response", &["self"], false),
            ExternFnX("RegionCfg::create_tx_config", "ops.create_tx_config", &[("self", "RegionCfg"), ("rng", "RNG"), ("datarate", "DR"), ("frame", "Frame")], "(TxConfig, TxChannel)", &["self", "rng"], true),
            ExternFnX("TxConfig::adjust_power", "ops.adjust_power", &[("self", "TxConfig"), ("max_power", "u8"), ("antenna_gain", "i8")], "", &["self"], true),
            ExternFnX("Mac::rx_windows", "Mac.rx_windows ops", &[("self", "Mac"), ("tx_channel", "TxChannel")], "RxWindows", &[], true),
            Fn("Mac::join_otaa"),
            Fn("Mac::join_abp"),
            Fn("Mac::send"),
            Fn("Mac::get_rx_delay"),
            Fn("Mac::handle_rx"),
            Fn("Mac::handle_rxc"),
            Fn("Mac::rx2_complete"),
            Fn("Mac::is_joined"),
            Fn("Mac::get_fcnt_up"),
        ],
    },
    // ---- builder U (tie A for the downlink MAC-command iterator and the payload accessors)
    // C03 / C08: what `parse_downlink_mac_commands` yields and what `handle_downlink_macs` reads of it.  The payload
    // structs, `new_from_raw`, `max_len` and `MacCommandSet::parse_one` are expanded from the `quote!` templates of the
    // `CommandHandler` derive (maccmd.rs) with the `#[cmd(cid, len)]` attributes of `DownlinkMacCommand`;
    // `MacCommands::next` is the source's, for `T = DownlinkMacCommand`.  The accessors are the source's
    // (`channel_index`: `create_value_reader_fn!` expanded from the macro_rules body), with the helper types of
    // types.rs (`Redundancy`, `DLSettings`, `DataRateRange`, `Frequency`, `ChannelMask::<2>::new_from_raw`).
    // Reused, not emitted again: `DR` and `DR::from(u8)` (Gen.Region).
    Unit {
        module: "Gen.MacCmdFn",
        file: "lorawan-encoding/src/maccommands.rs",
        more_files: vec!["lorawan-encoding/src/types.rs", "lorawan-macros/src/lib.rs"],
        imports: vec!["LoraVerif.Gen.Region"],
        items: vec![
            ExternEnum("DR"),
            ExternFnX("u8::into_DR", "u8.into_DR", &[("v", "u8")], "DR", &[], true),
            Newtype("Redundancy"),
            Fn("Redundancy::new"),
            Fn("Redundancy::channel_mask_control"),
            Fn("Redundancy::number_of_transmissions"),
            Newtype("DLSettings"),
            Fn("DLSettings::new"),
            Fn("DLSettings::rx1_dr_offset"),
            Fn("DLSettings::rx2_data_rate"),
            Newtype("DataRateRange"),
            Fn("DataRateRange::new_from_raw"),
            Fn("DataRateRange::can_build_from"),
            Fn("DataRateRange::new"),
            Fn("DataRateRange::max_data_rate"),
            Fn("DataRateRange::min_data_rate"),
            Newtype("Frequency"),
            Fn("Frequency::new_from_raw"),
            Fn("Frequency::value"),
            Newtype("ChannelMask"),
            CustomMulti(crate::maccmd::payloads),
            EnumData("DownlinkMacCommand"),
            EnumData("ParseError"),
            StructPartial("MacCommands", &["data", "errored"]),
            CustomMulti(crate::maccmd::framing),
            CustomMulti(crate::maccmd::macro_accessors),
            Fn("LinkADRReqPayload::data_rate"),
            Fn("LinkADRReqPayload::tx_power"),
            Fn("LinkADRReqPayload::redundancy"),
            Fn("RXParamSetupReqPayload::dl_settings"),
            Fn("RXParamSetupReqPayload::frequency"),
            Fn("NewChannelReqPayload::frequency"),
            Fn("NewChannelReqPayload::data_rate_range"),
            Fn("RXTimingSetupReqPayload::delay"),
            Fn("DlChannelReqPayload::frequency"),
        ],
    },
    // ---- builder V (tie A for the channel selection, C09)
    // `DynamicChannelPlan::select_tx_channel` with `get_random_in_range` and the "never spin" fallback.  The RNG is
    // abstract (`RngOps`: `next_u32` of a state), the redraw loops run on a fuel (`Rt.loopM`: `none` when it is used up).
    Unit {
        module: "Gen.PlanSelectFn",
        file: "lorawan-device/src/region/dynamic_channel_plans/mod.rs",
        more_files: vec!["lorawan-device/src/region/mod.rs", "lorawan-device/src/region/constants.rs", "lorawan-device/src/mac/mod.rs", "lorawan-encoding/src/types.rs", "lorawan-device/src/region/fixed_channel_plans/mod.rs", "lorawan-device/src/region/fixed_channel_plans/join_channels.rs"],
        imports: vec!["LoraVerif.Gen.Modulation", "LoraVerif.Gen.Region", "LoraVerif.Gen.ChannelMaskFn"],
        items: vec![
            ExternUnit("Gen.Modulation"),
            ExternUnit("Gen.Region"),
            ExternUnit("Gen.ChannelMaskFn"),
            Enum("Frame"),
            Newtype("DataRateRange"),
            Struct("Channel"),
            Fn("Channel::rx1_frequency"),
            Fn("Channel::ul_frequency"),
            StructPartial("DynamicChannelPlan", &["channels", "channel_mask"]),
            Raw(PLAN_SELECT_RAW),
            ExternStructRaw("RNG", &[]),
            ExternConst("R::NUM_JOIN_CHANNELS", "u8", "R.NUM_JOIN_CHANNELS"),
            ExternFn("R::datarates", "R.datarates", &[], "[Option<Datarate>]"),
            ExternFnX("RNG::next_u32", "RngCore.next_u32", &[("self", "RNG")], "u32", &["self"], false),
            Struct("TxChannel"),
            Fn("DynamicChannelPlan::get_random_in_range"),
            TraitFn("RegionHandler", "DynamicChannelPlan", "select_tx_channel"),
            // the fixed plans (US915 / AU915): `FixedChannelPlan::select_tx_channel` with the join bias bookkeeping of
            // `JoinChannels` (`has_bias_and_not_exhausted`, `first_data_channel`, `clear_join_bias`); the bank walk
            // `JoinChannels::get_next_channel` is abstract (`JcOps`)
            Enum("Subband"),
            ExternStructRaw("AvailableChannels", &[]),
            Struct("JoinChannels"),
            StructPartial("FixedChannelPlan", &["channel_mask", "join_channels"]),
            ExternConst("F::JOIN_DR_500KHZ", "DR", "F.JOIN_DR_500KHZ"),
            ExternFn("F::datarates", "F.datarates", &[], "[Option<Datarate>]"),
            ExternFn("F::uplink_channels", "F.uplink_channels", &[], "[u32]"),
            ExternFn("F::downlink_channels", "F.downlink_channels", &[], "[u32]"),
            Raw(PLAN_SELECT_RAW2),
            ExternFnX("JoinChannels::get_next_channel", "JcOps.get_next_channel", &[("self", "JoinChannels"), ("rng", "RNG")], "u8", &["self", "rng"], true),
            Fn("JoinChannels::has_bias_and_not_exhausted"),
            Fn("JoinChannels::clear_join_bias"),
            Fn("JoinChannels::first_data_channel"),
            TraitFn("RegionHandler", "FixedChannelPlan", "select_tx_channel"),
        ],
    },
    // C01 / C02 (builder A): securityhelpers.rs — the B0 / A_i helper block, the data MIC, the join MIC and the in-place
    // FRMPayload keystream loop.  Abstract: the trait object `&dyn Crypto` (a record of its two methods, exactly what
    // the hand model's `Crypto` = (Cipher, key) provides).  Translated for real: `[0; 16]`, `&mut b0[..16]` passed to a
    // callee (slice out, call, copy back), `copy_from_slice`, `as u8`, the `for i in 0..len` loop with its `u8` counter,
    // `phy_payload[start + i] ^= s[j]`.
    Unit {
        module: "Gen.CodecFn",
        file: "lorawan-encoding/src/securityhelpers.rs",
        more_files: vec!["lorawan-encoding/src/keys.rs", "lorawan-encoding/src/creator.rs", "lorawan-encoding/src/packet_length.rs"],
        imports: vec![],
        items: vec![
            Newtype("MIC"),
            Raw(CODEC_FN_RAW),
            ExternStructRaw("Crypto", &[]),
            ExternFnX("Crypto::calculate_mic", "Crypto.calculate_mic", &[("self", "Crypto"), ("b0", "[u8]"), ("data", "[u8]")], "[u8; 4]", &[], false),
            ExternFnX("Crypto::encrypt_block", "Crypto.encrypt_block", &[("self", "Crypto"), ("block", "[u8]")], "", &["block"], true),
            Fn("generate_helper_block"),
            Fn("calculate_data_mic"),
            Fn("calculate_mic"),
            Fn("encrypt_frm_data_payload"),
            // creator.rs: the MIC of the join messages written behind the frame
            Const("MIC_LEN"),
            Fn("write_mic"),
        ],
    },
    // ---- builder D2 (tie A for the bank walk of the fixed plans, C09 / C04)
    // `JoinChannels::get_next_channel` and `AvailableChannels::{is_exhausted, reset, get_next_channel_inner, get_next}`
    // (the entropy loop runs on `Rt.loopM`); types, generator and fuel are those of `Gen.PlanSelectFn`.
    Unit {
        module: "Gen.JoinWalkFn",
        file: "lorawan-device/src/region/fixed_channel_plans/join_channels.rs",
        more_files: vec!["lorawan-device/src/region/mod.rs", "lorawan-device/src/region/constants.rs", "lorawan-device/src/mac/mod.rs", "lorawan-encoding/src/types.rs", "lorawan-device/src/region/fixed_channel_plans/mod.rs", "lorawan-device/src/region/dynamic_channel_plans/mod.rs"],
        imports: vec!["LoraVerif.Gen.Modulation", "LoraVerif.Gen.Region", "LoraVerif.Gen.ChannelMaskFn", "LoraVerif.Gen.PlanSelectFn"],
        items: vec![
            ExternUnit("Gen.PlanSelectFn"),
            Raw(JOIN_WALK_RAW),
            ExternStructRaw("AvailableChannels", &[("data", "ChannelMask<9>"), ("previous", "Option<u8>")]),
            ExternFn("ChannelMask::default", "ChannelMask.default9", &[], "ChannelMask<9>"),
            ExternFn("ChannelMask::as_ref", "ChannelMask.as_ref", &[("self", "ChannelMask<9>")], "[u8]"),
            Fn("AvailableChannels::is_exhausted"),
            Fn("AvailableChannels::reset"),
            Fn("AvailableChannels::get_next_channel_inner"),
            Fn("AvailableChannels::get_next"),
            Fn("JoinChannels::get_next_channel"),
        ],
    },
    // ---- builder F (tie A for the framing step of the five other `CommandHandler` sets, C03): as `Gen.MacCmdFn`, for
    // `UplinkMacCommand`, the TS009 certification sets and the TS005 multicast sets, with the hand-written `len()` helpers
    // of the variable-length payloads (`min_len`, `len`, `required_len`) translated from the source.  The macro file is LAST.
    Unit {
        module: "Gen.MacCmdFnUplinkMacCommand",
        file: "lorawan-encoding/src/maccommands.rs",
        more_files: vec!["lorawan-macros/src/lib.rs"],
        imports: vec![],
        items: vec![
            CustomMulti(crate::maccmd_sets::payloads_uplink_mac),
            EnumData("UplinkMacCommand"),
            EnumData("ParseError"),
            StructPartial("MacCommands", &["data", "errored"]),
            CustomMulti(crate::maccmd_sets::framing_uplink_mac),
        ],
    },
    Unit {
        module: "Gen.MacCmdFnDownlinkDUTCommand",
        file: "lorawan-encoding/src/certification.rs",
        more_files: vec!["lorawan-encoding/src/maccommands.rs", "lorawan-macros/src/lib.rs"],
        imports: vec![],
        items: vec![
            CustomMulti(crate::maccmd_sets::payloads_downlink_dut),
            Fn("TxFramesCtrlReqPayload::min_len"),
            Fn("TxFramesCtrlReqPayload::len"),
            Fn("EchoIncPayloadReqPayload::min_len"),
            Fn("EchoIncPayloadReqPayload::len"),
            EnumData("DownlinkDUTCommand"),
            EnumData("ParseError"),
            StructPartial("MacCommands", &["data", "errored"]),
            CustomMulti(crate::maccmd_sets::framing_downlink_dut),
        ],
    },
    Unit {
        module: "Gen.MacCmdFnUplinkDUTCommand",
        file: "lorawan-encoding/src/certification.rs",
        more_files: vec!["lorawan-encoding/src/maccommands.rs", "lorawan-macros/src/lib.rs"],
        imports: vec![],
        items: vec![
            CustomMulti(crate::maccmd_sets::payloads_uplink_dut),
            Fn("EchoIncPayloadAnsPayload::min_len"),
            Fn("EchoIncPayloadAnsPayload::len"),
            EnumData("UplinkDUTCommand"),
            EnumData("ParseError"),
            StructPartial("MacCommands", &["data", "errored"]),
            CustomMulti(crate::maccmd_sets::framing_uplink_dut),
        ],
    },
    Unit {
        module: "Gen.MacCmdFnDownlinkRemoteSetup",
        file: "lorawan-encoding/src/multicast/mod.rs",
        more_files: vec!["lorawan-encoding/src/maccommands.rs", "lorawan-macros/src/lib.rs"],
        imports: vec![],
        items: vec![
            CustomMulti(crate::maccmd_sets::payloads_downlink_remote),
            EnumData("DownlinkRemoteSetup"),
            EnumData("ParseError"),
            StructPartial("MacCommands", &["data", "errored"]),
            CustomMulti(crate::maccmd_sets::framing_downlink_remote),
        ],
    },
    Unit {
        module: "Gen.MacCmdFnUplinkRemoteSetup",
        file: "lorawan-encoding/src/multicast/mod.rs",
        more_files: vec!["lorawan-encoding/src/multicast/group_status.rs", "lorawan-encoding/src/maccommands.rs", "lorawan-macros/src/lib.rs"],
        imports: vec!["LoraVerif.RtBits"],
        items: vec![
            CustomMulti(crate::maccmd_sets::payloads_uplink_remote),
            Newtype("McGroupStatusItem"),
            Fn("McGroupStatusItem::len"),
            Fn("McGroupStatusAnsPayload::required_len"),
            Fn("McGroupStatusAnsPayload::len"),
            EnumData("UplinkRemoteSetup"),
            EnumData("ParseError"),
            StructPartial("MacCommands", &["data", "errored"]),
            CustomMulti(crate::maccmd_sets::framing_uplink_remote),
        ],
    },
    // ---- builder F (tie A for the creators, C19): the derive-generated creators and the hand-written setters
    Unit {
        module: "Gen.MacCmdCreatorFn",
        file: "lorawan-encoding/src/maccommandcreator.rs",
        more_files: vec!["lorawan-encoding/src/maccommands.rs", "lorawan-macros/src/lib.rs"],
        imports: vec!["LoraVerif.RtBits"],
        items: vec![
            CustomMulti(crate::maccmd::payloads),
            CustomMulti(crate::maccmd_sets::payloads_uplink_mac),
            CustomMulti(crate::maccmd_creators::creators),
        ],
    },
    // ---- builder H (tie A for the region wiring): `region_dispatch!` expanded with its own rules, each arm followed
    // through `State::new`'s plan type to the plan's `RegionHandler` impl and the region type (dispatch.rs)
    Unit {
        module: "Gen.RegionDispatch",
        file: "lorawan-device/src/region/mod.rs",
        more_files: vec![
            "lorawan-encoding/src/types.rs",
            "lorawan-device/src/region/constants.rs",
            "lorawan-device/src/mac/mod.rs",
            "lora-modulation/src/lib.rs",
            "lorawan-device/src/region/dynamic_channel_plans/mod.rs",
            "lorawan-device/src/region/dynamic_channel_plans/eu868.rs",
            "lorawan-device/src/region/dynamic_channel_plans/eu433.rs",
            "lorawan-device/src/region/dynamic_channel_plans/in865.rs",
            "lorawan-device/src/region/dynamic_channel_plans/as923.rs",
            "lorawan-device/src/region/fixed_channel_plans/mod.rs",
            "lorawan-device/src/region/fixed_channel_plans/us915/mod.rs",
            "lorawan-device/src/region/fixed_channel_plans/us915/datarates.rs",
            "lorawan-device/src/region/fixed_channel_plans/us915/frequencies.rs",
            "lorawan-device/src/region/fixed_channel_plans/au915/mod.rs",
            "lorawan-device/src/region/fixed_channel_plans/au915/datarates.rs",
            "lorawan-device/src/region/fixed_channel_plans/au915/frequencies.rs",
        ],
        imports: vec!["LoraVerif.Gen.Region", "LoraVerif.Gen.RegionStatic"],
        items: vec![
            ExternUnit("Gen.Region"),
            ExternEnum("Region"),
            CustomMulti(crate::dispatch::region_dispatch),
            CustomMulti(crate::dispatch::region_tables),
        ],
    },
    Unit {
        module: "Gen.RegionPayload",
        file: "lorawan-device/src/region/mod.rs",
        more_files: vec![
            "lorawan-encoding/src/types.rs",
            "lorawan-device/src/region/constants.rs",
            "lorawan-device/src/mac/mod.rs",
            "lora-modulation/src/lib.rs",
            "lorawan-device/src/region/dynamic_channel_plans/mod.rs",
            "lorawan-device/src/region/dynamic_channel_plans/eu868.rs",
            "lorawan-device/src/region/dynamic_channel_plans/eu433.rs",
            "lorawan-device/src/region/dynamic_channel_plans/in865.rs",
            "lorawan-device/src/region/dynamic_channel_plans/as923.rs",
            "lorawan-device/src/region/fixed_channel_plans/mod.rs",
            "lorawan-device/src/region/fixed_channel_plans/us915/mod.rs",
            "lorawan-device/src/region/fixed_channel_plans/us915/datarates.rs",
            "lorawan-device/src/region/fixed_channel_plans/us915/frequencies.rs",
            "lorawan-device/src/region/fixed_channel_plans/au915/mod.rs",
            "lorawan-device/src/region/fixed_channel_plans/au915/datarates.rs",
            "lorawan-device/src/region/fixed_channel_plans/au915/frequencies.rs",
        ],
        imports: vec!["LoraVerif.Gen.Region", "LoraVerif.Gen.RegionStatic"],
        items: vec![
            ExternUnit("Gen.Region"),
            ExternEnum("Region"),
            CustomMulti(crate::dispatch::region_static_dispatch),
        ],
    },
    Unit {
        module: "Gen.NextLowerDr",
        file: "lorawan-device/src/mac/session.rs",
        more_files: vec![],
        imports: vec!["LoraVerif.Gen.Region", "LoraVerif.Gen.RegionStatic", "!LoraVerif.Gen.RegionDispatch"],
        items: vec![
            Raw(crate::dispatch::NEXT_LOWER_RAW),
            CustomMulti(crate::dispatch::next_lower),
        ],
    },
    // ---- builder G (tie A for the `LoRa<RK, DLY>` state machine, C14): translated by `loraapi.rs`
    Unit { module: "Gen.LoRaApiFn", file: "lora-phy/src/lib.rs", more_files: vec!["lora-phy/src/mod_params.rs"], imports: vec![], items: vec![] },
    // ---- builder B (tie A for packet fetch, C18)
    // `RadioBuffer<N>` (lorawan-device/src/radio.rs): `[u8; N]` is a byte list, `&mut self` methods are state-passing
    Unit {
        module: "Gen.RadioBufferFn",
        file: "lorawan-device/src/radio.rs",
        more_files: vec![],
        imports: vec![],
        items: vec![
            Struct("RadioBuffer"),
            Fn("RadioBuffer::clear"),
            Fn("RadioBuffer::set_pos"),
            Fn("RadioBuffer::extend_from_slice"),
            Fn("RadioBuffer::as_mut_for_read"),
            Fn("RadioBuffer::as_ref_for_read"),
            TraitFn("AsMut", "RadioBuffer", "as_mut"),
            TraitFn("AsRef", "RadioBuffer", "as_ref"),
        ],
    },
    // `get_rx_payload` of the SX126x driver in the I/O mode: the caller's `&mut [u8]` receive buffer is passed by value
    // and handed back (a read of n bytes INTO `receiving_buffer[..n]`: `Rt.slice` + write-back)
    Unit {
        module: "Gen.PhyRxFn126",
        file: "lora-phy/src/sx126x/mod.rs",
        more_files: vec!["lora-phy/src/sx126x/variant.rs", "lora-phy/src/sx126x/radio_kind_params.rs", "lora-phy/src/mod_params.rs", "lora-modulation/src/lib.rs"],
        imports: vec!["LoraVerif.RtPhy", "LoraVerif.Gen.PhyCodes126", "LoraVerif.Gen.PhyArith", "LoraVerif.Gen.PhyErr"],
        items: vec![
            ExternUnit("Gen.PhyCodes126"),
            ExternUnit("Gen.PhyArith"),
            ExternUnit("Gen.PhyErr"),
            Enum("OpStatusErrorMask"),
            Fn("OpStatusErrorMask::is_error"),
            Struct("PacketParams"),
            Struct("Sx1262"),
            Alias("C", "Sx1262"),
            Struct("Config"),
            StructPartial("Sx126x", &["config"]),
            IoMode(true),
            TraitFn("RadioKind", "Sx126x", "get_rx_payload"),
            IoMode(false),
        ],
    },
    // `LoRa::get_rx_result` (lora-phy/src/lib.rs): which buffer / which length travel between the caller and the
    // `RadioKind` (state-passing; the `RadioKind` methods are abstract: `RkOps`)
    Unit {
        module: "Gen.LoraRxFn",
        file: "lora-phy/src/lib.rs",
        more_files: vec!["lora-phy/src/mod_params.rs"],
        imports: vec![],
        items: vec![
            Struct("DutyCycleParams"),
            EnumData("RxMode"),
            EnumData("RadioMode"),
            Struct("PacketStatus"),
            Struct("PacketParams"),
            Raw(LORA_RX_RAW),
            ExternStructRaw("RK", &[]),
            ExternFnX("RK::get_rx_payload", "RkOps.get_rx_payload", &[("self", "RK"), ("rx_pkt_params", "PacketParams"), ("receiving_buffer", "[u8]")], "Result<u8, RadioError>", &["self", "receiving_buffer"], true),
            ExternFnX("RK::get_rx_packet_status", "RkOps.get_rx_packet_status", &[("self", "RK")], "Result<PacketStatus, RadioError>", &["self"], true),
            StructPartial("LoRa", &["radio_kind", "radio_mode"]),
            Fn("LoRa::get_rx_result"),
        ],
    },
    // ---- builder F, follow-up (C19): the setters generic over `T: Into<X>`, at `T = X`
    Unit {
        module: "Gen.MacCmdCreatorIntoFn",
        file: "lorawan-encoding/src/maccommandcreator.rs",
        more_files: vec!["lorawan-encoding/src/types.rs", "lorawan-encoding/src/maccommands.rs", "lorawan-macros/src/lib.rs"],
        imports: vec![],
        items: vec![
            CustomMulti(crate::maccmd::payloads),
            Newtype("Redundancy"),
            Fn("Redundancy::raw_value"),
            Newtype("DataRateRange"),
            Fn("DataRateRange::raw_value"),
            Newtype("ChannelMask"),
            TraitFn("AsRef", "ChannelMask", "as_ref"),
            Newtype("Frequency"),
            TraitFn("AsRef", "Frequency", "as_ref"),
            CustomMulti(crate::maccmd_creators2::creators_into),
        ],
    },
    ]
}

/// Lean text of the abstract part of `Gen.JoinWalkFn` (builder D2): the generator and the fuel of `Gen.PlanSelectFn`
const JOIN_WALK_RAW: &str = r#"variable {RNG : Type} [RngCore RNG] [LoopFuel]
/-- TRUSTED (hand text): `impl Default for ChannelMask<9>` = `ChannelMask([0xFF; 9])` and `AsRef<[u8]>` = the bytes -/
def ChannelMask.default9 : ChannelMask := ⟨List.replicate 9 255⟩
def ChannelMask.as_ref (self : ChannelMask) : List Int := self._0
"#;

/// Lean text of the abstract part of `Gen.MacTopFn`
const MAC_TOP_RAW1: &str = r#"set_option warn.classDefReducibility false
/-- the types the dispatch moves around without looking inside: the session, the join state, the region, the radio
buffer, a delivered downlink, the random generator, credentials and keys, what `create_tx_config` hands out, the
windows, the application's send request.  `State` and `Mac` hold three of them, hence the instances. -/
class Carriers where
  Session : Type
  Otaa : Type
  RegionCfg : Type
  RadioBuffer : Type
  Downlink : Type
  RNG : Type
  NetworkCredentials : Type
  NwkSKey : Type
  AppSKey : Type
  DevAddr : Type
  TxConfig : Type
  TxChannel : Type
  RxWindows : Type
  SendData : Type
  [decSession : DecidableEq Session]
  [reprSession : Repr Session]
  [decOtaa : DecidableEq Otaa]
  [reprOtaa : Repr Otaa]
  [decRegionCfg : DecidableEq RegionCfg]
  [reprRegionCfg : Repr RegionCfg]
  /-- the one field of the session the dispatch reads (`get_fcnt_up`) -/
  fcnt_up : Session → Int
attribute [instance] Carriers.decSession Carriers.reprSession Carriers.decOtaa Carriers.reprOtaa Carriers.decRegionCfg Carriers.reprRegionCfg
variable [K : Carriers]
abbrev Session := K.Session
abbrev Otaa := K.Otaa
abbrev RegionCfg := K.RegionCfg
abbrev RadioBuffer := K.RadioBuffer
abbrev Downlink := K.Downlink
abbrev RNG := K.RNG
abbrev NetworkCredentials := K.NetworkCredentials
abbrev NwkSKey := K.NwkSKey
abbrev AppSKey := K.AppSKey
abbrev DevAddr := K.DevAddr
abbrev TxConfig := K.TxConfig
abbrev TxChannel := K.TxChannel
abbrev RxWindows := K.RxWindows
abbrev SendData := K.SendData
def Session.fcnt_up (s : Session) : Int := K.fcnt_up s
"#;
const MAC_TOP_RAW2: &str = r#"/-- the methods the dispatch calls (`none` = a panic inside; `&mut` arguments are returned after the result, in
parameter order): `Session::{new, prepare_buffer, handle_rx, rx2_complete}`, `Otaa::{new, prepare_buffer, handle_rx,
rx2_complete}`, `region::Configuration::create_tx_config`, `TxConfig::adjust_power`, `Mac::rx_windows` (which reads
`configuration` and `region` only) -/
structure Ops where
  session_new : NwkSKey → AppSKey → DevAddr → Session
  session_prepare_buffer : Session → SendData → RadioBuffer → Configuration → RegionCfg → Option (Int × Session × RadioBuffer)
  session_handle_rx : Session → RegionCfg → Configuration → RadioBuffer → List Downlink → Int → Int → Bool →
    Option (Response × Session × RegionCfg × Configuration × RadioBuffer × List Downlink)
  session_rx2_complete : Session → Configuration → RegionCfg → Option (Response × Session × Configuration)
  otaa_new : NetworkCredentials → Otaa
  otaa_prepare_buffer : Otaa → RNG → RadioBuffer → Option (Int × Otaa × RNG × RadioBuffer)
  otaa_handle_rx : Otaa → RegionCfg → Configuration → RadioBuffer → Option (Option Session × Otaa × RegionCfg × Configuration × RadioBuffer)
  otaa_rx2_complete : Otaa → Response × Otaa
  create_tx_config : RegionCfg → RNG → DR → Frame → Option ((TxConfig × TxChannel) × RegionCfg × RNG)
  adjust_power : TxConfig → Int → Int → Option TxConfig
  rx_windows : Configuration → RegionCfg → TxChannel → Option RxWindows
variable (ops : Ops)
def Mac.rx_windows (self : Mac) (tx_channel : TxChannel) : Option RxWindows := ops.rx_windows self.configuration self.region tx_channel
"#;

/// Lean text of the abstract part of `Gen.MacRfFn`
const MAC_RF_RAW: &str = r#"/-- what the three methods observe of `region::Configuration`: the four lookups they call
(`get_rx_datarate`: `none` = a panic inside the region's table lookup) -/
structure RegionCfg where
  get_datarate : Int → Option Datarate
  get_rx_datarate : DR → Int → Window → Option DR
  get_coding_rate : CodingRate
  get_rx2_frequency : Int

/-- the fields `configuration`, `region` of `Mac` (the others are not read) -/
structure Mac where
  configuration : Configuration
  region : RegionCfg
"#;

/// Lean text of the abstract part of `Gen.SessionMacs`
const SESSION_MACS_RAW1: &str = r#"/-- what `add_mac_command` observes of its `M: SerializableMacCommand` argument -/
structure SerializableMacCommand where
  cid : Int
  payload_bytes : List Int
  payload_len : Int
  deriving DecidableEq, Repr
/-- `ChannelMask<N>`: its bytes (the handler only passes masks between the region's methods) -/
structure ChannelMask where
  bytes : List Int
  deriving DecidableEq, Repr
/-! The payload views of the downlink MAC commands (maccommands.rs): the fields `handle_downlink_macs` reads.
Parsing stays abstract — a command is what its accessors yield. -/
structure Frequency where
  value : Int
  deriving DecidableEq, Repr
structure Redundancy where
  channel_mask_control : Int
  deriving DecidableEq, Repr
structure LinkCheckAnsPayload where
  bytes : List Int
  deriving DecidableEq, Repr
structure LinkADRReqPayload where
  data_rate : DR
  tx_power : DR
  channel_mask : ChannelMask
  redundancy : Redundancy
  deriving DecidableEq, Repr
structure DutyCycleReqPayload where
  bytes : List Int
  deriving DecidableEq, Repr
structure RXParamSetupReqPayload where
  dl_settings : DLSettings
  frequency : Frequency
  deriving DecidableEq, Repr
structure DevStatusReqPayload where
  deriving DecidableEq, Repr
structure NewChannelReqPayload where
  channel_index : Int
  frequency : Frequency
  /-- `data_rate_range()`: `Err` when min > max -/
  data_rate_range : Option DataRateRange
  deriving DecidableEq, Repr
structure RXTimingSetupReqPayload where
  delay : Int
  deriving DecidableEq, Repr
structure TXParamSetupReqPayload where
  bytes : List Int
  deriving DecidableEq, Repr
structure DlChannelReqPayload where
  channel_index : Int
  frequency : Frequency
  deriving DecidableEq, Repr
structure DeviceTimeAnsPayload where
  bytes : List Int
  deriving DecidableEq, Repr
"#;
const SESSION_MACS_RAW2: &str = r#"/-! The answer creators (maccommandcreator.rs; the structs and their `SerializableMacCommand` impls are
macro-generated): hand-written mirror — a creator is the record of its settable fields, serialised as CID and
status byte (bit 0, 1, 2 in the order of the LoRaWAN answer formats).  The margin byte is
`Gen.UplinkStatic.DevStatusAnsCreator.set_margin.byte`, regenerated from the source. -/
structure DevStatusAnsCreator where
  battery : Int
  margin : Int
  deriving DecidableEq, Repr
def DevStatusAnsCreator.new : DevStatusAnsCreator := ⟨0, 0⟩
def DevStatusAnsCreator.set_battery (self : DevStatusAnsCreator) (battery : Int) : DevStatusAnsCreator := { self with battery := battery }
/-- `set_margin`: `Err(MarginOutOfRange)` leaves the creator unchanged (outer `none`: a panic in the byte arithmetic) -/
def DevStatusAnsCreator.set_margin (self : DevStatusAnsCreator) (margin : Int) : Option (Option Unit × DevStatusAnsCreator) :=
  (Gen.UplinkStatic.DevStatusAnsCreator.set_margin.byte margin).map fun r =>
    match r with
    | some b => (some (), { self with margin := b })
    | none => (none, self)
instance : Coe DevStatusAnsCreator SerializableMacCommand := ⟨fun c => ⟨0x06, [c.battery, c.margin], 2⟩⟩
structure DlChannelAnsCreator where
  channel_frequency_ack : Bool
  uplink_frequency_exists_ack : Bool
  deriving DecidableEq, Repr
def DlChannelAnsCreator.new : DlChannelAnsCreator := ⟨false, false⟩
def DlChannelAnsCreator.set_channel_frequency_ack (self : DlChannelAnsCreator) (ack : Bool) : DlChannelAnsCreator := { self with channel_frequency_ack := ack }
def DlChannelAnsCreator.set_uplink_frequency_exists_ack (self : DlChannelAnsCreator) (ack : Bool) : DlChannelAnsCreator := { self with uplink_frequency_exists_ack := ack }
instance : Coe DlChannelAnsCreator SerializableMacCommand :=
  ⟨fun c => ⟨0x0A, [Rt.b2i c.channel_frequency_ack + 2 * Rt.b2i c.uplink_frequency_exists_ack], 1⟩⟩
structure LinkADRAnsCreator where
  channel_mask_ack : Bool
  data_rate_ack : Bool
  tx_power_ack : Bool
  deriving DecidableEq, Repr
def LinkADRAnsCreator.new : LinkADRAnsCreator := ⟨false, false, false⟩
def LinkADRAnsCreator.set_channel_mask_ack (self : LinkADRAnsCreator) (ack : Bool) : LinkADRAnsCreator := { self with channel_mask_ack := ack }
def LinkADRAnsCreator.set_data_rate_ack (self : LinkADRAnsCreator) (ack : Bool) : LinkADRAnsCreator := { self with data_rate_ack := ack }
def LinkADRAnsCreator.set_tx_power_ack (self : LinkADRAnsCreator) (ack : Bool) : LinkADRAnsCreator := { self with tx_power_ack := ack }
instance : Coe LinkADRAnsCreator SerializableMacCommand :=
  ⟨fun c => ⟨0x03, [Rt.b2i c.channel_mask_ack + 2 * Rt.b2i c.data_rate_ack + 4 * Rt.b2i c.tx_power_ack], 1⟩⟩
structure NewChannelAnsCreator where
  channel_frequency_ack : Bool
  data_rate_range_ack : Bool
  deriving DecidableEq, Repr
def NewChannelAnsCreator.new : NewChannelAnsCreator := ⟨false, false⟩
def NewChannelAnsCreator.set_channel_frequency_ack (self : NewChannelAnsCreator) (ack : Bool) : NewChannelAnsCreator := { self with channel_frequency_ack := ack }
def NewChannelAnsCreator.set_data_rate_range_ack (self : NewChannelAnsCreator) (ack : Bool) : NewChannelAnsCreator := { self with data_rate_range_ack := ack }
instance : Coe NewChannelAnsCreator SerializableMacCommand :=
  ⟨fun c => ⟨0x07, [Rt.b2i c.channel_frequency_ack + 2 * Rt.b2i c.data_rate_range_ack], 1⟩⟩
structure RXParamSetupAnsCreator where
  channel_ack : Bool
  rx2_data_rate_ack : Bool
  rx1_data_rate_offset_ack : Bool
  deriving DecidableEq, Repr
def RXParamSetupAnsCreator.new : RXParamSetupAnsCreator := ⟨false, false, false⟩
def RXParamSetupAnsCreator.set_channel_ack (self : RXParamSetupAnsCreator) (ack : Bool) : RXParamSetupAnsCreator := { self with channel_ack := ack }
def RXParamSetupAnsCreator.set_rx2_data_rate_ack (self : RXParamSetupAnsCreator) (ack : Bool) : RXParamSetupAnsCreator := { self with rx2_data_rate_ack := ack }
def RXParamSetupAnsCreator.set_rx1_data_rate_offset_ack (self : RXParamSetupAnsCreator) (ack : Bool) : RXParamSetupAnsCreator := { self with rx1_data_rate_offset_ack := ack }
instance : Coe RXParamSetupAnsCreator SerializableMacCommand :=
  ⟨fun c => ⟨0x05, [Rt.b2i c.channel_ack + 2 * Rt.b2i c.rx2_data_rate_ack + 4 * Rt.b2i c.rx1_data_rate_offset_ack], 1⟩⟩
structure RXTimingSetupAnsCreator where
  deriving DecidableEq, Repr
def RXTimingSetupAnsCreator.new : RXTimingSetupAnsCreator := ⟨⟩
instance : Coe RXTimingSetupAnsCreator SerializableMacCommand := ⟨fun _ => ⟨0x08, [], 0⟩⟩
"#;
const SESSION_MACS_RAW3: &str = r#"/-- what `handle_downlink_macs` calls on `region::Configuration` (macro-dispatched to the plan in the source;
abstract here).  `&mut self` methods return the region; `Option`-valued results: `none` = a panic inside -/
class MacRegionOps (ρ : Type) where
  channel_mask_get : ρ → ChannelMask
  has_fixed_channel_plan : ρ → Bool
  channel_dl_update : ρ → Int → Int → Option ((Bool × Bool) × ρ)
  channel_mask_update : ρ → ChannelMask → Int → ChannelMask → Option (Option Unit × ChannelMask)
  is_uplink_datarate : ρ → Int → Bool
  check_tx_power : ρ → Int → Option (Option (Option Int))
  channel_mask_validate : ρ → ChannelMask → Option DR → Option Bool
  channel_mask_set : ρ → ChannelMask → ρ
  handle_new_channel : ρ → Int → Int → Option DataRateRange → Option ((Bool × Bool) × ρ)
  frequency_valid : ρ → Int → Bool
  rx1_dr_offset_validate : ρ → Int → Option Int
  get_datarate : ρ → Int → Option Datarate
variable {RegionCfg : Type} [MacRegionOps RegionCfg]
"#;

/// Lean text of the abstract part of `Gen.DynPlanFn`
const DYN_PLAN_RAW1: &str = r#"/-- `ChannelMask<9>`: its bytes; the bit operations on it are abstract (`MaskFns`) -/
structure ChannelMask where
  bytes : List Int
  deriving DecidableEq, Repr
"#;
const DYN_PLAN_RAW2: &str = r#"/-- what the two handlers read of the plan's region type `R: DynamicChannelRegion` and of the band test the
plan was constructed with (`State::new` wires it; `Gen.RegionStatic`) -/
structure DynRegion where
  NUM_JOIN_CHANNELS : Int
  datarates : List (Option Datarate)
  frequency_valid : Int → Bool
variable (R : DynRegion)
/-- `DynamicChannelPlan::frequency_valid(&self, f)`: calls the stored function pointer -/
def DynamicChannelPlan.frequency_valid (self : DynamicChannelPlan) (freq : Int) : Bool := R.frequency_valid freq
/-- the two `ChannelMask` methods the handlers call: `set_channel` (`none` = out-of-bounds panic) and
`is_enabled` (`none` = `Err(InvalidIndex)`) -/
structure MaskFns where
  set_channel : ChannelMask → Int → Bool → Option ChannelMask
  is_enabled : ChannelMask → Int → Option Bool
variable (mops : MaskFns)
"#;

/// Lean text of the abstract part of `Gen.SessionRx`
const SESSION_RX_RAW1: &str = r#"/-! Keys and addresses are opaque identities; a crypto context is the key it is bound to.  Parsing,
MIC validity and decryption are abstract: the received bytes are what the parser yields on them. -/
structure AES128 where
  id : Int
  deriving DecidableEq, Repr
structure NwkSKey where
  inner : AES128
  deriving DecidableEq, Repr
structure AppSKey where
  inner : AES128
  deriving DecidableEq, Repr
structure DevAddr where
  id : Int
  deriving DecidableEq, Repr
structure DefaultCrypto where
  new ::
  key : AES128
  deriving DecidableEq, Repr
structure Fhdr where
  fcnt : Int
  f_opts : List Int
  /-- builder Y — `dev_addr()`: the DevAddr field of the frame header -/
  dev_addr : DevAddr
  deriving DecidableEq, Repr
/-- a byte string `EncryptedDataPayload::parse` accepted: what `handle_rx` reads of it, and for which
(crypto context, 32-bit counter) its MIC verifies -/
structure EncryptedDataPayload where
  as_bytes : List Int
  is_confirmed : Bool
  fhdr : Fhdr
  validate_mic : DefaultCrypto → Int → Bool
  /-- `is_uplink()`: the MType of the MHDR is an uplink type (Unconfirmed/ConfirmedDataUp) -/
  is_uplink : Bool
/-- the decrypted frame -/
structure DecryptedDataPayload where
  fhdr : Fhdr
  f_port : Option Int
  frm_payload : FrmPayload
/-- the received bytes: the result of `EncryptedDataPayload::parse` and of
`DecryptedDataPayload::decrypt_in_place(bytes, nwk, app, fcnt)` on them (`none` = `Err`) -/
structure RxBytes where
  parse : Option EncryptedDataPayload
  decrypt_in_place : Option DefaultCrypto → Option DefaultCrypto → Int → Option DecryptedDataPayload
structure RadioBuffer where
  as_mut_for_read : RxBytes
/-- `parse_downlink_mac_commands(bytes)`: the command iterator is the byte string it runs over -/
structure MacCmdBytes where
  bytes : List Int
  deriving DecidableEq, Repr
/-- `heapless::Vec::<u8, 256>::from_slice` (the capacity is that of `Downlink::data`; the translator
checks it against the field when the value is stored) -/
def Downlink.data_from_slice (s : List Int) : Option (List Int) := if (s.length : Int) ≤ 256 then some s else none
"#;
const SESSION_RX_RAW2: &str = r#"/-- what `handle_rx` calls on the region and on itself for the MAC commands (abstract here):
`next_lower_datarate(region, dr)` and `Session::handle_downlink_macs(&mut self, configuration, region,
cmds, snr, answers_full)` (`none` = panic) -/
class MacOps (ρ : Type) where
  next_lower : ρ → DR → Option DR
  handle_downlink_macs : Session → Configuration → ρ → MacCmdBytes → Int → Bool → Option (Session × Configuration × ρ × Bool)
variable {RegionCfg : Type} [MacOps RegionCfg]
"#;

/// Lean text of the abstract part of `Gen.SessionTx`
const SESSION_TX_RAW1: &str = r#"/-! Keys and addresses are opaque identities; a crypto context is the key it is bound to. -/
structure AES128 where
  id : Int
  deriving DecidableEq, Repr
structure NwkSKey where
  inner : AES128
  deriving DecidableEq, Repr
structure AppSKey where
  inner : AES128
  deriving DecidableEq, Repr
structure DevAddr where
  id : Int
  deriving DecidableEq, Repr
structure DefaultCrypto where
  new ::
  key : AES128
  deriving DecidableEq, Repr
/-- what the translated method observes of `region::Configuration`: the result of
`next_lower_datarate(region, dr)` (a loop over `region.get_datarate`; abstract here) -/
structure RegionCfg where
  next_lower : DR → Option DR
def next_lower_datarate (region : RegionCfg) (current : DR) : Option DR := region.next_lower current
"#;
const SESSION_TX_RAW2: &str = r#"/-- frame encryption and MIC stay abstract: `DataFrame::build_into(buf, nwk, app)` is a parameter
(`none` = `Err`) -/
structure FrameCodec where
  build_into : DataFrame → List Int → DefaultCrypto → Option DefaultCrypto → Option (List Int)
variable (codec : FrameCodec)
/-- what `prepare_buffer` calls on the radio buffer (`extend_from_slice`: the `Result` and the buffer) -/
class TxBufOps (β : Type) where
  clear : β → β
  extend_from_slice : β → List Int → (Option Unit × β)
variable {RadioBuffer : Type} [TxBufOps RadioBuffer]
"#;

/// Lean text of the abstract part of `Gen.OtaaFn`
const OTAA_RAW: &str = r#"/-! The crypto and the region stay abstract.  Keys, addresses and nonces are opaque identities. -/
structure AES128 where
  id : Int
  deriving DecidableEq, Repr
structure AppKey where
  inner : AES128
  deriving DecidableEq, Repr
structure NwkSKey where
  id : Int
  deriving DecidableEq, Repr
structure AppSKey where
  id : Int
  deriving DecidableEq, Repr
structure DevAddr where
  id : Int
  deriving DecidableEq, Repr
structure DevNonce where
  value : Int
  deriving DecidableEq, Repr
/-- `DefaultCrypto::new(key)`: a crypto context is the key it is bound to -/
structure DefaultCrypto where
  new ::
  key : AES128
  deriving DecidableEq, Repr
/-- the CFList of a JoinAccept as the parser exposes it (`lorawan::parser::CfList`) -/
inductive CfList where
  | DynamicChannel (freqs : List Int)
  | FixedChannel (mask : List Int)
  deriving DecidableEq, Repr
/-- the decrypted view of a JoinAccept: the fields `Otaa::handle_rx` reads and the two key derivations
(functions of the DevNonce and the crypto context; AES itself is not modelled) -/
structure DecryptedJoinAcceptPayload where
  c_f_list : Option CfList
  rx_delay : Int
  dl_settings : DLSettings
  dev_addr : DevAddr
  derive_nwkskey : DevNonce → DefaultCrypto → NwkSKey
  derive_appskey : DevNonce → DefaultCrypto → AppSKey
/-- the received bytes: what `check_mic_and_decrypt_in_place` yields on them under a crypto context
(`none` = `Err`: not a JoinAccept, or the MIC does not verify) -/
structure RxBytes where
  check_mic_and_decrypt_in_place : DefaultCrypto → Option DecryptedJoinAcceptPayload
structure RadioBuffer where
  as_mut_for_read : RxBytes
/-- what the join step calls on `region::Configuration` (macro-dispatched to the plan in the source;
abstract here): `process_join_accept` (`&mut self`; `none` = panic), `rx1_dr_offset_validate`, `get_datarate` -/
class RegionOps (ρ : Type) where
  process_join_accept : ρ → Option CfList → Option ρ
  rx1_dr_offset_validate : ρ → Int → Option Int
  get_datarate : ρ → Int → Option Datarate
variable {RegionCfg : Type} [RegionOps RegionCfg]
"#;

/// Lean text of the abstract part of `Gen.PlanSelectFn` (builder V)
const PLAN_SELECT_RAW: &str = r#"/-- what `select_tx_channel` reads of the plan's region type `R: DynamicChannelRegion` -/
structure DynRegion where
  NUM_JOIN_CHANNELS : Int
  datarates : List (Option Datarate)
variable (R : DynRegion)
/-- the random generator `RNG: RngCore`: `next_u32` on a generator state of any type -/
class RngCore (RNG : Type) where
  next_u32 : RNG → Int × RNG
variable {RNG : Type} [RngCore RNG]
/-- how many steps a redraw loop may take before the translation answers `none` -/
class LoopFuel where
  fuel : Nat
variable [LoopFuel]
/-- what `FixedChannelPlan::select_tx_channel` reads of the plan's region type `F: FixedChannelRegion` -/
structure FixRegion where
  JOIN_DR_500KHZ : DR
  datarates : List (Option Datarate)
  uplink_channels : List Int
  downlink_channels : List Int
variable (F : FixRegion)
/-- `AvailableChannels` (the join-channel walk: a `ChannelMask<9>` of the channels not tried yet, the last one tried) -/
structure AvailableChannels where
  data : ChannelMask
  previous : Option Int
  deriving DecidableEq, Repr
"#;
const PLAN_SELECT_RAW2: &str = r#"/-- the bank walk `JoinChannels::get_next_channel(&mut self, rng)` (`none` = a panic or its redraw loop out of fuel) -/
class JcOps (RNG : Type) where
  get_next_channel : JoinChannels → RNG → Option (Int × JoinChannels × RNG)
variable [JcOps RNG]
"#;

const CODEC_FN_RAW: &str = r#"/-- the trait object `&dyn Crypto` (keys.rs), bound to its key: `calculate_mic(&self, b0, data) -> [u8; 4]` and
`encrypt_block(&self, block: &mut [u8])` (state passing: the block afterwards; `none` = panic) -/
structure Crypto where
  calculate_mic : List Int → List Int → List Int
  encrypt_block : List Int → Option (List Int)
"#;

/// builder B: the `RadioKind` of `LoRa<RK, DLY>` as `get_rx_result` / `complete_rx` see it
const LORA_RX_RAW: &str = r#"set_option warn.classDefReducibility false
/-- the `RadioKind` of `LoRa<RK, DLY>`: its state type and the two methods the receive result is fetched with: `none` = a
panic; the inner `Option` is the `Result` (`none` = `Err`); the driver state and (for `get_rx_payload`) the caller's
buffer come back in both cases -/
class RkOps where
  RK : Type
  [decRK : DecidableEq RK]
  [reprRK : Repr RK]
  get_rx_payload : RK → PacketParams → List Int → Option (Option Int × RK × List Int)
  get_rx_packet_status : RK → Option (Option PacketStatus × RK)
attribute [instance] RkOps.decRK RkOps.reprRK
variable [K : RkOps]
abbrev RK := K.RK
"#;
