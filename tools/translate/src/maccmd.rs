//! builder U — `Gen.MacCmdFn`: the downlink MAC-command iterator and the payload accessors.
//!
//! The payload structs, their `new_from_raw` / `max_len`, and `MacCommandSet::parse_one` do not exist as Rust
//! items in the repository: `#[derive(CommandHandler)]` (lorawan-macros/src/lib.rs) generates them from
//! `quote!` templates.  The extractors below EXPAND those templates the way `quote!` does (token-level
//! interpolation of `#var` and `#( #var )*`) for the variants of `DownlinkMacCommand`, with the values of the
//! `#[cmd(cid = .., len = ..)]` attributes read from maccommands.rs, parse the result as Rust and hand it to the
//! ordinary function translator.  Which template applies to which variant (`match len_opt`, `if let Some(lt)`)
//! mirrors the macro's control flow by hand (trusted, a dozen lines: `expand`).
//!
//! `Result<_, ParseError>` carries an error that IS inspected (unknown CID vs. truncation), which the
//! translator's `Result = Option` reading would lose; the two `Result` types of the framing step are therefore
//! rendered as two-constructor inductives (`ParseOne`, `NextItem`) by renaming `Ok` / `Err` (`ResultAs`).
//! `macro_rules!` accessors (`create_value_reader_fn!`) are expanded from the macro's own body.
use crate::ir::Ty;
use crate::tr::{FnSig, FnTr, Registry, Res};
use proc_macro2::{Delimiter, Group, TokenStream, TokenTree};
use quote::ToTokens;
use std::collections::HashMap;
use std::fmt::Write as _;
use syn::visit_mut::VisitMut;
use syn::*;

const SET: &str = "DownlinkMacCommand";

pub(crate) fn new_tr<'a>(reg: &'a Registry, self_ty: Option<String>, prefix: &str) -> FnTr<'a> {
    FnTr { reg, self_ty, ret: Ty::Unit, counter: 0, fn_prefix: prefix.to_string(), local_fns: HashMap::new(), extra_defs: vec![], muts: vec![], tparams: HashMap::new() }
}

/// every `quote! { .. }` of the derive, as token streams
pub(crate) fn quote_templates(mac_file: &File) -> Vec<TokenStream> {
    use syn::visit::Visit;
    struct V(Vec<TokenStream>);
    impl<'ast> Visit<'ast> for V {
        fn visit_macro(&mut self, m: &'ast Macro) {
            if m.path.segments.last().map(|s| s.ident == "quote").unwrap_or(false) {
                self.0.push(m.tokens.clone());
            }
        }
    }
    let mut v = V(vec![]);
    v.visit_file(mac_file);
    v.0
}

fn squash(ts: &TokenStream) -> String {
    ts.to_string().chars().filter(|c| !c.is_whitespace()).collect()
}

/// the one template whose text contains every `has` and none of `not`
pub(crate) fn pick<'t>(ts: &'t [TokenStream], what: &str, has: &[&str], not: &[&str]) -> Res<&'t TokenStream> {
    let c: Vec<&TokenStream> = ts.iter().filter(|t| {
        let s = squash(t);
        has.iter().all(|h| s.contains(h)) && !not.iter().any(|n| s.contains(n))
    }).collect();
    match c.as_slice() {
        [t] => Ok(t),
        _ => Err(format!("lorawan-macros: expected exactly one quote! template for {}, found {}", what, c.len())),
    }
}

/// `quote!` interpolation: `#name` → `subst[name]`; `#( .. )*` / `#( .. ),*` → `subst["(<inner>)"]` (`#( #doc )*` → nothing);
/// `#[attr]` is kept
pub(crate) fn interp(ts: &TokenStream, subst: &HashMap<String, TokenStream>) -> Res<TokenStream> {
    let toks: Vec<TokenTree> = ts.clone().into_iter().collect();
    let mut out = TokenStream::new();
    let mut i = 0;
    while i < toks.len() {
        match &toks[i] {
            TokenTree::Punct(p) if p.as_char() == '#' && i + 1 < toks.len() => match &toks[i + 1] {
                TokenTree::Ident(id) => {
                    let k = id.to_string();
                    let v = subst.get(&k).ok_or(format!("lorawan-macros: template variable #{} is not modelled", k))?;
                    out.extend(v.clone());
                    i += 2;
                }
                TokenTree::Group(g) if g.delimiter() == Delimiter::Parenthesis => {
                    let inner = squash(&g.stream());
                    i += 2;
                    // optional separator, then `*`
                    while i < toks.len() {
                        let star = matches!(&toks[i], TokenTree::Punct(p) if p.as_char() == '*');
                        i += 1;
                        if star {
                            break;
                        }
                    }
                    if inner == "#doc" {
                        continue;
                    }
                    let v = subst.get(&format!("({})", inner)).ok_or(format!("lorawan-macros: repetition #({})* is not modelled", inner))?;
                    out.extend(v.clone());
                }
                _ => {
                    out.extend(std::iter::once(toks[i].clone()));
                    i += 1;
                }
            },
            TokenTree::Group(g) => {
                let mut ng = Group::new(g.delimiter(), interp(&g.stream(), subst)?);
                ng.set_span(g.span());
                out.extend(std::iter::once(TokenTree::Group(ng)));
                i += 1;
            }
            t => {
                out.extend(std::iter::once(t.clone()));
                i += 1;
            }
        }
    }
    Ok(out)
}

pub(crate) fn ts(s: &str) -> TokenStream {
    s.parse().unwrap()
}

/// What the derive emits for the command set `SET`: the payload structs with their inherent impls and the
/// `MacCommandSet` impl.  Mirrors `derive_command_handler`: per variant, `Some(lt)` → the lifetimed struct template
/// (+ the fixed-length impl when `len` is given), no lifetime → the unit-struct template; one `parse_one` arm per
/// variant (fixed / variable length by `len_opt`), in source order.
fn expand(files: &[File]) -> Res<(File, Vec<crate::tables::CmdEntry>)> {
    expand_of(SET, files)
}

/// builder F: the same for any of the six command sets (the enum is looked up in every file of the unit)
pub(crate) fn expand_of(set: &str, files: &[File]) -> Res<(File, Vec<crate::tables::CmdEntry>)> {
    let mut sets = vec![];
    for f in files {
        sets.extend(crate::tables::cmd_enums(f)?);
    }
    let (_, entries) = sets.into_iter().find(|(n, _)| n == set).ok_or(format!("enum {} not found", set))?;
    let mac = files.last().ok_or("no macro file")?;
    let q = quote_templates(mac);
    let t_lt = pick(&q, "the lifetimed payload struct", &["fnnew_from_raw", "#lt"], &[])?;
    let t_unit = pick(&q, "the unit payload struct", &["fnnew_from_raw"], &["#lt"])?;
    let t_fixed = pick(&q, "the fixed-length impl", &["fnmax_len", "#len"], &[])?;
    let t_arm_fixed = pick(&q, "the fixed-length parse_one arm", &["#cid=>", "max_len", "Truncated"], &[])?;
    let t_arm_var = pick(&q, "the variable-length parse_one arm", &["#cid=>", "rest", "Truncated"], &[])?;
    let t_body = pick(&q, "the parse_one body", &["letcid=data[0]"], &[])?;
    let t_impl = pick(&q, "the MacCommandSet impl", &["fnparse_one", "#handler<#lt>"], &[])?;
    let mut src = TokenStream::new();
    let mut arms = TokenStream::new();
    for e in &entries {
        let mut s: HashMap<String, TokenStream> = HashMap::new();
        s.insert("t".into(), ts(&e.payload));
        s.insert("n".into(), ts(&e.variant));
        s.insert("lt".into(), ts("'a"));
        s.insert("cid".into(), ts(&format!("{}", e.cid)));
        if let Some(l) = e.len {
            s.insert("len".into(), ts(&format!("{}", l)));
        }
        if e.has_lifetime {
            src.extend(interp(t_lt, &s)?);
            if e.len.is_some() {
                src.extend(interp(t_fixed, &s)?);
            }
        } else {
            src.extend(interp(t_unit, &s)?);
        }
        arms.extend(interp(if e.len.is_some() { t_arm_fixed } else { t_arm_var }, &s)?);
    }
    let mut s: HashMap<String, TokenStream> = HashMap::new();
    s.insert("(#impl_parse_one)".into(), arms);
    let body = interp(t_body, &s)?;
    let mut s: HashMap<String, TokenStream> = HashMap::new();
    s.insert("handler".into(), ts(set));
    s.insert("lt".into(), ts("'a"));
    s.insert("parse_one_body".into(), body);
    src.extend(interp(t_impl, &s)?);
    let file: File = syn::parse2(src.clone()).map_err(|e| format!("expansion of the CommandHandler derive does not parse: {} in {}", e, src))?;
    Ok((file, entries))
}

pub(crate) fn impl_fn<'f>(file: &'f File, ty: &str, name: &str) -> Option<(&'f Signature, &'f Block)> {
    for it in &file.items {
        if let Item::Impl(im) = it {
            let self_name = match &*im.self_ty {
                Type::Path(p) => p.path.segments.last().map(|s| s.ident.to_string()),
                _ => None,
            };
            if self_name.as_deref() != Some(ty) {
                continue;
            }
            for ii in &im.items {
                if let ImplItem::Fn(f) = ii {
                    if f.sig.ident == name {
                        return Some((&f.sig, &f.block));
                    }
                }
            }
        }
    }
    None
}

pub(crate) fn emit_fn(reg: &mut Registry, out: &mut String, ty: Option<&str>, name: &str, sig: &Signature, body: &Block) -> Res<()> {
    let lean = match ty {
        Some(t) => format!("{}.{}", t, name),
        None => name.to_string(),
    };
    let (text, fsig, extra): (String, FnSig, Vec<String>) = {
        let mut tr = new_tr(reg, ty.map(|s| s.to_string()), &lean);
        let (text, fsig) = tr.function(sig, body, &lean).map_err(|e| format!("fn {}: {}", lean, e))?;
        (text, fsig, tr.extra_defs)
    };
    for d in extra {
        out.push_str(&d);
        out.push('\n');
    }
    out.push_str(&text);
    out.push('\n');
    let key = match ty {
        Some(t) => format!("{}::{}", t, name),
        None => name.to_string(),
    };
    reg.fns.insert(key, fsig);
    Ok(())
}

/// stage 1: the payload structs of the set (newtypes over `&[u8]`, or field-less for the unit payloads) with the
/// derive-generated `new_from_raw` and `max_len`
pub fn payloads(files: &[File], _n: &[String], reg: &mut Registry, out: &mut String) -> Res<()> {
    let (exp, entries) = expand(files)?;
    writeln!(out, "/-! The payload structs `#[derive(CommandHandler)]` generates for `{}` (expanded from the `quote!` templates of\nlorawan-macros/src/lib.rs with the `#[cmd(cid, len)]` attributes of maccommands.rs), with `new_from_raw` / `max_len`. -/", SET).unwrap();
    for e in &entries {
        let it = exp.items.iter().find_map(|it| match it {
            Item::Struct(s) if s.ident == e.payload => Some(s),
            _ => None,
        }).ok_or(format!("expansion: struct {} missing", e.payload))?;
        match &it.fields {
            Fields::Unnamed(fu) if fu.unnamed.len() == 1 => {
                let fty = new_tr(reg, Some(e.payload.clone()), "").ty(&fu.unnamed[0].ty)?;
                writeln!(out, "structure {} where\n  _0 : {}\n  deriving DecidableEq, Repr\n", e.payload, fty.lean()).unwrap();
                reg.structs.insert(e.payload.clone(), vec![("0".to_string(), fty)]);
            }
            Fields::Unnamed(fu) if fu.unnamed.is_empty() => {
                writeln!(out, "structure {} where\n  deriving DecidableEq, Repr\n", e.payload).unwrap();
                reg.structs.insert(e.payload.clone(), vec![]);
            }
            _ => return Err(format!("expansion: struct {} has an unexpected shape", e.payload)),
        }
        for f in ["new_from_raw", "max_len"] {
            let (sig, body) = impl_fn(&exp, &e.payload, f).ok_or(format!("expansion: {}::{} missing", e.payload, f))?;
            emit_fn(reg, out, Some(&e.payload), f, sig, body)?;
        }
    }
    Ok(())
}

/// `Ok` / `Err` of one `Result` type renamed to the constructors of an inductive the unit declares
pub(crate) struct ResultAs {
    /// for expressions
    pub(crate) expr: Option<&'static str>,
    /// for patterns
    pub(crate) pat: Option<&'static str>,
}
impl ResultAs {
    fn path(en: &str, v: &str) -> Path {
        syn::parse_str(&format!("{}::{}", en, v)).unwrap()
    }
}
impl VisitMut for ResultAs {
    fn visit_expr_call_mut(&mut self, c: &mut ExprCall) {
        syn::visit_mut::visit_expr_call_mut(self, c);
        if let (Some(en), Expr::Path(p)) = (self.expr, &mut *c.func) {
            if p.path.is_ident("Ok") || p.path.is_ident("Err") {
                let v = p.path.segments[0].ident.to_string();
                p.path = Self::path(en, &v);
                // `Ok((a, b))` → `Ok(a, b)`
                if c.args.len() == 1 {
                    if let Expr::Tuple(t) = &c.args[0] {
                        let elems = t.elems.clone();
                        c.args = elems;
                    }
                }
            }
        }
    }
    fn visit_pat_tuple_struct_mut(&mut self, p: &mut PatTupleStruct) {
        syn::visit_mut::visit_pat_tuple_struct_mut(self, p);
        if let Some(en) = self.pat {
            if p.path.is_ident("Ok") || p.path.is_ident("Err") {
                let v = p.path.segments[0].ident.to_string();
                p.path = Self::path(en, &v);
                if p.elems.len() == 1 {
                    if let Pat::Tuple(t) = &p.elems[0] {
                        let elems = t.elems.clone();
                        p.elems = elems;
                    }
                }
            }
        }
    }
}

/// stage 2: the framing step — the derive-generated `parse_one` of the set and `MacCommands::next` for it
pub fn framing(files: &[File], _n: &[String], reg: &mut Registry, out: &mut String) -> Res<()> {
    let (exp, _) = expand(files)?;
    writeln!(out, "/-- `Result<({}, usize), ParseError>` (what `parse_one` returns) -/\ninductive ParseOne where\n  | Ok (a0 : {}) (a1 : Int)\n  | Err (a0 : ParseError)\n  deriving DecidableEq, Repr\n", SET, SET).unwrap();
    writeln!(out, "/-- `Result<{}, ParseError>` (the iterator's item) -/\ninductive NextItem where\n  | Ok (a0 : {})\n  | Err (a0 : ParseError)\n  deriving DecidableEq, Repr\n", SET, SET).unwrap();
    reg.enums.insert("ParseOne".into(), vec![]);
    reg.enum_data.insert("ParseOne".into(), vec![("Ok".into(), vec![Ty::Named(SET.into()), Ty::Int("usize")]), ("Err".into(), vec![Ty::Named("ParseError".into())])]);
    reg.enums.insert("NextItem".into(), vec![]);
    reg.enum_data.insert("NextItem".into(), vec![("Ok".into(), vec![Ty::Named(SET.into())]), ("Err".into(), vec![Ty::Named("ParseError".into())])]);
    // parse_one
    let (sig, body) = impl_fn(&exp, SET, "parse_one").ok_or("expansion: parse_one missing")?;
    let mut sig = sig.clone();
    let mut body = body.clone();
    sig.output = parse_quote!(-> ParseOne);
    ResultAs { expr: Some("ParseOne"), pat: None }.visit_block_mut(&mut body);
    emit_fn(reg, out, Some(SET), "parse_one", &sig, &body)?;
    // MacCommands::next for T = the set
    let (sig, body) = impl_fn(&files[0], "MacCommands", "next").ok_or("MacCommands::next not found")?;
    let mut sig = sig.clone();
    let mut body = body.clone();
    sig.output = parse_quote!(-> Option<NextItem>);
    ResultAs { expr: Some("NextItem"), pat: Some("ParseOne") }.visit_block_mut(&mut body);
    struct TSet;
    impl VisitMut for TSet {
        fn visit_path_mut(&mut self, p: &mut Path) {
            if p.segments.len() == 2 && p.segments[0].ident == "T" {
                p.segments[0].ident = Ident::new(SET, p.segments[0].ident.span());
            }
            syn::visit_mut::visit_path_mut(self, p);
        }
    }
    TSet.visit_block_mut(&mut body);
    emit_fn(reg, out, Some("MacCommands"), "next", &sig, &body)?;
    Ok(())
}

/// `macro_rules! name { ( .. ) => ( body ) }` of maccommands.rs: the body tokens of its single rule
fn macro_rules_body(file: &File, name: &str) -> Res<TokenStream> {
    for it in &file.items {
        if let Item::Macro(m) = it {
            if m.ident.as_ref().map(|i| i == name).unwrap_or(false) {
                let toks: Vec<TokenTree> = m.mac.tokens.clone().into_iter().collect();
                // ( matcher ) => ( body )
                return match toks.as_slice() {
                    [TokenTree::Group(_), TokenTree::Punct(a), TokenTree::Punct(b), TokenTree::Group(body), ..] if a.as_char() == '=' && b.as_char() == '>' => Ok(body.stream()),
                    _ => Err(format!("macro_rules! {}: expected a single rule `( .. ) => ( .. )`", name)),
                };
            }
        }
    }
    Err(format!("macro_rules! {} not found", name))
}

/// `$name` → `subst[name]`; `$( #[$outer] )*` → nothing
fn interp_rules(ts: &TokenStream, subst: &HashMap<String, TokenStream>) -> Res<TokenStream> {
    let toks: Vec<TokenTree> = ts.clone().into_iter().collect();
    let mut out = TokenStream::new();
    let mut i = 0;
    while i < toks.len() {
        match &toks[i] {
            TokenTree::Punct(p) if p.as_char() == '$' && i + 1 < toks.len() => match &toks[i + 1] {
                TokenTree::Ident(id) => {
                    let k = id.to_string();
                    out.extend(subst.get(&k).ok_or(format!("macro_rules: ${} is not bound", k))?.clone());
                    i += 2;
                }
                TokenTree::Group(_) => {
                    // `$( #[$outer] )*`: the attributes (doc comments) are dropped
                    i += 3;
                }
                _ => return Err("macro_rules: unexpected `$`".into()),
            },
            TokenTree::Group(g) => {
                out.extend(std::iter::once(TokenTree::Group(Group::new(g.delimiter(), interp_rules(&g.stream(), subst)?))));
                i += 1;
            }
            t => {
                out.extend(std::iter::once(t.clone()));
                i += 1;
            }
        }
    }
    Ok(out)
}

/// the `create_value_reader_fn!( docs.., name, index )` invocation named `fn_name` inside `impl ty`, expanded
fn value_reader(file: &File, ty: &str, fn_name: &str) -> Res<ImplItemFn> {
    let body = macro_rules_body(file, "create_value_reader_fn")?;
    for it in &file.items {
        let Item::Impl(im) = it else { continue };
        let self_name = match &*im.self_ty {
            Type::Path(p) => p.path.segments.last().map(|s| s.ident.to_string()),
            _ => None,
        };
        if self_name.as_deref() != Some(ty) || im.trait_.is_some() {
            continue;
        }
        for ii in &im.items {
            let ImplItem::Macro(m) = ii else { continue };
            if !m.mac.path.is_ident("create_value_reader_fn") {
                continue;
            }
            // attributes (doc comments), then `name , index`
            let toks: Vec<TokenTree> = m.mac.tokens.clone().into_iter().collect();
            let mut k = 0;
            while k + 1 < toks.len() && matches!(&toks[k], TokenTree::Punct(p) if p.as_char() == '#') {
                k += 2;
            }
            let TokenTree::Ident(name) = &toks[k] else { return Err(format!("{}: create_value_reader_fn!: no name", ty)) };
            if name != fn_name {
                continue;
            }
            let index: TokenStream = toks[k + 2..].iter().filter(|t| !matches!(t, TokenTree::Punct(p) if p.as_char() == ',')).cloned().collect();
            let mut s = HashMap::new();
            s.insert("fn_name".to_string(), name.to_token_stream());
            s.insert("index".to_string(), index);
            let text = interp_rules(&body, &s)?;
            return syn::parse2::<ImplItemFn>(text.clone()).map_err(|e| format!("{}::{}: expansion of create_value_reader_fn! does not parse: {} in {}", ty, fn_name, e, text));
        }
    }
    Err(format!("{}::{}: no create_value_reader_fn! invocation", ty, fn_name))
}

/// stage 3: the accessors that are not plain items — `channel_index` of NewChannelReq / DlChannelReq
/// (`create_value_reader_fn!`), `ChannelMask::<N>::new_from_raw` (the const generic as a parameter) and
/// `LinkADRReqPayload::channel_mask` (`ChannelMask::<2>::new_from_raw(x)` = `new_from_raw(2, x)`)
pub fn macro_accessors(files: &[File], _n: &[String], reg: &mut Registry, out: &mut String) -> Res<()> {
    for ty in ["NewChannelReqPayload", "DlChannelReqPayload"] {
        let f = value_reader(&files[0], ty, "channel_index")?;
        emit_fn(reg, out, Some(ty), "channel_index", &f.sig, &f.block)?;
    }
    let (sig, body) = impl_fn(&files[1], "ChannelMask", "new_from_raw").ok_or("ChannelMask::new_from_raw not found")?;
    let mut sig = sig.clone();
    sig.inputs.insert(0, parse_quote!(N: usize));
    emit_fn(reg, out, Some("ChannelMask"), "new_from_raw", &sig, body)?;
    let (sig, body) = impl_fn(&files[0], "LinkADRReqPayload", "channel_mask").ok_or("LinkADRReqPayload::channel_mask not found")?;
    let mut body = body.clone();
    struct Turbofish(Res<()>);
    impl VisitMut for Turbofish {
        fn visit_expr_call_mut(&mut self, c: &mut ExprCall) {
            syn::visit_mut::visit_expr_call_mut(self, c);
            if let Expr::Path(p) = &mut *c.func {
                let n = p.path.segments.len();
                if n >= 2 && p.path.segments[n - 2].ident == "ChannelMask" && p.path.segments[n - 1].ident == "new_from_raw" {
                    let arg = match &p.path.segments[n - 2].arguments {
                        PathArguments::AngleBracketed(ab) if ab.args.len() == 1 => match &ab.args[0] {
                            GenericArgument::Const(e) => Some(e.clone()),
                            GenericArgument::Type(Type::Path(tp)) => Some(Expr::Path(ExprPath { attrs: vec![], qself: None, path: tp.path.clone() })),
                            _ => None,
                        },
                        _ => None,
                    };
                    match arg {
                        Some(e) => {
                            p.path.segments[n - 2].arguments = PathArguments::None;
                            c.args.insert(0, e);
                        }
                        None => self.0 = Err("ChannelMask::new_from_raw without an explicit `::<N>`".into()),
                    }
                }
            }
        }
    }
    let mut v = Turbofish(Ok(()));
    v.visit_block_mut(&mut body);
    v.0?;
    emit_fn(reg, out, Some("LinkADRReqPayload"), "channel_mask", sig, &body)?;
    Ok(())
}
