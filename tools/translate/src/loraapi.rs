//! builder G — the `LoRa<RK, DLY>` state machine (`lora-phy/src/lib.rs`) as programs of `Rt.LoRa.LM`
//! (`lean/LoraVerif/RtLoRa.lean`): `self` is the struct passed state-in/state-out, the `RadioKind`
//! methods called through `self.radio_kind` are the fields of an abstract record `Ops` (actions on an
//! abstract world, receiver in / receiver out), `?` is bind, a `Result` matched without `?` is
//! `attempt`, a `loop` is a fuelled recursive definition, `&mut` parameters are returned after the
//! result.  Anything outside the subset below makes the unit FAIL (stub), nothing is skipped silently
//! except: the `delay` field and `&mut self.delay` arguments (the delays are part of the operations'
//! own programs), logging macros.
use std::collections::HashMap;
use std::fmt::Write as _;

use syn::*;

type Res<T> = std::result::Result<T, String>;

/// the methods translated, in dependency order
const FNS: &[&str] = &[
    "wait_for_irq",
    "do_cold_start",
    "init",
    "prepare_modem",
    "set_lora_sync_word",
    "sleep",
    "prepare_for_tx",
    "tx",
    "prepare_for_rx",
    "rx_switch_channel",
    "start_rx",
    "complete_rx",
    "rx",
    "listen",
    "prepare_for_cad",
    "cad",
];

/// `RadioKind` operations returning `(value, out)` where `out` answers the `&mut` argument at the index
/// (`true`: the argument is an `Option<&mut _>`, the answer an `Option`)
const OUT_OPS: &[(&str, usize, bool)] = &[("get_rx_payload", 1, false), ("process_irq_event", 1, true)];
/// `RadioKind` functions that do no I/O (`fn`, not `async fn`): `Except`
const PURE_OPS: &[&str] = &["create_modulation_params"];

const PREAMBLE: &str = r#"
/-- the `RadioKind` operations `LoRa` calls (receiver last; the receiver afterwards is returned with the result),
the constants of enums it only passes on, and the accessors of the parameter types it does not look into -/
structure Ops (RK MP PP RX BUF PS BW SF CR ω ε η : Type) where
  reset : RK → Rt.LoRa.Act ω ε η (Unit × RK)
  ensure_ready : RadioMode RX → RK → Rt.LoRa.Act ω ε η (Unit × RK)
  set_standby : RK → Rt.LoRa.Act ω ε η (Unit × RK)
  set_sleep : Bool → RK → Rt.LoRa.Act ω ε η (Unit × RK)
  init_lora : Int → RK → Rt.LoRa.Act ω ε η (Unit × RK)
  set_lora_sync_word : Int → RK → Rt.LoRa.Act ω ε η (Unit × RK)
  set_tx_power_and_ramp_time : Int → Option MP → Bool → RK → Rt.LoRa.Act ω ε η (Unit × RK)
  set_irq_params : Option (RadioMode RX) → RK → Rt.LoRa.Act ω ε η (Unit × RK)
  set_modulation_params : MP → RK → Rt.LoRa.Act ω ε η (Unit × RK)
  set_packet_params : PP → RK → Rt.LoRa.Act ω ε η (Unit × RK)
  calibrate_image : Int → RK → Rt.LoRa.Act ω ε η (Unit × RK)
  set_channel : Int → RK → Rt.LoRa.Act ω ε η (Unit × RK)
  set_payload : BUF → RK → Rt.LoRa.Act ω ε η (Unit × RK)
  do_tx : RK → Rt.LoRa.Act ω ε η (Unit × RK)
  do_rx : RX → RK → Rt.LoRa.Act ω ε η (Unit × RK)
  get_rx_payload : PP → BUF → RK → Rt.LoRa.Act ω ε η ((Int × BUF) × RK)
  get_rx_packet_status : RK → Rt.LoRa.Act ω ε η (PS × RK)
  do_cad : MP → RK → Rt.LoRa.Act ω ε η (Unit × RK)
  await_irq : RK → Rt.LoRa.Act ω ε η (Unit × RK)
  process_irq_event : RadioMode RX → Option Bool → Bool → RK → Rt.LoRa.Act ω ε η ((Option IrqState × Option Bool) × RK)
  create_modulation_params : SF → BW → CR → Int → RK → Except ε MP
  c_RadioError_InvalidRadioMode : ε
  c_RxMode_Continuous : RX
  c_SpreadingFactor__7 : SF
  c_CodingRate__4_5 : CR
  f_frequency_in_hz : MP → Int
  m_set_payload_length : PP → Int → Except ε (Unit × PP)
  m_len : BUF → Int
  /-- what a panic / an exhausted loop is reported as -/
  panic : String → η

variable {RK MP PP RX BUF PS BW SF CR ω ε η : Type} [DecidableEq RX]

/-- `self.radio_kind.op(..)`: the operation runs on the field, the field is written back -/
def callRk {α : Type} (f : RK → Rt.LoRa.Act ω ε η (α × RK)) : Rt.LoRa.LM (LoRa RK RX) ω ε η α := fun s =>
  match f s.1.radio_kind s.2 with
  | (.ok (a, k), w) => (.ok a, ({ s.1 with radio_kind := k }, w))
  | (.err e, w) => (.err e, (s.1, w))
  | (.halt h, w) => (.halt h, (s.1, w))
"#;

fn ty_str(t: &Type) -> Res<String> {
    Ok(match t {
        Type::Reference(r) => ty_str(&r.elem)?,
        Type::Slice(s) => {
            if ty_str(&s.elem)? == "Int" {
                "BUF".into()
            } else {
                return Err("slice of a non-integer type".into());
            }
        }
        Type::Tuple(t) if t.elems.is_empty() => "Unit".into(),
        Type::Tuple(t) => format!("({})", t.elems.iter().map(ty_str).collect::<Res<Vec<_>>>()?.join(" × ")),
        Type::Path(p) => {
            let seg = p.path.segments.last().ok_or("empty type path")?;
            let n = seg.ident.to_string();
            match n.as_str() {
                "u8" | "u16" | "u32" | "i8" | "i16" | "i32" | "usize" => "Int".into(),
                "bool" => "Bool".into(),
                "RK" => "RK".into(),
                "ModulationParams" => "MP".into(),
                "PacketParams" => "PP".into(),
                "RxMode" => "RX".into(),
                "Bandwidth" => "BW".into(),
                "PacketStatus" => "PS".into(),
                "RadioMode" => "(RadioMode RX)".into(),
                "IrqState" => "IrqState".into(),
                "Option" => match &seg.arguments {
                    PathArguments::AngleBracketed(a) => match a.args.first() {
                        Some(GenericArgument::Type(t)) => format!("(Option {})", ty_str(t)?),
                        _ => return Err("Option without a type argument".into()),
                    },
                    _ => return Err("Option without a type argument".into()),
                },
                other => return Err(format!("type {} is not modelled", other)),
            }
        }
        other => return Err(format!("type {} is not modelled", quote::quote!(#other))),
    })
}

fn result_inner(t: &ReturnType) -> Res<String> {
    if let ReturnType::Type(_, t) = t {
        if let Type::Path(p) = &**t {
            let seg = p.path.segments.last().unwrap();
            if seg.ident == "Result" {
                if let PathArguments::AngleBracketed(a) = &seg.arguments {
                    if let Some(GenericArgument::Type(t)) = a.args.first() {
                        return ty_str(t);
                    }
                }
            }
        }
    }
    Err("the method does not return a Result".into())
}

#[derive(Clone)]
struct FnInfo {
    fuel: bool,
    /// indices (among the non-self parameters) of `&mut` parameters, returned after the result
    outs: Vec<usize>,
}

struct Cx {
    fname: String,
    fns: HashMap<String, FnInfo>,
    params: Vec<(String, String)>,
    outs: Vec<String>,
    in_loop: bool,
    uses_fuel: bool,
    loops: Vec<String>,
    enums: Vec<String>,
    from_impls: HashMap<String, String>,
}

fn peel(e: &Expr) -> &Expr {
    match e {
        Expr::Paren(p) => peel(&p.expr),
        Expr::Group(g) => peel(&g.expr),
        Expr::Await(a) => peel(&a.base),
        _ => e,
    }
}

fn is_self_field(e: &Expr, f: &str) -> bool {
    if let Expr::Field(fe) = peel(e) {
        if let (Expr::Path(p), Member::Named(n)) = (peel(&fe.base), &fe.member) {
            return p.path.is_ident("self") && n == f;
        }
    }
    false
}

fn is_self(e: &Expr) -> bool {
    matches!(peel(e), Expr::Path(p) if p.path.is_ident("self"))
}

fn mentions(e: &Expr, var: &str) -> bool {
    let s = quote::quote!(#e).to_string();
    s.split(|c: char| !(c.is_alphanumeric() || c == '_')).any(|t| t == var)
}

/// what an action's result carries besides the value
enum Wb {
    None,
    /// the result is a pair whose second component is dropped
    Drop,
    Var(String, bool),
}

impl Cx {
    fn path_const(&self, p: &syn::Path) -> Res<String> {
        let segs: Vec<String> = p.segments.iter().map(|s| s.ident.to_string()).collect();
        match segs.len() {
            1 => Ok(segs[0].clone()),
            2 => {
                if self.enums.contains(&segs[0]) {
                    Ok(format!("{}.{}", segs[0], segs[1]))
                } else {
                    Ok(format!("ops.c_{}_{}", segs[0], segs[1]))
                }
            }
            _ => Err(format!("path {} not supported", segs.join("::"))),
        }
    }

    /// an expression without effects
    fn pexpr(&self, e: &Expr) -> Res<String> {
        Ok(match peel(e) {
            Expr::Lit(l) => match &l.lit {
                Lit::Bool(b) => format!("{}", b.value),
                Lit::Int(i) => format!("({} : Int)", i.base10_digits()),
                _ => return Err("literal not supported".into()),
            },
            Expr::Path(p) => {
                if p.path.is_ident("None") {
                    "none".into()
                } else {
                    self.path_const(&p.path)?
                }
            }
            Expr::Reference(r) => {
                if r.mutability.is_some() {
                    return Err(format!("`&mut` expression {} outside a known out-argument position", quote::quote!(#r)));
                }
                self.pexpr(&r.expr)?
            }
            Expr::Field(f) => {
                let m = match &f.member {
                    Member::Named(n) => n.to_string(),
                    _ => return Err("tuple field".into()),
                };
                if is_self(&f.base) {
                    if m == "delay" {
                        return Err("self.delay used as a value".into());
                    }
                    format!("self.{}", m)
                } else {
                    format!("(ops.f_{} {})", m, self.pexpr(&f.base)?)
                }
            }
            Expr::Unary(u) => match u.op {
                UnOp::Not(_) => format!("(!{})", self.pexpr(&u.expr)?),
                _ => return Err("unary operator not supported".into()),
            },
            Expr::Binary(b) => {
                let op = match b.op {
                    BinOp::Eq(_) => "==",
                    BinOp::Ne(_) => "!=",
                    BinOp::And(_) => "&&",
                    BinOp::Or(_) => "||",
                    _ => return Err(format!("binary operator in {} not supported", quote::quote!(#b))),
                };
                format!("({} {} {})", self.pexpr(&b.left)?, op, self.pexpr(&b.right)?)
            }
            Expr::Tuple(t) if t.elems.is_empty() => "()".into(),
            Expr::Tuple(t) => format!("({})", t.elems.iter().map(|x| self.pexpr(x)).collect::<Res<Vec<_>>>()?.join(", ")),
            Expr::Call(c) => {
                let f = match peel(&c.func) {
                    Expr::Path(p) => p.path.clone(),
                    _ => return Err("call of a non-path".into()),
                };
                let args = c.args.iter().map(|x| self.pexpr(x)).collect::<Res<Vec<_>>>()?;
                if f.is_ident("Some") {
                    format!("(some {})", args[0])
                } else if f.segments.len() == 2 && self.enums.contains(&f.segments[0].ident.to_string()) {
                    format!("({} {})", self.path_const(&f)?, args.join(" "))
                } else {
                    return Err(format!("call {} not supported", quote::quote!(#c)));
                }
            }
            Expr::MethodCall(m) => {
                let name = m.method.to_string();
                if is_self(&m.receiver) || is_self_field(&m.receiver, "radio_kind") {
                    return Err(format!("effectful call {} in a pure position", quote::quote!(#m)));
                }
                let r = self.pexpr(&m.receiver)?;
                if name == "into" && m.args.is_empty() {
                    // `impl From<A> for B` of mod_params.rs, translated with the unit
                    let ty = self.params.iter().find(|(n, _)| *n == r).map(|(_, t)| t.clone()).ok_or(format!("`.into()` on {} of unknown type", r))?;
                    let f = self.from_impls.get(&ty).ok_or(format!("no From impl translated for {}", ty))?;
                    format!("({} {})", f, r)
                } else {
                    let args = m.args.iter().map(|x| self.pexpr(x)).collect::<Res<Vec<_>>>()?;
                    format!("(ops.m_{} {}{})", name, r, args.iter().map(|a| format!(" {}", a)).collect::<String>())
                }
            }
            other => return Err(format!("expression {} not supported", quote::quote!(#other))),
        })
    }

    /// patterns: the alternatives a Rust pattern expands to
    fn pat(&self, p: &Pat) -> Res<Vec<String>> {
        Ok(match p {
            Pat::Wild(_) => vec!["_".into()],
            Pat::Ident(i) => {
                if i.subpat.is_some() {
                    return Err("`@` pattern".into());
                }
                let n = i.ident.to_string();
                if n == "None" {
                    vec!["none".into()]
                } else {
                    vec![n]
                }
            }
            Pat::Paren(p) => self.pat(&p.pat)?,
            Pat::Or(o) => {
                let mut v = vec![];
                for c in &o.cases {
                    v.extend(self.pat(c)?);
                }
                v
            }
            Pat::Path(p) => {
                if p.path.is_ident("None") {
                    vec!["none".into()]
                } else {
                    vec![self.path_const(&p.path)?]
                }
            }
            Pat::TupleStruct(ts) => {
                let head = if ts.path.is_ident("Ok") {
                    ".ok".to_string()
                } else if ts.path.is_ident("Err") {
                    ".error".to_string()
                } else if ts.path.is_ident("Some") {
                    "some".to_string()
                } else {
                    let h = self.path_const(&ts.path)?;
                    if h.starts_with("ops.") {
                        return Err(format!("pattern on the abstract constructor {}", h));
                    }
                    h
                };
                let mut alts: Vec<Vec<String>> = vec![vec![]];
                for e in &ts.elems {
                    let sub = self.pat(e)?;
                    let mut next = vec![];
                    for a in &alts {
                        for s in &sub {
                            let mut a2 = a.clone();
                            a2.push(s.clone());
                            next.push(a2);
                        }
                    }
                    alts = next;
                }
                alts.into_iter().map(|a| format!("({} {})", head, a.join(" "))).collect()
            }
            other => return Err(format!("pattern {} not supported", quote::quote!(#other))),
        })
    }

    /// an expression of type `Result` with effects: the term of type `LM .. T` and what to write back
    fn action(&mut self, e: &Expr) -> Res<Option<(String, Wb)>> {
        let e = peel(e);
        let m = match e {
            Expr::MethodCall(m) => m,
            _ => return Ok(None),
        };
        let name = m.method.to_string();
        if is_self_field(&m.receiver, "radio_kind") {
            let mut args = vec![];
            let mut wb = Wb::None;
            let out = OUT_OPS.iter().find(|(n, _, _)| *n == name);
            if out.is_some() {
                wb = Wb::Drop;
            }
            for (i, a) in m.args.iter().enumerate() {
                let a = peel(a);
                if let Expr::Reference(r) = a {
                    if r.mutability.is_some() && is_self_field(&r.expr, "delay") {
                        continue;
                    }
                }
                if let Some((_, idx, optional)) = out {
                    if *idx == i {
                        if *optional {
                            // `None` or `Some(&mut v)`
                            match a {
                                Expr::Path(p) if p.path.is_ident("None") => {
                                    args.push("none".to_string());
                                    continue;
                                }
                                Expr::Call(c) if matches!(peel(&c.func), Expr::Path(p) if p.path.is_ident("Some")) => {
                                    if let Expr::Reference(r) = peel(&c.args[0]) {
                                        if let Expr::Path(p) = peel(&r.expr) {
                                            let v = p.path.get_ident().ok_or("out argument is not a variable")?.to_string();
                                            args.push(format!("(some {})", v));
                                            wb = Wb::Var(v, true);
                                            continue;
                                        }
                                    }
                                    return Err(format!("out argument {} of {}", quote::quote!(#a), name));
                                }
                                _ => return Err(format!("out argument {} of {}", quote::quote!(#a), name)),
                            }
                        } else {
                            let inner = match a {
                                Expr::Reference(r) => peel(&r.expr),
                                other => other,
                            };
                            if let Expr::Path(p) = inner {
                                let v = p.path.get_ident().ok_or("out argument is not a variable")?.to_string();
                                args.push(v.clone());
                                wb = Wb::Var(v, false);
                                continue;
                            }
                            return Err(format!("out argument {} of {}", quote::quote!(#a), name));
                        }
                    }
                }
                args.push(self.pexpr(a)?);
            }
            let argt: String = args.iter().map(|a| format!(" {}", a)).collect();
            if PURE_OPS.contains(&name.as_str()) {
                return Ok(Some((format!("(Rt.LoRa.LM.ofExcept (ops.{}{} self.radio_kind))", name, argt), Wb::None)));
            }
            let call = if args.is_empty() { format!("ops.{}", name) } else { format!("(ops.{}{})", name, argt) };
            return Ok(Some((format!("(callRk {})", call), wb)));
        }
        if is_self(&m.receiver) {
            let info = self.fns.get(&name).cloned().ok_or(format!("method {} of LoRa is not translated (yet)", name))?;
            let mut args = vec![];
            let mut wb = Wb::None;
            if info.outs.len() > 1 {
                return Err("callee with more than one `&mut` parameter".into());
            }
            for (i, a) in m.args.iter().enumerate() {
                if info.outs.contains(&i) {
                    let inner = match peel(a) {
                        Expr::Reference(r) => peel(&r.expr),
                        other => other,
                    };
                    if let Expr::Path(p) = inner {
                        let v = p.path.get_ident().ok_or("out argument is not a variable")?.to_string();
                        args.push(v.clone());
                        wb = Wb::Var(v, false);
                        continue;
                    }
                    return Err(format!("out argument {} of {}", quote::quote!(#a), name));
                }
                args.push(self.pexpr(a)?);
            }
            if info.fuel {
                self.uses_fuel = true;
                args.push("fuel".into());
            }
            let argt: String = args.iter().map(|a| format!(" {}", a)).collect();
            return Ok(Some((format!("({} ops{})", name, argt), wb)));
        }
        // a method of a local value returning a `Result` and changing the value: `Except (Unit × receiver)`
        if let Expr::Path(p) = peel(&m.receiver) {
            if let Some(v) = p.path.get_ident() {
                let args = m.args.iter().map(|x| self.pexpr(x)).collect::<Res<Vec<_>>>()?;
                let argt: String = args.iter().map(|a| format!(" {}", a)).collect();
                return Ok(Some((format!("(Rt.LoRa.LM.ofExcept (ops.m_{} {}{}))", name, v, argt), Wb::Var(v.to_string(), false))));
            }
        }
        Ok(None)
    }

    /// `bind act (fun r => [write back] k value)`
    fn bind_action(&self, act: &str, wb: &Wb, name: &str, rest: &str) -> String {
        match wb {
            Wb::None => format!("(Rt.LoRa.LM.bind {} (fun {} =>\n{}))", act, name, rest),
            Wb::Drop => format!("(Rt.LoRa.LM.bind {} (fun r_ =>\nlet {} := r_.1\n{}))", act, name, rest),
            Wb::Var(v, false) => format!("(Rt.LoRa.LM.bind {} (fun r_ =>\nlet {} := r_.2\nlet {} := r_.1\n{}))", act, v, name, rest),
            Wb::Var(v, true) => format!("(Rt.LoRa.LM.bind {} (fun r_ =>\nlet {} := r_.2.getD {}\nlet {} := r_.1\n{}))", act, v, v, name, rest),
        }
    }

    fn loop_call(&self) -> String {
        format!("({}_loop ops{} fuel)", self.fname, self.params.iter().map(|(n, _)| format!(" {}", n)).collect::<String>())
    }

    fn with_self(&self, body: String) -> String {
        format!("(Rt.LoRa.LM.bind Rt.LoRa.LM.get (fun self =>\n{}))", body)
    }

    fn ok_value(&self, v: &str) -> String {
        if self.outs.is_empty() {
            format!("(Rt.LoRa.LM.pure {})", v)
        } else {
            format!("(Rt.LoRa.LM.pure ({}, {}))", v, self.outs.join(", "))
        }
    }

    /// the value of the function: `Ok(v)`, `Err(e)`, or an action
    fn value(&mut self, e: &Expr) -> Res<String> {
        let e = peel(e);
        if let Expr::Call(c) = e {
            if let Expr::Path(p) = peel(&c.func) {
                if p.path.is_ident("Ok") {
                    let v = self.pexpr(&c.args[0])?;
                    return Ok(self.with_self(self.ok_value(&v)));
                }
                if p.path.is_ident("Err") {
                    let v = self.pexpr(&c.args[0])?;
                    return Ok(self.with_self(format!("(Rt.LoRa.LM.throw {})", v)));
                }
            }
        }
        if let Some((act, wb)) = self.action(e)? {
            if self.outs.is_empty() && matches!(wb, Wb::None) {
                return Ok(self.with_self(act));
            }
            let k = self.ok_value("v_");
            return Ok(self.with_self(self.bind_action(&act, &wb, "v_", &k)));
        }
        Err(format!("value {} not supported", quote::quote!(#e)))
    }

    fn block_stmts(e: &Expr) -> Vec<Stmt> {
        match e {
            Expr::Block(b) => b.block.stmts.clone(),
            other => vec![Stmt::Expr(other.clone(), None)],
        }
    }

    fn cat(a: &[Stmt], rest: &[Stmt]) -> Vec<Stmt> {
        let mut v = a.to_vec();
        v.extend(rest.iter().cloned());
        v
    }

    fn seq(&mut self, stmts: &[Stmt]) -> Res<String> {
        if stmts.is_empty() {
            return if self.in_loop {
                Ok(self.loop_call())
            } else {
                Err("control reaches the end of the function without a value".into())
            };
        }
        let rest = &stmts[1..];
        match &stmts[0] {
            Stmt::Item(_) => Err("nested item".into()),
            Stmt::Macro(m) => {
                let n = m.mac.path.segments.last().unwrap().ident.to_string();
                match n.as_str() {
                    "trace" | "debug" | "info" | "warn" | "error" => self.seq(rest),
                    "unreachable" | "panic" | "todo" | "unimplemented" => Ok(format!("(Rt.LoRa.LM.halt (ops.panic \"{}: {}!()\"))", self.fname, n)),
                    _ => Err(format!("macro {}! not supported", n)),
                }
            }
            Stmt::Local(l) => {
                let name = match &l.pat {
                    Pat::Ident(i) => i.ident.to_string(),
                    Pat::Type(t) => match &*t.pat {
                        Pat::Ident(i) => i.ident.to_string(),
                        _ => return Err("let pattern".into()),
                    },
                    _ => return Err("let pattern".into()),
                };
                let init = l.init.as_ref().ok_or("let without initialiser")?;
                if init.diverge.is_some() {
                    return Err("let-else".into());
                }
                let ie = peel(&init.expr);
                if let Expr::Try(t) = ie {
                    let (act, wb) = self.action(&t.expr)?.ok_or(format!("`?` on {}", quote::quote!(#t)))?;
                    let r = self.seq(rest)?;
                    return Ok(self.with_self(self.bind_action(&act, &wb, &name, &r)));
                }
                let v = self.pexpr(ie)?;
                let r = self.seq(rest)?;
                Ok(self.with_self(format!("let {} := {}\n{}", name, v, r)))
            }
            Stmt::Expr(e, semi) => {
                let last = rest.is_empty();
                match peel(e) {
                    Expr::Tuple(t) if t.elems.is_empty() => self.seq(rest),
                    Expr::Continue(_) => {
                        if !self.in_loop {
                            return Err("continue outside a loop".into());
                        }
                        Ok(self.loop_call())
                    }
                    Expr::Return(r) => self.value(r.expr.as_ref().ok_or("return without a value")?),
                    Expr::Macro(m) => {
                        let st = Stmt::Macro(StmtMacro { attrs: vec![], mac: m.mac.clone(), semi_token: None });
                        self.seq(&Self::cat(&[st], rest))
                    }
                    Expr::Block(b) => self.seq(&Self::cat(&b.block.stmts, rest)),
                    Expr::Assign(a) => {
                        let f = match peel(&a.left) {
                            Expr::Field(fe) if is_self(&fe.base) => match &fe.member {
                                Member::Named(n) => n.to_string(),
                                _ => return Err("assignment target".into()),
                            },
                            other => return Err(format!("assignment to {} (only fields of self are supported)", quote::quote!(#other))),
                        };
                        let v = self.pexpr(&a.right)?;
                        let r = self.seq(rest)?;
                        Ok(self.with_self(format!("(Rt.LoRa.LM.bind (Rt.LoRa.LM.modify (fun s_ => {{ s_ with {} := {} }})) (fun _ =>\n{}))", f, v, r)))
                    }
                    Expr::Try(t) => {
                        if semi.is_none() && !last {
                            return Err("value of `?` dropped".into());
                        }
                        let (act, wb) = self.action(&t.expr)?.ok_or(format!("`?` on {}", quote::quote!(#t)))?;
                        let r = self.seq(rest)?;
                        Ok(self.with_self(self.bind_action(&act, &wb, "_", &r)))
                    }
                    Expr::If(i) => {
                        let then_s = Self::cat(&i.then_branch.stmts, rest);
                        let else_s = match &i.else_branch {
                            Some((_, e)) => Self::cat(&Self::block_stmts(e), rest),
                            None => rest.to_vec(),
                        };
                        if let Expr::Let(l) = peel(&i.cond) {
                            let sc = self.pexpr(&l.expr)?;
                            let pats = self.pat(&l.pat)?;
                            let a = self.seq(&then_s)?;
                            let b = self.seq(&else_s)?;
                            return Ok(self.with_self(format!("(match {} with\n{} =>\n{}\n| _ =>\n{})", sc, pats.iter().map(|p| format!("| {}", p)).collect::<Vec<_>>().join(" "), a, b)));
                        }
                        let c = self.pexpr(&i.cond)?;
                        let a = self.seq(&then_s)?;
                        let b = self.seq(&else_s)?;
                        Ok(self.with_self(format!("(if {} then\n{}\nelse\n{})", c, a, b)))
                    }
                    Expr::Match(m) => {
                        let mut arms = String::new();
                        let act = self.action(&m.expr)?;
                        let mut wb_var: Option<String> = None;
                        if let Some((_, Wb::Var(v, _))) = &act {
                            wb_var = Some(v.clone());
                        }
                        for arm in &m.arms {
                            if arm.guard.is_some() {
                                return Err("match guard".into());
                            }
                            let pats = self.pat(&arm.pat)?;
                            if let Some(v) = &wb_var {
                                if pats.iter().any(|p| p.starts_with("(.error")) && mentions(&arm.body, v) {
                                    return Err(format!("the `Err` arm reads {}, which the failed call may have written", v));
                                }
                            }
                            let body = self.seq(&Self::cat(&Self::block_stmts(&arm.body), rest))?;
                            write!(arms, "\n{} =>\n{}", pats.iter().map(|p| format!("| {}", p)).collect::<Vec<_>>().join(" "), body).unwrap();
                        }
                        match act {
                            None => {
                                let sc = self.pexpr(&m.expr)?;
                                Ok(self.with_self(format!("(match {} with{})", sc, arms)))
                            }
                            Some((a, wb)) => {
                                let pre = match &wb {
                                    Wb::None => "let r_ := r0_\n".to_string(),
                                    Wb::Drop => "let r_ := Except.map Prod.fst r0_\n".to_string(),
                                    Wb::Var(v, false) => format!("let {} := (match r0_ with | .ok p_ => p_.2 | .error _ => {})\nlet r_ := Except.map Prod.fst r0_\n", v, v),
                                    Wb::Var(v, true) => format!("let {} := (match r0_ with | .ok p_ => p_.2.getD {} | .error _ => {})\nlet r_ := Except.map Prod.fst r0_\n", v, v, v),
                                };
                                Ok(self.with_self(format!("(Rt.LoRa.LM.bind (Rt.LoRa.LM.attempt {}) (fun r0_ =>\n{}(match r_ with{})))", a, pre, arms)))
                            }
                        }
                    }
                    Expr::Loop(lp) => {
                        if !last || self.in_loop {
                            return Err("a `loop` that is not the last expression of the function's path (or nested)".into());
                        }
                        self.in_loop = true;
                        self.uses_fuel = true;
                        let body = self.seq(&lp.body.stmts)?;
                        self.in_loop = false;
                        self.loops.push(body);
                        Ok(format!("({}_loop ops{} fuel)", self.fname, self.params.iter().map(|(n, _)| format!(" {}", n)).collect::<String>()))
                    }
                    other => {
                        if last && semi.is_none() {
                            self.value(other)
                        } else {
                            Err(format!("statement {} not supported", quote::quote!(#other)))
                        }
                    }
                }
            }
        }
    }
}

fn lean_variant_fields(f: &Fields) -> Res<String> {
    match f {
        Fields::Unit => Ok(String::new()),
        Fields::Unnamed(u) => {
            let mut s = String::new();
            for (i, fl) in u.unnamed.iter().enumerate() {
                write!(s, " (a{} : {})", i, ty_str(&fl.ty)?).unwrap();
            }
            Ok(s)
        }
        Fields::Named(_) => Err("enum variant with named fields".into()),
    }
}

pub fn translate(repo: &std::path::Path) -> Res<String> {
    let read = |f: &str| -> Res<File> {
        let src = std::fs::read_to_string(repo.join(f)).map_err(|e| format!("{}: {}", f, e))?;
        syn::parse_file(&src).map_err(|e| format!("{}: parse error {}", f, e))
    };
    let lib = read("lora-phy/src/lib.rs")?;
    let params = read("lora-phy/src/mod_params.rs")?;
    let traits = read("lora-phy/src/mod_traits.rs")?;
    let mut out = String::new();
    writeln!(out, "-- GENERATED by /verif/tools/translate from /repo/lora-phy/src/lib.rs — do not edit.").unwrap();
    writeln!(out, "import LoraVerif.RtLoRa").unwrap();
    writeln!(out, "set_option linter.unusedVariables false").unwrap();
    writeln!(out, "namespace Gen.LoRaApiFn\n").unwrap();
    // the enums `LoRa` looks into
    let enums = vec!["RadioMode".to_string(), "IrqState".to_string()];
    for en in &enums {
        let it = params
            .items
            .iter()
            .chain(traits.items.iter())
            .find_map(|i| match i {
                Item::Enum(e) if e.ident == en.as_str() => Some(e),
                _ => None,
            })
            .ok_or(format!("enum {} not found", en))?;
        let mut has_rx = false;
        let mut vs = String::new();
        for v in &it.variants {
            let f = lean_variant_fields(&v.fields)?;
            if f.contains("RX") {
                has_rx = true;
            }
            writeln!(vs, "  | {}{}", v.ident, f).unwrap();
        }
        writeln!(out, "inductive {}{} where\n{}  deriving DecidableEq\n", en, if has_rx { " (RX : Type)" } else { "" }, vs).unwrap();
    }
    // `impl From<RxMode> for RadioMode`
    let mut from_impls = HashMap::new();
    let cx0 = Cx {
        fname: String::new(),
        fns: HashMap::new(),
        params: vec![],
        outs: vec![],
        in_loop: false,
        uses_fuel: false,
        loops: vec![],
        enums: enums.clone(),
        from_impls: HashMap::new(),
    };
    for it in &params.items {
        if let Item::Impl(im) = it {
            if let (Some((_, tr, _)), Type::Path(sp)) = (&im.trait_, &*im.self_ty) {
                let seg = tr.segments.last().unwrap();
                if seg.ident == "From" && sp.path.is_ident("RadioMode") {
                    if let PathArguments::AngleBracketed(a) = &seg.arguments {
                        if let Some(GenericArgument::Type(t)) = a.args.first() {
                            let from = ty_str(t)?;
                            for ii in &im.items {
                                if let ImplItem::Fn(g) = ii {
                                    let pname = match g.sig.inputs.first() {
                                        Some(FnArg::Typed(pt)) => match &*pt.pat {
                                            Pat::Ident(i) => i.ident.to_string(),
                                            _ => return Err("From impl parameter".into()),
                                        },
                                        _ => return Err("From impl parameter".into()),
                                    };
                                    let body = match g.block.stmts.as_slice() {
                                        [Stmt::Expr(e, None)] => cx0.pexpr(e)?,
                                        _ => return Err("From impl body is not a single expression".into()),
                                    };
                                    let lname = format!("RadioMode.from_{}", from);
                                    writeln!(out, "/-- `impl From<{}> for RadioMode` -/\ndef {} {{RX : Type}} ({} : {}) : RadioMode RX := {}\n", from, lname, pname, from, body).unwrap();
                                    from_impls.insert(from.clone(), lname);
                                }
                            }
                        }
                    }
                }
            }
        }
    }
    // the struct
    let st = lib
        .items
        .iter()
        .find_map(|i| match i {
            Item::Struct(s) if s.ident == "LoRa" => Some(s),
            _ => None,
        })
        .ok_or("struct LoRa not found")?;
    writeln!(out, "/-- `LoRa<RK, DLY>` without `delay` (the delays are part of the operations) -/\nstructure LoRa (RK RX : Type) where").unwrap();
    for f in &st.fields {
        let n = f.ident.as_ref().unwrap().to_string();
        if n == "delay" {
            continue;
        }
        writeln!(out, "  {} : {}", n, ty_str(&f.ty)?).unwrap();
    }
    out.push_str(PREAMBLE);
    out.push('\n');
    // the methods
    let im = lib
        .items
        .iter()
        .find_map(|i| match i {
            Item::Impl(im) if im.trait_.is_none() && matches!(&*im.self_ty, Type::Path(p) if p.path.segments.last().map(|s| s.ident == "LoRa").unwrap_or(false)) => Some(im),
            _ => None,
        })
        .ok_or("impl LoRa not found")?;
    let mut fns: HashMap<String, FnInfo> = HashMap::new();
    let mut names = vec![];
    for fname in FNS {
        let g = im
            .items
            .iter()
            .find_map(|ii| match ii {
                ImplItem::Fn(g) if g.sig.ident == fname => Some(g),
                _ => None,
            })
            .ok_or(format!("fn LoRa::{} not found", fname))?;
        let mut ps = vec![];
        let mut outs = vec![];
        let mut out_idx = vec![];
        let mut has_self = false;
        for a in &g.sig.inputs {
            match a {
                FnArg::Receiver(r) => {
                    has_self = r.mutability.is_some() && r.reference.is_some();
                }
                FnArg::Typed(pt) => {
                    let n = match &*pt.pat {
                        Pat::Ident(i) => i.ident.to_string(),
                        _ => return Err(format!("fn {}: parameter pattern", fname)),
                    };
                    let t = ty_str(&pt.ty).map_err(|e| format!("fn {}: {}", fname, e))?;
                    if let Type::Reference(r) = &*pt.ty {
                        if r.mutability.is_some() {
                            out_idx.push(ps.len());
                            outs.push((n.clone(), t.clone()));
                        }
                    }
                    ps.push((n, t));
                }
            }
        }
        if !has_self {
            return Err(format!("fn {}: not a `&mut self` method", fname));
        }
        let ret = result_inner(&g.sig.output).map_err(|e| format!("fn {}: {}", fname, e))?;
        let full_ret = if outs.is_empty() { ret.clone() } else { format!("({} × {})", ret, outs.iter().map(|(_, t)| t.clone()).collect::<Vec<_>>().join(" × ")) };
        let mut cx = Cx {
            fname: fname.to_string(),
            fns: fns.clone(),
            params: ps.clone(),
            outs: outs.iter().map(|(n, _)| n.clone()).collect(),
            in_loop: false,
            uses_fuel: false,
            loops: vec![],
            enums: enums.clone(),
            from_impls: from_impls.clone(),
        };
        let body = cx.seq(&g.block.stmts).map_err(|e| format!("fn {}: {}", fname, e))?;
        let pdecl: String = ps.iter().map(|(n, t)| format!(" ({} : {})", n, t)).collect();
        let opsdecl = "(ops : Ops RK MP PP RX BUF PS BW SF CR ω ε η)";
        let lm = format!("Rt.LoRa.LM (LoRa RK RX) ω ε η {}", full_ret);
        for lp in &cx.loops {
            writeln!(
                out,
                "/-- the `loop` of `{f}` (fuelled: running out of fuel is a `halt`) -/\ndef {f}_loop {o}{p} : Nat → {lm}\n| 0 => Rt.LoRa.LM.halt (ops.panic \"DIVERGE {f}\")\n| fuel + 1 =>\n{b}\n",
                f = fname,
                o = opsdecl,
                p = pdecl,
                lm = lm,
                b = lp
            )
            .unwrap();
            names.push(format!("{}_loop", fname));
        }
        writeln!(out, "/-- `LoRa::{f}` -/\ndef {f} {o}{p}{fuel} : {lm} :=\n{b}\n", f = fname, o = opsdecl, p = pdecl, fuel = if cx.uses_fuel { " (fuel : Nat)" } else { "" }, lm = lm, b = body).unwrap();
        names.push(fname.to_string());
        fns.insert(fname.to_string(), FnInfo { fuel: cx.uses_fuel, outs: out_idx });
    }
    writeln!(out, "end Gen.LoRaApiFn").unwrap();
    Ok(out)
}
