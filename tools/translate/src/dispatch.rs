//! builder H — tie A for the region wiring: `region_dispatch!` expanded at token level.
//!
//! `region_dispatch` (unit `Gen.RegionDispatch`): every listed method of `impl Configuration`
//! (region/mod.rs) whose body is an invocation of one of the file's `macro_rules!` dispatch macros is
//! expanded with the macro's own rules (pattern matching of the invocation against the rule, then
//! substitution of `$s`, `$t`, `$($arg)*` in the rule's body), the result is parsed as a `match` over
//! `State`, and each arm is followed: `State::V(state) => state.m(args)` /  `state.0.m(args)` →
//! payload type of `State::V` (must be the plan type `State::new` constructs for that `Region`) →
//! `RegionHandler` impl of the plan (`DynamicChannelPlan<R>` / `FixedChannelPlan<F>`) → its one-line body
//! with the type parameter instantiated by the region type.  The emitted function takes the generated
//! `Region` the configuration was created for.  Any other shape fails the unit loudly.
//!
//! `next_lower` (unit `Gen.NextLowerDr`): the loop of `next_lower_datarate` (mac/session.rs) over the
//! dispatched `get_datarate`.
use crate::statics::*;
use crate::tr::{Registry, Res};
use proc_macro2::{Delimiter, Group, TokenStream, TokenTree};
use std::fmt::Write as _;
use syn::*;

// ------------------------------------------------------------------------------------------------
// macro_rules! expansion (the subset the dispatch macros use; anything else is an error)

enum Frag {
    /// `$name:expr` / `$name:tt` / `$name:ident`
    Single(String, String),
    /// `$($name:tt)*` (last fragment only)
    Rest(String),
}

struct Rule {
    pat: Vec<Frag>,
    body: TokenStream,
}

fn split_commas(ts: TokenStream) -> Vec<Vec<TokenTree>> {
    let mut out = vec![vec![]];
    for t in ts {
        match &t {
            TokenTree::Punct(p) if p.as_char() == ',' => out.push(vec![]),
            _ => out.last_mut().unwrap().push(t),
        }
    }
    if out.last().map(|v| v.is_empty()).unwrap_or(false) && out.len() > 1 {
        out.pop();
    }
    out
}

fn parse_frag(toks: &[TokenTree], what: &str) -> Res<Frag> {
    let s: Vec<String> = toks.iter().map(|t| t.to_string()).collect();
    match toks {
        [TokenTree::Punct(d), TokenTree::Ident(n), TokenTree::Punct(c), TokenTree::Ident(k)] if d.as_char() == '$' && c.as_char() == ':' => {
            let k = k.to_string();
            if k != "expr" && k != "tt" && k != "ident" {
                return Err(format!("{}: fragment kind {} not supported", what, k));
            }
            Ok(Frag::Single(n.to_string(), k))
        }
        [TokenTree::Punct(d), TokenTree::Group(g), TokenTree::Punct(star)] if d.as_char() == '$' && star.as_char() == '*' && g.delimiter() == Delimiter::Parenthesis => {
            let inner: Vec<TokenTree> = g.stream().into_iter().collect();
            match parse_frag(&inner, what)? {
                Frag::Single(n, k) if k == "tt" => Ok(Frag::Rest(n)),
                _ => Err(format!("{}: only `$($x:tt)*` repetitions are supported", what)),
            }
        }
        _ => Err(format!("{}: unsupported macro pattern fragment `{}`", what, s.join(" "))),
    }
}

fn macro_rules(files: &[File], name: &str) -> Res<Vec<Rule>> {
    let what = format!("macro_rules! {}", name);
    let mut found = None;
    for it in flat_items(files) {
        if let Item::Macro(m) = it {
            if m.ident.as_ref().map(|i| i == name).unwrap_or(false) && m.mac.path.is_ident("macro_rules") {
                if found.is_some() {
                    return Err(format!("{}: defined twice", what));
                }
                found = Some(m);
            }
        }
    }
    let m = found.ok_or(format!("{} not found", what))?;
    let toks: Vec<TokenTree> = m.mac.tokens.clone().into_iter().collect();
    let mut rules = vec![];
    let mut i = 0;
    while i < toks.len() {
        let (TokenTree::Group(pg), Some(TokenTree::Punct(e)), Some(TokenTree::Punct(gt)), Some(TokenTree::Group(bg))) = (&toks[i], toks.get(i + 1), toks.get(i + 2), toks.get(i + 3)) else {
            return Err(format!("{}: rule is not `(pattern) => {{ body }}`", what));
        };
        if e.as_char() != '=' || gt.as_char() != '>' {
            return Err(format!("{}: rule is not `(pattern) => {{ body }}`", what));
        }
        let mut pat = vec![];
        for piece in split_commas(pg.stream()) {
            pat.push(parse_frag(&piece, &what)?);
        }
        for (k, f) in pat.iter().enumerate() {
            if matches!(f, Frag::Rest(_)) && k + 1 != pat.len() {
                return Err(format!("{}: repetition is not the last fragment", what));
            }
        }
        rules.push(Rule { pat, body: bg.stream() });
        i += 4;
        if let Some(TokenTree::Punct(p)) = toks.get(i) {
            if p.as_char() == ';' {
                i += 1;
            }
        }
    }
    if rules.is_empty() {
        return Err(format!("{}: no rules", what));
    }
    Ok(rules)
}

fn substitute(body: TokenStream, bind: &[(String, TokenStream)], what: &str) -> Res<TokenStream> {
    let toks: Vec<TokenTree> = body.into_iter().collect();
    let mut out = TokenStream::new();
    let mut i = 0;
    let get = |n: &str| -> Res<TokenStream> { bind.iter().find(|(k, _)| k == n).map(|(_, v)| v.clone()).ok_or(format!("{}: `${}` is not bound by the rule", what, n)) };
    while i < toks.len() {
        match &toks[i] {
            TokenTree::Punct(p) if p.as_char() == '$' => match (toks.get(i + 1), toks.get(i + 2)) {
                (Some(TokenTree::Ident(n)), _) => {
                    out.extend(get(&n.to_string())?);
                    i += 2;
                }
                (Some(TokenTree::Group(g)), Some(TokenTree::Punct(star))) if star.as_char() == '*' && g.delimiter() == Delimiter::Parenthesis => {
                    let inner: Vec<TokenTree> = g.stream().into_iter().collect();
                    match inner.as_slice() {
                        [TokenTree::Punct(d), TokenTree::Ident(n)] if d.as_char() == '$' => out.extend(get(&n.to_string())?),
                        _ => return Err(format!("{}: unsupported repetition in the macro body", what)),
                    }
                    i += 3;
                }
                _ => return Err(format!("{}: unsupported `$` form in the macro body", what)),
            },
            TokenTree::Group(g) => {
                let mut ng = Group::new(g.delimiter(), substitute(g.stream(), bind, what)?);
                ng.set_span(g.span());
                out.extend([TokenTree::Group(ng)]);
                i += 1;
            }
            t => {
                out.extend([t.clone()]);
                i += 1;
            }
        }
    }
    Ok(out)
}

/// expand `name!(args)` with the first rule whose pattern matches, as `macro_rules!` does
fn expand(files: &[File], mac: &Macro) -> Res<(String, Expr, Vec<TokenTree>)> {
    let name = mac.path.get_ident().map(|i| i.to_string()).ok_or("macro path is not an identifier")?;
    let rules = macro_rules(files, &name)?;
    let what = format!("{}!({})", name, mac.tokens);
    let pieces = split_commas(mac.tokens.clone());
    'rule: for r in &rules {
        let mut bind: Vec<(String, TokenStream)> = vec![];
        let nsingle = r.pat.iter().filter(|f| matches!(f, Frag::Single(..))).count();
        let has_rest = r.pat.iter().any(|f| matches!(f, Frag::Rest(_)));
        if pieces.len() < nsingle || (!has_rest && pieces.len() != nsingle) {
            continue;
        }
        // `$s:expr, $t:tt, $($arg:tt)*` requires the comma after `$t`: at least one more piece, possibly empty
        if has_rest && pieces.len() == nsingle {
            continue;
        }
        for (k, f) in r.pat.iter().enumerate() {
            match f {
                Frag::Single(n, kind) => {
                    let p = &pieces[k];
                    if p.is_empty() || ((kind == "tt" || kind == "ident") && p.len() != 1) {
                        continue 'rule;
                    }
                    bind.push((n.clone(), p.iter().cloned().collect()));
                }
                Frag::Rest(n) => {
                    let mut ts = TokenStream::new();
                    for (j, p) in pieces[k..].iter().enumerate() {
                        if j > 0 {
                            ts.extend([TokenTree::Punct(proc_macro2::Punct::new(',', proc_macro2::Spacing::Alone))]);
                        }
                        ts.extend(p.iter().cloned());
                    }
                    bind.push((n.clone(), ts));
                }
            }
        }
        let method = match r.pat.get(1) {
            Some(Frag::Single(n, _)) => bind.iter().find(|(k, _)| k == n).map(|(_, v)| v.clone().into_iter().collect::<Vec<_>>()).unwrap_or_default(),
            _ => vec![],
        };
        let body = substitute(r.body.clone(), &bind, &what)?;
        let e: Expr = syn::parse2(body).map_err(|e| format!("{}: the expansion does not parse as an expression: {}", what, e))?;
        return Ok((name, e, method));
    }
    Err(format!("{}: no rule matches", what))
}

// ------------------------------------------------------------------------------------------------
// following one arm

/// the `Configuration` methods translated through their dispatch macro
const DISPATCHED: &[&str] = &["get_rx_datarate", "get_rx2_frequency", "get_default_datarate", "has_fixed_channel_plan", "rx1_dr_offset_validate", "get_datarate", "check_tx_power", "is_uplink_datarate", "frequency_valid"];
/// translated per region by `Gen.RegionStatic` (statics.rs `HANDLER_METHODS`) under `<Region variant>.<method>`
const STATIC_HANDLER: &[&str] = &["get_rx2_frequency", "rx1_dr_offset_validate", "has_fixed_channel_plan", "get_default_datarate"];

fn find_config_method<'a>(files: &'a [File], name: &str) -> Res<&'a ImplItemFn> {
    for it in flat_items(files) {
        if let Item::Impl(im) = it {
            if im.trait_.is_none() && type_name(&im.self_ty) == "Configuration" {
                for ii in &im.items {
                    if let ImplItem::Fn(f) = ii {
                        if f.sig.ident == name {
                            return Ok(f);
                        }
                    }
                }
            }
        }
    }
    Err(format!("Configuration::{} not found", name))
}

/// payload type name of `State::variant`
fn state_payload(files: &[File], variant: &str) -> Res<String> {
    for it in flat_items(files) {
        if let Item::Enum(e) = it {
            if e.ident == "State" {
                for v in &e.variants {
                    if v.ident == variant {
                        if let Fields::Unnamed(fu) = &v.fields {
                            if fu.unnamed.len() == 1 {
                                return Ok(type_name(&fu.unnamed[0].ty));
                            }
                        }
                        return Err(format!("State::{} is not a one-field tuple variant", variant));
                    }
                }
            }
        }
    }
    Err(format!("State::{} not found", variant))
}

/// which `DATARATES` table `<region_ty as ChannelRegion>::datarates()` returns: the Lean name `Gen.Region`
/// gives the constant of that file (its `ConstAs` entries)
fn datarates_table(files: &[File], names: &[String], region_ty: &str) -> Res<String> {
    table_of(files, names, region_ty, "ChannelRegion", "datarates")
}

/// the Lean name (`Gen.Region`, `ConstAs`) of the constant `<region_ty as trait_name>::fn_name()` returns a reference to
fn table_of(files: &[File], names: &[String], region_ty: &str, trait_name: &str, fn_name: &str) -> Res<String> {
    let what = format!("{}::{}()", region_ty, fn_name);
    for (f, fname) in files.iter().zip(names.iter()) {
        for it in flat_items(std::slice::from_ref(f)) {
            let Item::Impl(im) = it else { continue };
            let is_cr = im.trait_.as_ref().map(|(_, p, _)| last_ident(p) == trait_name).unwrap_or(false);
            if !is_cr || type_name(&im.self_ty) != region_ty {
                continue;
            }
            for ii in &im.items {
                let ImplItem::Fn(g) = ii else { continue };
                if g.sig.ident != fn_name {
                    continue;
                }
                let e = single_tail_expr(&g.block).ok_or(format!("{}: body is not a single expression", what))?;
                let id = match e {
                    Expr::Reference(r) if r.mutability.is_none() => single_ident(&r.expr),
                    _ => None,
                }
                .ok_or(format!("{}: body is not `&CONST`", what))?;
                // where does `id` come from in this file: its own const/static, or `mod m; use m::*;` / `use m::id;`
                let own = f.items.iter().any(|i| matches!(i, Item::Const(c) if c.ident == id) || matches!(i, Item::Static(s) if s.ident == id));
                let src_file = if own {
                    fname.clone()
                } else {
                    let mut sub = None;
                    for i in &f.items {
                        if let Item::Use(u) = i {
                            if let UseTree::Path(p) = &u.tree {
                                let m = p.ident.to_string();
                                let hit = match &*p.tree {
                                    UseTree::Glob(_) => true,
                                    UseTree::Name(n) => n.ident == id,
                                    _ => false,
                                };
                                // (`#[path = ".."] mod m;` would make the file guessed below the wrong one)
                                if f.items.iter().any(|j| matches!(j, Item::Mod(md) if md.ident == m && md.attrs.iter().any(|a| a.path().is_ident("path")))) {
                                    return Err(format!("{}: `mod {}` has a #[path] attribute (not supported)", what, m));
                                }
                                let is_mod = f.items.iter().any(|j| matches!(j, Item::Mod(md) if md.ident == m && md.content.is_none()));
                                if hit && is_mod {
                                    let dir = fname.rsplit_once('/').map(|x| x.0).unwrap_or("");
                                    let cand = format!("{}/{}.rs", dir, m);
                                    if let Some(k) = names.iter().position(|n| *n == cand) {
                                        let has = files[k].items.iter().any(|i| matches!(i, Item::Const(c) if c.ident == id) || matches!(i, Item::Static(s) if s.ident == id));
                                        if has {
                                            if sub.is_some() {
                                                return Err(format!("{}: `{}` is ambiguous", what, id));
                                            }
                                            sub = Some(cand);
                                        }
                                    }
                                }
                            }
                        }
                    }
                    sub.ok_or(format!("{}: where `{}` is defined could not be resolved", what, id))?
                };
                let gen_region = crate::units::units().into_iter().find(|u| u.module == "Gen.Region").ok_or("unit Gen.Region not found")?;
                for s in &gen_region.items {
                    if let crate::Sel::ConstAs(substr, rust, lean) = s {
                        if *rust == id && src_file.contains(substr) {
                            return Ok(format!("Gen.Region.{}", lean));
                        }
                    }
                }
                return Err(format!("{}: Gen.Region does not translate `{}` of {}", what, id, src_file));
            }
        }
    }
    Err(format!("{}: impl {} for {} not found", what, trait_name, region_ty))
}

fn strip_paren(e: &Expr) -> &Expr {
    match e {
        Expr::Paren(p) => strip_paren(&p.expr),
        Expr::Group(g) => strip_paren(&g.expr),
        e => e,
    }
}

fn fn_params(sig: &Signature) -> Res<Vec<(String, Type)>> {
    let mut v = vec![];
    for a in &sig.inputs {
        if let FnArg::Typed(pt) = a {
            let Pat::Ident(pi) = &*pt.pat else { return Err(format!("{}: parameter is not an identifier", sig.ident)) };
            v.push((pi.ident.to_string(), (*pt.ty).clone()));
        }
    }
    Ok(v)
}

/// Lean term of the plan's `RegionHandler::method` for the region of `w`, applied to `args` (Lean variable names)
fn plan_method_term(files: &[File], names: &[String], reg: &Registry, w: &Wiring, method: &str, args: &[String]) -> Res<(String, bool)> {
    let items = flat_items(files);
    let plan = if w.fixed { "FixedChannelPlan" } else { "DynamicChannelPlan" };
    let (sig, body, tparam) = handler_method(&items, plan, method)?;
    let what = format!("{}::{} for {}", plan, method, w.variant);
    // Rust resolves `state.m(..)` to an INHERENT method of the plan type before the trait's: such a method would make the
    // `RegionHandler` impl followed here the wrong callee
    for it in &items {
        if let Item::Impl(im) = it {
            if im.trait_.is_none() && type_name(&im.self_ty) == plan && im.items.iter().any(|ii| matches!(ii, ImplItem::Fn(g) if g.sig.ident == method)) {
                return Err(format!("{}: {} has an inherent method `{}` that takes precedence over RegionHandler's (not supported)", what, plan, method));
            }
        }
    }
    let params = fn_params(sig)?;
    if params.len() != args.len() {
        return Err(format!("{}: takes {} arguments, the dispatch passes {}", what, params.len(), args.len()));
    }
    if STATIC_HANDLER.contains(&method) {
        // translated for real by Gen.RegionStatic from the same impl (same `handler_method`)
        let mut t = format!("Gen.RegionStatic.{}.{}", w.variant, method);
        for a in args {
            write!(t, " {}", a).unwrap();
        }
        return Ok((t, false));
    }
    // (a default body of the trait has no plan type parameter: `P::..` shapes cannot occur in it)
    let tp = tparam.unwrap_or_else(|| "<no type parameter>".to_string());
    let e = strip_paren(single_tail_expr(body).ok_or(format!("{}: body is not a single expression", what))?);
    let arg_of = |x: &Expr| -> Res<String> {
        let id = single_ident(x).ok_or(format!("{}: argument is not a parameter name", what))?;
        let k = params.iter().position(|(n, _)| *n == id).ok_or(format!("{}: `{}` is not a parameter", what, id))?;
        Ok(args[k].clone())
    };
    // shape 1: `P::f(params…)`
    if let Some((segs, cargs)) = call_parts(e) {
        if segs.len() == 2 && segs[0] == tp {
            let key = format!("{}::{}", w.region_ty, segs[1]);
            let fs = reg.fns.get(&key).ok_or(format!("{}: {} is not translated by Gen.Region", what, key))?;
            if fs.params.len() != cargs.len() {
                return Err(format!("{}: {} takes {} arguments", what, key, fs.params.len()));
            }
            let mut t = format!("Gen.Region.{}", fs.lean);
            for a in cargs {
                write!(t, " {}", arg_of(a)?).unwrap();
            }
            return Ok((t, fs.fallible));
        }
    }
    // shape 2: `P::datarates().get(x as usize)?.as_ref()`
    if let Expr::MethodCall(m1) = e {
        if m1.method == "as_ref" && m1.args.is_empty() {
            if let Expr::Try(t) = strip_paren(&m1.receiver) {
                if let Expr::MethodCall(m2) = strip_paren(&t.expr) {
                    if m2.method == "get" && m2.args.len() == 1 {
                        if let Some((segs, cargs)) = call_parts(&m2.receiver) {
                            if segs.len() == 2 && segs[0] == tp && segs[1] == "datarates" && cargs.is_empty() {
                                let idx = match strip_paren(&m2.args[0]) {
                                    Expr::Cast(c) if type_name(&c.ty) == "usize" => arg_of(&c.expr)?,
                                    _ => return Err(format!("{}: index is not `param as usize`", what)),
                                };
                                let k = params.iter().position(|(n, _)| Some(n.clone()) == single_ident(match strip_paren(&m2.args[0]) { Expr::Cast(c) => &c.expr, x => x })).unwrap();
                                if type_name(&params[k].1) != "u8" {
                                    return Err(format!("{}: the index parameter is not a u8", what));
                                }
                                let table = datarates_table(files, names, &w.region_ty)?;
                                // `slice.get(i)?` then `.as_ref()` on the `Option<Datarate>` element: an index past the table is `None`
                                return Ok((format!("(match ({})[({}).toNat]? with | some d => d | none => none)", table, idx), false));
                            }
                        }
                    }
                }
            }
        }
    }
    // shape 4: `(self.FIELD)(param)` — the function pointer the plan's `new(p)` stores in FIELD, which `State::new`'s
    // constructor passes (statics.rs `region_wiring`: `freq_fn`, translated by Gen.RegionStatic as `<Region>.frequency_valid`)
    if let Expr::Call(c) = e {
        if let Expr::Field(fe) = strip_paren(&c.func) {
            if let (Some("self"), Member::Named(field), 1) = (single_ident(&fe.base).as_deref(), &fe.member, c.args.len()) {
                if !matches!(&*fe.base, Expr::Reference(_)) {
                    let a = arg_of(&c.args[0])?;
                    ctor_stores(files, plan, &field.to_string(), &what)?;
                    return Ok((format!("Gen.RegionStatic.{}.frequency_valid {}", w.variant, a), false));
                }
            }
        }
    }
    // shape 3: a conjunction of `param CMP P::CONST` and `self.other_method(params…).is_some()`
    if let Some(t) = bool_term(files, names, reg, w, e, &tp, &params, args, &what)? {
        return Ok((t, false));
    }
    Err(format!("{}: body `{}` has a shape the region dispatch does not translate", what, quote::ToTokens::to_token_stream(e)))
}

/// `plan::new(p)` has one parameter and stores it in `field`; nothing else in the files writes a field of that name
fn ctor_stores(files: &[File], plan: &str, field: &str, what: &str) -> Res<()> {
    use syn::visit::Visit;
    let (f, _) = inherent_fn(files, plan, "new")?;
    let params = fn_params(&f.sig)?;
    if params.len() != 1 {
        return Err(format!("{}: {}::new does not take exactly one argument", what, plan));
    }
    struct V<'a> {
        field: &'a str,
        lits: Vec<Option<String>>,
        assigns: usize,
    }
    impl<'a, 'ast> Visit<'ast> for V<'a> {
        fn visit_expr_struct(&mut self, s: &'ast ExprStruct) {
            for fv in &s.fields {
                if matches!(&fv.member, Member::Named(n) if n == self.field) {
                    self.lits.push(if matches!(&fv.expr, Expr::Reference(_)) { None } else { single_ident(&fv.expr) });
                }
            }
            syn::visit::visit_expr_struct(self, s);
        }
        fn visit_expr_assign(&mut self, a: &'ast ExprAssign) {
            if let Expr::Field(fe) = &*a.left {
                if matches!(&fe.member, Member::Named(n) if n == self.field) {
                    self.assigns += 1;
                }
            }
            syn::visit::visit_expr_assign(self, a);
        }
    }
    // every struct literal / assignment in the files that mentions a field of this name
    let mut all = V { field, lits: vec![], assigns: 0 };
    for fl in files {
        all.visit_file(fl);
    }
    let mut inside = V { field, lits: vec![], assigns: 0 };
    inside.visit_block(&f.block);
    // each plan kind has its own `new` with such a literal; none may exist outside a `new`
    let mut in_news = 0;
    for pl in ["DynamicChannelPlan", "FixedChannelPlan"] {
        if let Ok((g, _)) = inherent_fn(files, pl, "new") {
            let mut v = V { field, lits: vec![], assigns: 0 };
            v.visit_block(&g.block);
            in_news += v.lits.len();
        }
    }
    if all.assigns != 0 || all.lits.len() != in_news {
        return Err(format!("{}: the field `{}` is written outside the plans' `new`", what, field));
    }
    if inside.lits.len() != 1 || inside.lits[0].as_deref() != Some(params[0].0.as_str()) {
        return Err(format!("{}: {}::new does not store its argument in `{}`", what, plan, field));
    }
    Ok(())
}

fn bool_term(files: &[File], names: &[String], reg: &Registry, w: &Wiring, e: &Expr, tp: &str, params: &[(String, Type)], args: &[String], what: &str) -> Res<Option<String>> {
    let arg_of = |x: &Expr| -> Option<(String, String)> {
        if matches!(x, Expr::Reference(_)) {
            return None;
        }
        let id = single_ident(x)?;
        let k = params.iter().position(|(n, _)| *n == id)?;
        Some((args[k].clone(), type_name(&params[k].1)))
    };
    match strip_paren(e) {
        Expr::Binary(b) if matches!(b.op, BinOp::And(_)) => {
            let (Some(l), Some(r)) = (bool_term(files, names, reg, w, &b.left, tp, params, args, what)?, bool_term(files, names, reg, w, &b.right, tp, params, args, what)?) else { return Ok(None) };
            Ok(Some(format!("({} && {})", l, r)))
        }
        Expr::Binary(b) => {
            let op = match b.op {
                BinOp::Le(_) => "≤",
                BinOp::Lt(_) => "<",
                BinOp::Ge(_) => "≥",
                BinOp::Gt(_) => ">",
                BinOp::Eq(_) => "=",
                _ => return Ok(None),
            };
            let Some((l, lt)) = arg_of(&b.left) else { return Ok(None) };
            let Expr::Path(p) = strip_paren(&b.right) else { return Ok(None) };
            if p.path.segments.len() != 2 || p.path.segments[0].ident != tp || lt != "u8" {
                return Ok(None);
            }
            if !w.args.is_empty() {
                return Err(format!("{}: associated constant of a const-generic region type in a comparison", what));
            }
            // the region type's associated constant as `Gen.RegionStatic` regenerates it (a missing one fails the Lean build)
            Ok(Some(format!("decide ({} {} Gen.RegionStatic.{}.{})", l, op, w.region_ty, p.path.segments[1].ident)))
        }
        Expr::MethodCall(m1) if m1.method == "is_some" && m1.args.is_empty() => {
            let Expr::MethodCall(m2) = strip_paren(&m1.receiver) else { return Ok(None) };
            if single_ident(&m2.receiver).as_deref() != Some("self") || matches!(&*m2.receiver, Expr::Reference(_)) {
                return Ok(None);
            }
            let mut a2 = vec![];
            for a in &m2.args {
                let Some((t, _)) = arg_of(a) else { return Ok(None) };
                a2.push(t);
            }
            let (t, fal) = plan_method_term(files, names, reg, w, &m2.method.to_string(), &a2)?;
            if fal {
                return Err(format!("{}: `self.{}` may panic inside a condition", what, m2.method));
            }
            Ok(Some(format!("({}).isSome", t)))
        }
        _ => Ok(None),
    }
}

pub fn region_dispatch(files: &[File], names: &[String], reg: &mut Registry, out: &mut String) -> Res<()> {
    let wiring = region_wiring(files)?;
    let region_enum: Vec<String> = reg.enums.get("Region").ok_or("region_dispatch: enum Region must be registered first")?.iter().map(|(v, _)| v.clone()).collect();
    for v in &region_enum {
        if !wiring.iter().any(|w| w.variant == *v) {
            return Err(format!("region_dispatch: State::new has no arm for Region::{}", v));
        }
    }
    for w in &wiring {
        let pt = state_payload(files, &w.state_variant)?;
        if pt != w.plan_ty {
            return Err(format!("region_dispatch: State::{} holds a {}, State::new constructs a {}", w.state_variant, pt, w.plan_ty));
        }
    }
    for m in DISPATCHED {
        let f = find_config_method(files, m)?;
        let what = format!("Configuration::{}", m);
        let params = fn_params(&f.sig)?;
        let e = strip_paren(single_tail_expr(&f.block).ok_or(format!("{}: body is not a single expression", what))?);
        // `dispatch!(..)` or `dispatch!(..).map(Some)`
        let (mac, map_some) = match e {
            Expr::Macro(em) => (&em.mac, false),
            Expr::MethodCall(mc) if mc.method == "map" && mc.args.len() == 1 && single_ident(&mc.args[0]).as_deref() == Some("Some") => match strip_paren(&mc.receiver) {
                Expr::Macro(em) => (&em.mac, true),
                _ => return Err(format!("{}: receiver of .map(Some) is not a macro invocation", what)),
            },
            _ => return Err(format!("{}: body is not a dispatch macro invocation", what)),
        };
        let (mname, expanded, _) = expand(files, mac)?;
        let Expr::Match(mt) = strip_paren(&expanded) else { return Err(format!("{}: {}! does not expand to a match", what, mname)) };
        // scrutinee: `&self.state` (a `&mut` dispatch would need state passing)
        let ok_scrut = match strip_paren(&mt.expr) {
            Expr::Reference(r) if r.mutability.is_none() => match strip_paren(&r.expr) {
                Expr::Field(fe) => single_ident(&fe.base).as_deref() == Some("self") && matches!(&fe.member, Member::Named(n) if n == "state"),
                _ => false,
            },
            _ => false,
        };
        if !ok_scrut {
            return Err(format!("{}: {}! does not match on `&self.state`", what, mname));
        }
        let mut arms_out: Vec<(String, bool)> = vec![];
        for w in &wiring {
            // the arm for this region's state variant (first match, as in Rust); wildcard / binding arms are not supported
            let mut hit = None;
            for arm in &mt.arms {
                if arm.guard.is_some() {
                    return Err(format!("{}: guarded arm in {}!", what, mname));
                }
                match &arm.pat {
                    Pat::TupleStruct(ts) if ts.path.segments.len() == 2 && ts.path.segments[0].ident == "State" && ts.elems.len() == 1 => {
                        if ts.path.segments[1].ident == w.state_variant {
                            let binder = match &ts.elems[0] {
                                Pat::Ident(pi) if pi.by_ref.is_none() && pi.subpat.is_none() => Some(pi.ident.to_string()),
                                Pat::Wild(_) => None,
                                _ => return Err(format!("{}: unsupported payload pattern in {}!", what, mname)),
                            };
                            hit = Some((binder, &*arm.body));
                            break;
                        }
                    }
                    _ => return Err(format!("{}: arm of {}! is not `State::X(..)`", what, mname)),
                }
            }
            let (binder, body) = hit.ok_or(format!("{}: {}! has no arm for State::{}", what, mname, w.state_variant))?;
            let Expr::MethodCall(mc) = strip_paren(body) else { return Err(format!("{}: arm State::{} of {}! is not a method call", what, w.state_variant, mname)) };
            // receiver: `state` for an alias of DynamicChannelPlan, `state.0` for a newtype around FixedChannelPlan
            let direct = single_ident(&mc.receiver).is_some() && single_ident(&mc.receiver) == binder && !matches!(&*mc.receiver, Expr::Reference(_));
            let through0 = match strip_paren(&mc.receiver) {
                Expr::Field(fe) => single_ident(&fe.base) == binder && binder.is_some() && matches!(&fe.member, Member::Unnamed(i) if i.index == 0),
                _ => false,
            };
            if !((direct && !w.fixed) || (through0 && w.fixed)) {
                return Err(format!("{}: arm State::{}: receiver `{}` does not reach the {} plan", what, w.state_variant, quote::ToTokens::to_token_stream(&*mc.receiver), if w.fixed { "fixed" } else { "dynamic" }));
            }
            let mut args = vec![];
            for a in &mc.args {
                let id = single_ident(a).ok_or(format!("{}: dispatch argument is not a parameter name", what))?;
                if !params.iter().any(|(n, _)| *n == id) {
                    return Err(format!("{}: dispatch argument `{}` is not a parameter", what, id));
                }
                args.push(id);
            }
            arms_out.push(plan_method_term(files, names, reg, w, &mc.method.to_string(), &args)?);
        }
        let fallible = arms_out.iter().any(|a| a.1);
        // types
        let (ptys, rty) = {
            let tr = new_tr(reg, None, "");
            let mut ptys = vec![];
            for (_, t) in &params {
                ptys.push(tr.ty(t)?.lean());
            }
            let rty = match &f.sig.output {
                ReturnType::Type(_, t) => tr.ty(t)?.lean(),
                ReturnType::Default => return Err(format!("{}: no return type", what)),
            };
            (ptys, rty)
        };
        let mut ty = String::from("Region");
        for t in &ptys {
            write!(ty, " → {}", t).unwrap();
        }
        write!(ty, " → {}", if fallible { format!("Option ({})", rty) } else { rty.clone() }).unwrap();
        writeln!(out, "/-- `Configuration::{}`: `{}!` expanded with its own rules and every arm followed to the plan's `RegionHandler::{}`\nwith the plan's region type; the argument is the `Region` the configuration was created for{} -/", m, mname, m, if fallible { " (`none` = panic)" } else { "" }).unwrap();
        writeln!(out, "def Configuration.{} : {}", m, ty).unwrap();
        for (w, (term, fal)) in wiring.iter().zip(arms_out.iter()) {
            let mut lhs = format!("  | .{}", w.variant);
            for (n, _) in &params {
                write!(lhs, ", {}", n).unwrap();
            }
            let mut t = term.clone();
            if map_some {
                // Rust `x.map(Some)` on the method's `Option` result; when the callee may panic that result is under the panic layer
                t = if *fal { format!("({}).map (fun x => x.map some)", t) } else { format!("({}).map some", t) };
            }
            if fallible && !*fal {
                t = format!("some ({})", t);
            }
            writeln!(out, "{} => {}", lhs, t).unwrap();
        }
        writeln!(out).unwrap();
    }
    Ok(())
}

// ------------------------------------------------------------------------------------------------
// `region_static_dispatch!`: `State::V(_) => path::PlanTy::m(args)` → inherent fn of the plan type → `R::m(args)` /
// `RegionTy::m(args)` → the region type's trait impl, else the default body of `ChannelRegion`

fn inherent_fn<'a>(files: &'a [File], ty: &str, name: &str) -> Res<(&'a ImplItemFn, Option<String>)> {
    let mut hit = None;
    for it in flat_items(files) {
        if let Item::Impl(im) = it {
            if im.trait_.is_none() && type_name(&im.self_ty) == ty {
                let tparam = im.generics.params.iter().find_map(|g| match g {
                    GenericParam::Type(t) => Some(t.ident.to_string()),
                    _ => None,
                });
                for ii in &im.items {
                    if let ImplItem::Fn(f) = ii {
                        if f.sig.ident == name {
                            if hit.is_some() {
                                return Err(format!("{}::{} is defined twice", ty, name));
                            }
                            hit = Some((f, tparam.clone()));
                        }
                    }
                }
            }
        }
    }
    hit.ok_or(format!("inherent fn {}::{} not found", ty, name))
}

/// the body must forward all parameters, in order, to `head::name(..)`; returns `head`
fn forwards_to(f: &ImplItemFn, name: &str, what: &str) -> Res<String> {
    let params = fn_params(&f.sig)?;
    let e = single_tail_expr(&f.block).ok_or(format!("{}: body is not a single expression", what))?;
    let (segs, cargs) = call_parts(e).ok_or(format!("{}: body is not a call", what))?;
    if segs.len() != 2 || segs[1] != name || cargs.len() != params.len() {
        return Err(format!("{}: body does not forward to `_::{}`", what, name));
    }
    for (a, (p, _)) in cargs.iter().zip(params.iter()) {
        if matches!(a, Expr::Reference(_)) || single_ident(a).as_deref() != Some(p.as_str()) {
            return Err(format!("{}: arguments are not forwarded in order", what));
        }
    }
    Ok(segs[0].clone())
}

pub fn region_static_dispatch(files: &[File], names: &[String], reg: &mut Registry, out: &mut String) -> Res<()> {
    let m = "get_max_payload_length";
    let what = format!("Configuration::{}", m);
    let wiring = region_wiring(files)?;
    let f = find_config_method(files, m)?;
    let params = fn_params(&f.sig)?;
    let Expr::Macro(em) = strip_paren(single_tail_expr(&f.block).ok_or(format!("{}: body is not a single expression", what))?) else { return Err(format!("{}: body is not a macro invocation", what)) };
    let (mname, expanded, _) = expand(files, &em.mac)?;
    let Expr::Match(mt) = strip_paren(&expanded) else { return Err(format!("{}: {}! does not expand to a match", what, mname)) };
    let ok_scrut = match strip_paren(&mt.expr) {
        Expr::Reference(r) if r.mutability.is_none() => match strip_paren(&r.expr) {
            Expr::Field(fe) => single_ident(&fe.base).as_deref() == Some("self") && matches!(&fe.member, Member::Named(n) if n == "state"),
            _ => false,
        },
        _ => false,
    };
    if !ok_scrut {
        return Err(format!("{}: {}! does not match on `&self.state`", what, mname));
    }
    // the default body of the trait: `let Some(Some(x)) = Self::datarates().get(P as usize) else { return LIT; }; rest`
    let items = flat_items(files);
    let mut dflt = None;
    for it in &items {
        if let Item::Trait(t) = it {
            if t.ident == "ChannelRegion" {
                for ti in &t.items {
                    if let TraitItem::Fn(g) = ti {
                        if g.sig.ident == m {
                            dflt = g.default.as_ref().map(|b| (&g.sig, b));
                        }
                    }
                }
            }
        }
    }
    let (dsig, dbody) = dflt.ok_or(format!("ChannelRegion::{} has no default body", m))?;
    let dparams = fn_params(dsig)?;
    if dparams.len() != params.len() {
        return Err(format!("{}: parameter count differs from ChannelRegion::{}", what, m));
    }
    let dwhat = format!("ChannelRegion::{} (default body)", m);
    let Some(Stmt::Local(l)) = dbody.stmts.first() else { return Err(format!("{}: does not start with a let-else", dwhat)) };
    let init = l.init.as_ref().ok_or(format!("{}: let without initialiser", dwhat))?;
    let (_, els) = init.diverge.as_ref().ok_or(format!("{}: first let has no else", dwhat))?;
    // pattern `Some(Some(x))`
    let bound = (|| -> Option<String> {
        let Pat::TupleStruct(a) = &l.pat else { return None };
        if !a.path.is_ident("Some") || a.elems.len() != 1 {
            return None;
        }
        let Pat::TupleStruct(b) = &a.elems[0] else { return None };
        if !b.path.is_ident("Some") || b.elems.len() != 1 {
            return None;
        }
        match &b.elems[0] {
            Pat::Ident(pi) if pi.by_ref.is_none() && pi.subpat.is_none() && pi.mutability.is_none() => Some(pi.ident.to_string()),
            _ => None,
        }
    })()
    .ok_or(format!("{}: let pattern is not `Some(Some(x))`", dwhat))?;
    if dparams.iter().any(|(n, _)| *n == bound) {
        return Err(format!("{}: the let-else binds `{}`, which shadows a parameter (not supported)", dwhat, bound));
    }
    // initialiser `Self::datarates().get(P as usize)`
    let idx_param = (|| -> Option<String> {
        let Expr::MethodCall(g) = strip_paren(&init.expr) else { return None };
        if g.method != "get" || g.args.len() != 1 {
            return None;
        }
        let (segs, a) = call_parts(&g.receiver)?;
        if segs != ["Self", "datarates"] || !a.is_empty() {
            return None;
        }
        let Expr::Cast(c) = strip_paren(&g.args[0]) else { return None };
        if type_name(&c.ty) != "usize" || matches!(&*c.expr, Expr::Reference(_)) {
            return None;
        }
        single_ident(&c.expr)
    })()
    .ok_or(format!("{}: initialiser is not `Self::datarates().get(param as usize)`", dwhat))?;
    let ik = dparams.iter().position(|(n, _)| *n == idx_param).ok_or(format!("{}: `{}` is not a parameter", dwhat, idx_param))?;
    if type_name(&dparams[ik].1) != "DR" {
        return Err(format!("{}: the index parameter is not a DR", dwhat));
    }
    // else block `{ return LIT; }`
    let else_val = match strip_paren(els) {
        Expr::Block(b) => match b.block.stmts.as_slice() {
            [Stmt::Expr(Expr::Return(r), _)] => match r.expr.as_deref().map(strip_paren) {
                Some(Expr::Lit(ExprLit { lit: Lit::Int(li), .. })) => li.base10_parse::<u64>().ok(),
                _ => None,
            },
            _ => None,
        },
        _ => None,
    }
    .ok_or(format!("{}: else block is not `return literal`", dwhat))?;
    // the rest of the body, translated for real as a function of the bound entry and the parameters
    let mut rest_sig = without_self(dsig);
    let bid = Ident::new(&bound, proc_macro2::Span::call_site());
    let extra: FnArg = parse_quote!(#bid: &Datarate);
    rest_sig.inputs.insert(0, extra);
    let rest_block = Block { brace_token: dbody.brace_token, stmts: dbody.stmts[1..].to_vec() };
    let rest_name = format!("ChannelRegion.{}.rest", m);
    let (text, rsig, extra_defs) = {
        let mut tr = new_tr(reg, None, &rest_name);
        let r = tr.function(&rest_sig, &rest_block, &rest_name).map_err(|e| format!("{}: {}", dwhat, e))?;
        (r.0, r.1, tr.extra_defs)
    };
    for d in extra_defs {
        out.push_str(&d);
        out.push('\n');
    }
    writeln!(out, "/-- the default body of `ChannelRegion::{}` after its leading `let Some(Some({})) = Self::datarates().get({} as usize) else {{ return {} }}` -/", m, bound, idx_param, else_val).unwrap();
    out.push_str(&text);
    out.push('\n');
    let mut arms = vec![];
    for w in &wiring {
        let mut hit = None;
        for arm in &mt.arms {
            if arm.guard.is_some() {
                return Err(format!("{}: guarded arm in {}!", what, mname));
            }
            match &arm.pat {
                Pat::TupleStruct(ts) if ts.path.segments.len() == 2 && ts.path.segments[0].ident == "State" && ts.elems.len() == 1 => {
                    if ts.path.segments[1].ident == w.state_variant {
                        hit = Some(&*arm.body);
                        break;
                    }
                }
                _ => return Err(format!("{}: arm of {}! is not `State::X(..)`", what, mname)),
            }
        }
        let body = hit.ok_or(format!("{}: {}! has no arm for State::{}", what, mname, w.state_variant))?;
        let (segs, cargs) = call_parts(body).ok_or(format!("{}: arm State::{} is not a path call", what, w.state_variant))?;
        if segs.len() < 2 || segs[segs.len() - 2] != w.plan_ty || segs[segs.len() - 1] != m {
            return Err(format!("{}: arm State::{} does not call {}::{}", what, w.state_variant, w.plan_ty, m));
        }
        if cargs.len() != params.len() || cargs.iter().zip(params.iter()).any(|(a, (p, _))| matches!(a, Expr::Reference(_)) || single_ident(a).as_deref() != Some(p.as_str())) {
            return Err(format!("{}: arm State::{} does not pass the parameters in order", what, w.state_variant));
        }
        // the plan type's inherent fn: of the newtype itself, or (alias) of DynamicChannelPlan<R>
        let holder = if w.fixed { w.plan_ty.clone() } else { "DynamicChannelPlan".to_string() };
        let (pf, tparam) = inherent_fn(files, &holder, m)?;
        let head = forwards_to(pf, m, &format!("{}::{}", holder, m))?;
        let reaches_region = if w.fixed { head == w.region_ty } else { Some(&head) == tparam.as_ref() };
        if !reaches_region {
            return Err(format!("{}: {}::{} forwards to {}, not to the region type", what, holder, m, head));
        }
        // the region type must not override the trait's default
        for it in &items {
            if let Item::Impl(im) = it {
                let is_cr = im.trait_.as_ref().map(|(_, p, _)| last_ident(p) == "ChannelRegion").unwrap_or(false);
                if is_cr && type_name(&im.self_ty) == w.region_ty && im.items.iter().any(|ii| matches!(ii, ImplItem::Fn(g) if g.sig.ident == m)) {
                    return Err(format!("{}: {} overrides ChannelRegion::{} (not supported)", what, w.region_ty, m));
                }
            }
        }
        let table = datarates_table(files, names, &w.region_ty)?;
        let mut call = format!("{} {}", rest_name, bound);
        for (p, _) in &params {
            write!(call, " {}", p).unwrap();
        }
        let idx = &params[ik].0;
        let els = if rsig.fallible { format!("some {}", else_val) } else { else_val.to_string() };
        arms.push(format!("(match ({})[(DR.toInt {}).toNat]? with | some (some {}) => {} | _ => {})", table, idx, bound, call, els));
    }
    let (ptys, rty) = {
        let tr = new_tr(reg, None, "");
        let mut ptys = vec![];
        for (_, t) in &params {
            ptys.push(tr.ty(t)?.lean());
        }
        let rty = match &f.sig.output {
            ReturnType::Type(_, t) => tr.ty(t)?.lean(),
            ReturnType::Default => return Err(format!("{}: no return type", what)),
        };
        (ptys, rty)
    };
    let mut ty = String::from("Region");
    for t in &ptys {
        write!(ty, " → {}", t).unwrap();
    }
    write!(ty, " → {}", if rsig.fallible { format!("Option ({})", rty) } else { rty }).unwrap();
    writeln!(out, "/-- `Configuration::{}`: `{}!` expanded with its own rules, every arm followed through the plan type's\ninherent function to the region type, whose `ChannelRegion::{}` is the trait's default body over its own `datarates()` -/", m, mname, m).unwrap();
    writeln!(out, "def Configuration.{} : {}", m, ty).unwrap();
    for (w, a) in wiring.iter().zip(arms.iter()) {
        let mut lhs = format!("  | .{}", w.variant);
        for (n, _) in &params {
            write!(lhs, ", {}", n).unwrap();
        }
        writeln!(out, "{} => {}", lhs, a).unwrap();
    }
    writeln!(out).unwrap();
    Ok(())
}

fn without_self(sig: &Signature) -> Signature {
    let mut s = sig.clone();
    s.inputs = s.inputs.into_iter().filter(|a| !matches!(a, FnArg::Receiver(_))).collect();
    s
}

// ------------------------------------------------------------------------------------------------
// the region type → table wiring of `datarates()` / `uplink_channels()` / `downlink_channels()`

pub fn region_tables(files: &[File], names: &[String], _reg: &mut Registry, out: &mut String) -> Res<()> {
    let wiring = region_wiring(files)?;
    writeln!(out, "/-- `<R as ChannelRegion>::datarates()` of the region type behind each `Region`: which constant the body `&CONST` names\n(resolved in the file of the impl: its own `const`, or `mod m; use m::*`) -/").unwrap();
    writeln!(out, "def datarates : Region → List (Option Datarate)").unwrap();
    for w in &wiring {
        writeln!(out, "  | .{} => {}", w.variant, table_of(files, names, &w.region_ty, "ChannelRegion", "datarates")?).unwrap();
    }
    writeln!(out).unwrap();
    for f in ["uplink_channels", "downlink_channels"] {
        writeln!(out, "/-- `<F as FixedChannelRegion>::{}()` of the region type behind each `Region` (`none`: dynamic plan) -/", f).unwrap();
        writeln!(out, "def {} : Region → Option (List Int)", f).unwrap();
        for w in &wiring {
            if w.fixed {
                writeln!(out, "  | .{} => some {}", w.variant, table_of(files, names, &w.region_ty, "FixedChannelRegion", f)?).unwrap();
            } else {
                writeln!(out, "  | .{} => none", w.variant).unwrap();
            }
        }
        writeln!(out).unwrap();
    }
    Ok(())
}

// ------------------------------------------------------------------------------------------------
// next_lower_datarate

pub const NEXT_LOWER_RAW: &str = r#"/-- `for i in (lo..hi).rev() { if let Some(r) = f(i) { return r } }` and `None` after the loop: the first hit from the
top of the range; outer `none` = a panic inside the body -/
def revFindM {β} (lo hi : Int) (f : Int → Option (Option β)) : Option (Option β) := go (hi - lo).toNat
where
  go : Nat → Option (Option β)
    | 0 => some none
    | n + 1 =>
      match f (lo + n) with
      | none => none
      | some (some r) => some (some r)
      | some none => go n
"#;

pub fn next_lower(files: &[File], _names: &[String], _reg: &mut Registry, out: &mut String) -> Res<()> {
    let f = find_free_fn(files, "next_lower_datarate").ok_or("fn next_lower_datarate not found")?;
    let what = "next_lower_datarate";
    let params = fn_params(&f.sig)?;
    if params.len() != 2 || type_name(&params[0].1) != "Configuration" || type_name(&params[1].1) != "DR" {
        return Err(format!("{}: expected (region: &region::Configuration, current: DR)", what));
    }
    let (region, cur0) = (params[0].0.clone(), params[1].0.clone());
    let mut stmts: Vec<&Stmt> = f.block.stmts.iter().collect();
    // tail: `None`
    match stmts.pop() {
        Some(Stmt::Expr(e, None)) if single_ident(e).as_deref() == Some("None") => {}
        _ => return Err(format!("{}: the function does not end in `None`", what)),
    }
    // the loop
    let Some(Stmt::Expr(Expr::ForLoop(fl), _)) = stmts.pop() else { return Err(format!("{}: no `for` loop before the final `None`", what)) };
    // optional leading `let cur = cur0 as u8;`
    let mut cur = None;
    let mut lines: Vec<String> = vec![];
    let mut it = stmts.into_iter().peekable();
    if let Some(Stmt::Local(l)) = it.peek() {
        if let (Pat::Ident(pi), Some(init)) = (&l.pat, &l.init) {
            if let Expr::Cast(c) = strip_paren(&init.expr) {
                if init.diverge.is_none() && type_name(&c.ty) == "u8" && single_ident(&c.expr).as_deref() == Some(cur0.as_str()) {
                    cur = Some(pi.ident.to_string());
                    it.next();
                }
            }
        }
    }
    let cur = cur.ok_or(format!("{}: first statement is not `let x = {} as u8;`", what, cur0))?;
    // optional `if cur == LIT { return None; }`
    let mut guard = None;
    for s in it {
        let Stmt::Expr(Expr::If(i), _) = s else { return Err(format!("{}: unsupported statement before the loop", what)) };
        if i.else_branch.is_some() || guard.is_some() {
            return Err(format!("{}: unsupported `if` before the loop", what));
        }
        let Expr::Binary(b) = strip_paren(&i.cond) else { return Err(format!("{}: unsupported guard", what)) };
        let lit = match strip_paren(&b.right) {
            Expr::Lit(ExprLit { lit: Lit::Int(li), .. }) => li.base10_parse::<u64>().map_err(|e| e.to_string())?,
            _ => return Err(format!("{}: guard does not compare with a literal", what)),
        };
        if !matches!(b.op, BinOp::Eq(_)) || single_ident(&b.left).as_deref() != Some(cur.as_str()) {
            return Err(format!("{}: guard is not `{} == literal`", what, cur));
        }
        let ret_none = match i.then_branch.stmts.as_slice() {
            [Stmt::Expr(Expr::Return(r), _)] => r.expr.as_ref().map(|e| single_ident(e).as_deref() == Some("None")).unwrap_or(false),
            _ => false,
        };
        if !ret_none {
            return Err(format!("{}: guard does not `return None`", what));
        }
        guard = Some(lit);
    }
    let _ = &mut lines;
    // `for c in (LO..cur).rev()`
    let Pat::Ident(cv) = &*fl.pat else { return Err(format!("{}: loop pattern is not an identifier", what)) };
    let cv = cv.ident.to_string();
    let Expr::MethodCall(rv) = strip_paren(&fl.expr) else { return Err(format!("{}: loop is not over `(lo..hi).rev()`", what)) };
    if rv.method != "rev" || !rv.args.is_empty() {
        return Err(format!("{}: loop is not over `(lo..hi).rev()`", what));
    }
    let Expr::Range(rg) = strip_paren(&rv.receiver) else { return Err(format!("{}: loop is not over a range", what)) };
    if !matches!(rg.limits, RangeLimits::HalfOpen(_)) {
        return Err(format!("{}: loop range is not half-open", what));
    }
    let lo = match rg.start.as_deref().map(strip_paren) {
        Some(Expr::Lit(ExprLit { lit: Lit::Int(li), .. })) => li.base10_parse::<u64>().map_err(|e| e.to_string())?,
        _ => return Err(format!("{}: loop range does not start at a literal", what)),
    };
    if rg.end.as_deref().and_then(single_ident).as_deref() != Some(cur.as_str()) || matches!(rg.end.as_deref(), Some(Expr::Reference(_))) {
        return Err(format!("{}: loop range does not end at `{}`", what, cur));
    }
    // body: `if region.get_datarate(c).is_some() { return Some(DR::from(c)); }`
    let [Stmt::Expr(Expr::If(bi), _)] = fl.body.stmts.as_slice() else { return Err(format!("{}: loop body is not a single `if`", what)) };
    if bi.else_branch.is_some() {
        return Err(format!("{}: loop body `if` has an else branch", what));
    }
    let cond_ok = match strip_paren(&bi.cond) {
        Expr::MethodCall(m1) if m1.method == "is_some" && m1.args.is_empty() => match strip_paren(&m1.receiver) {
            Expr::MethodCall(m2) => m2.method == "get_datarate" && m2.args.len() == 1 && single_ident(&m2.receiver).as_deref() == Some(region.as_str()) && single_ident(&m2.args[0]).as_deref() == Some(cv.as_str()) && !matches!(&m2.args[0], Expr::Reference(_)),
            _ => false,
        },
        _ => false,
    };
    if !cond_ok {
        return Err(format!("{}: loop condition is not `{}.get_datarate({}).is_some()`", what, region, cv));
    }
    let ret_ok = match bi.then_branch.stmts.as_slice() {
        [Stmt::Expr(Expr::Return(r), _)] => match r.expr.as_deref().and_then(call_parts) {
            Some((s, a)) if s == ["Some"] && a.len() == 1 => match call_parts(a[0]) {
                Some((s2, a2)) => s2 == ["DR", "from"] && a2.len() == 1 && single_ident(a2[0]).as_deref() == Some(cv.as_str()),
                None => false,
            },
            _ => false,
        },
        _ => false,
    };
    if !ret_ok {
        return Err(format!("{}: loop body does not `return Some(DR::from({}))`", what, cv));
    }
    writeln!(out, "/-- `next_lower_datarate(region, current)` (mac/session.rs): the loop over the dispatched `Configuration::get_datarate`;\n`DR::from(u8)` is `Gen.Region.u8.into_DR`; outer `none` = panic -/").unwrap();
    writeln!(out, "def next_lower_datarate ({} : Region) ({} : DR) : Option (Option DR) :=", region, cur0).unwrap();
    writeln!(out, "  let {} : Int := DR.toInt {}", cur, cur0).unwrap();
    let lp = format!("revFindM {} {} (fun {} => if (Gen.RegionDispatch.Configuration.get_datarate {} {}).isSome then (Gen.Region.u8.into_DR {}).map some else some none)", lo, cur, cv, region, cv, cv);
    match guard {
        Some(g) => writeln!(out, "  if {} = {} then some none else\n  {}", cur, g, lp).unwrap(),
        None => writeln!(out, "  {}", lp).unwrap(),
    }
    writeln!(out).unwrap();
    Ok(())
}
