//! lv-translate: regenerate the Lean model files `LoraVerif/Gen/*.lean` from /repo's current sources.
//!
//! usage: lv-translate <repo-root> <out-dir>
//! Exit code 0: all units translated.  Exit code 2: at least one unit failed (its
//! file is replaced by a stub that makes every dependent theorem fail loudly, and the
//! failure is listed in <out-dir>/translate_report.json).
mod dispatch;
mod ir;
mod loraapi;
mod maccmd;
mod maccmd_sets;
mod maccmd_creators;
mod maccmd_creators2;
mod phyio;
mod statics;
mod tables;
mod tr;
mod units;

use ir::Ty;
use std::collections::HashMap;
use std::fmt::Write as _;
use std::path::{Path, PathBuf};
use syn::*;
use tr::*;

pub enum Sel {
    /// unit-like enum → inductive (+ `all`, `toInt` when discriminants are explicit)
    Enum(&'static str),
    /// struct with named fields of translatable types
    Struct(&'static str),
    /// top-level or impl-level const: ("NAME" or "Type::NAME")
    Const(&'static str),
    /// function: "free_fn" or "Type::method"; optional lean name override
    Fn(&'static str),
    /// trait impl method: (trait, type, method)
    TraitFn(&'static str, &'static str, &'static str),
    /// `impl From<A> for uN { fn from(..) }` registered as A::into_uN
    FromImpl(&'static str, &'static str),
    /// map a (generic/associated) type name to a concrete type for the following items
    Alias(&'static str, &'static str),
    /// custom table extractor (see tables.rs)
    Custom(fn(&File, &mut Registry, &mut String) -> Res<()>),
    /// literal Lean text
    Raw(&'static str),
    /// top-level const `rust_name` taken from the file whose path contains `file_substr`, emitted as
    /// `lean_name`; later references to `rust_name` resolve to it (file-local constants that exist
    /// under the same name in several files)
    ConstAs(&'static str, &'static str, &'static str),
    /// register a unit enum that another generated module (listed in `imports`) already emits
    ExternEnum(&'static str),
    /// register a struct that another generated module already emits
    ExternStruct(&'static str),
    /// custom extractor over ALL files of the unit (parsed files, their repo-relative names); see statics.rs
    CustomMulti(fn(&[File], &[String], &mut Registry, &mut String) -> Res<()>),
    /// struct of which only the listed (translatable) fields are modelled; a function that touches
    /// any other field does not translate
    StructPartial(&'static str, &'static [&'static str]),
    /// builder L: enum whose variants may carry (translatable) tuple payloads; variants of cargo
    /// features the harness does not enable are left out
    EnumData(&'static str),
    /// builder L: a function the unit does not translate but declares (Lean text given by a `Raw`
    /// item): (rust key, lean name, [(param, rust type)], rust return type)
    ExternFn(&'static str, &'static str, &'static [(&'static str, &'static str)], &'static str),
    /// builder L: register a struct whose Lean text a `Raw` item gives: (name, [(field, rust type)])
    ExternStructRaw(&'static str, &'static [(&'static str, &'static str)]),
    /// builder L: a statement kept abstract in the following functions: (needle in its source text,
    /// Lean function declared by a `Raw` item, expressions it reads, variables it writes)
    AbstractStmt(&'static str, &'static str, &'static [&'static str], &'static [&'static str]),
    /// builder O: register everything another unit (listed in `imports`) emits — enums, structs, constants,
    /// functions with their fallibility — without emitting it again
    ExternUnit(&'static str),
    /// builder O: switch the I/O mode (phyio.rs) for the following functions: `-> Result<_, RadioError>`
    /// functions become actions of `Rt.Phy.IoM` (SPI transfers as a value)
    IoMode(bool),
    /// builder N: like `ExternFn`, with the names of its `&mut` parameters (state passing: the Lean
    /// function returns `ret × their new values`) and whether the Lean function is `Option`-valued
    ExternFnX(&'static str, &'static str, &'static [(&'static str, &'static str)], &'static str, &'static [&'static str], bool),
    /// builder N: a tuple struct with one field (`struct T(u8)`): structure with the field `_0`
    Newtype(&'static str),
    /// builder N: a constant the unit keeps abstract (an associated constant of a generic parameter,
    /// `R::NUM_JOIN_CHANNELS`): (rust path, rust type, Lean term given by a `Raw` item)
    ExternConst(&'static str, &'static str, &'static str),
}

pub struct Unit {
    pub module: &'static str,
    pub file: &'static str,
    pub more_files: Vec<&'static str>,
    pub imports: Vec<&'static str>,
    pub items: Vec<Sel>,
}

fn find_fn<'a>(file: &'a File, tyname: Option<&str>, trait_name: Option<&str>, name: &str) -> Option<(&'a Signature, &'a Block)> {
    fn walk<'a>(items: &'a [Item], tyname: Option<&str>, trait_name: Option<&str>, name: &str) -> Option<(&'a Signature, &'a Block)> {
        for it in items {
            match it {
                Item::Fn(f) if tyname.is_none() && f.sig.ident == name => return Some((&f.sig, &f.block)),
                Item::Impl(im) => {
                    if let Some(tn) = tyname {
                        let self_name = match &*im.self_ty {
                            Type::Path(p) => p.path.segments.last().map(|s| s.ident.to_string()),
                            _ => None,
                        };
                        if self_name.as_deref() != Some(tn) {
                            continue;
                        }
                        let tr = im.trait_.as_ref().map(|(_, p, _)| p.segments.last().unwrap().ident.to_string());
                        if trait_name.is_some() && tr.as_deref() != trait_name {
                            continue;
                        }
                        if trait_name.is_none() && tr.is_some() {
                            continue;
                        }
                        for ii in &im.items {
                            if let ImplItem::Fn(f) = ii {
                                if f.sig.ident == name {
                                    return Some((&f.sig, &f.block));
                                }
                            }
                        }
                    }
                }
                Item::Mod(m) => {
                    if m.ident == "tests" || m.ident == "test" {
                        continue;
                    }
                    if let Some((_, items)) = &m.content {
                        if let Some(r) = walk(items, tyname, trait_name, name) {
                            return Some(r);
                        }
                    }
                }
                _ => {}
            }
        }
        None
    }
    walk(&file.items, tyname, trait_name, name)
}

fn find_from_impl<'a>(file: &'a File, from: &str, to: &str) -> Option<(&'a Signature, &'a Block)> {
    for it in &file.items {
        if let Item::Impl(im) = it {
            let self_name = match &*im.self_ty {
                Type::Path(p) => p.path.segments.last().map(|s| s.ident.to_string()),
                _ => None,
            };
            if self_name.as_deref() != Some(to) {
                continue;
            }
            if let Some((_, p, _)) = &im.trait_ {
                let last = p.segments.last().unwrap();
                if last.ident != "From" {
                    continue;
                }
                if let PathArguments::AngleBracketed(ab) = &last.arguments {
                    if let Some(GenericArgument::Type(Type::Path(tp))) = ab.args.first() {
                        if tp.path.segments.last().unwrap().ident == from {
                            for ii in &im.items {
                                if let ImplItem::Fn(f) = ii {
                                    return Some((&f.sig, &f.block));
                                }
                            }
                        }
                    }
                }
            }
        }
    }
    None
}

/// single-segment callee names in a block
fn callee_names(b: &Block) -> Vec<String> {
    use syn::visit::Visit;
    struct V(Vec<String>);
    impl<'ast> Visit<'ast> for V {
        fn visit_expr_call(&mut self, c: &'ast ExprCall) {
            if let Expr::Path(p) = &*c.func {
                if p.path.segments.len() == 1 {
                    self.0.push(p.path.segments[0].ident.to_string());
                }
                // builder R: `super::f(..)` / `self::f(..)` — a module-level function named through its module
                if p.path.segments.len() == 2 && ["super", "self", "crate"].contains(&p.path.segments[0].ident.to_string().as_str()) {
                    self.0.push(p.path.segments[1].ident.to_string());
                }
            }
            syn::visit::visit_expr_call(self, c);
        }
        fn visit_item_fn(&mut self, _: &'ast ItemFn) {}
    }
    let mut v = V(vec![]);
    v.visit_block(b);
    v.0.sort();
    v.0.dedup();
    v.0
}

/// translate the free (module-level) functions of the unit's files that `body` calls and that are
/// not in the registry yet, depth first
fn translate_free_helpers(files: &[File], reg: &mut Registry, out: &mut String, body: &Block, me: &str, depth: usize) -> Res<()> {
    if depth > 4 {
        return Ok(());
    }
    // nested fns of the body are handled by the function translator itself
    let nested: Vec<String> = body.stmts.iter().filter_map(|s| if let Stmt::Item(Item::Fn(f)) = s { Some(f.sig.ident.to_string()) } else { None }).collect();
    for name in callee_names(body) {
        if name == me || nested.contains(&name) || reg.fns.contains_key(&name) {
            continue;
        }
        let found = files.iter().find_map(|f| f.items.iter().find_map(|it| if let Item::Fn(g) = it { if g.sig.ident == name { Some(g) } else { None } } else { None }));
        if let Some(g) = found {
            translate_free_helpers(files, reg, out, &g.block, &name, depth + 1)?;
            let mut tr = FnTr { reg, self_ty: None, ret: Ty::Unit, counter: 0, fn_prefix: name.clone(), local_fns: HashMap::new(), extra_defs: vec![], muts: vec![], tparams: HashMap::new() };
            let gblock = crate::statics::inline_consts_block(files, tr.reg, &g.block);
            let (text, fsig) = tr.function(&g.sig, &gblock, &name).map_err(|e| format!("helper fn {}: {}", name, e))?;
            for d in tr.extra_defs {
                out.push_str(&d);
                out.push('\n');
            }
            out.push_str(&text);
            out.push('\n');
            reg.helpers.borrow_mut().push(name.clone());
            reg.fns.insert(name, fsig);
        }
    }
    Ok(())
}

fn find_item<'a>(items: &'a [Item], pred: &dyn Fn(&Item) -> bool) -> Option<&'a Item> {
    for it in items {
        if pred(it) {
            return Some(it);
        }
        if let Item::Mod(m) = it {
            if m.ident == "tests" || m.ident == "test" {
                continue;
            }
            if let Some((_, items)) = &m.content {
                if let Some(r) = find_item(items, pred) {
                    return Some(r);
                }
            }
        }
    }
    None
}

fn eval_discr(e: &Expr) -> Option<i128> {
    match e {
        Expr::Lit(ExprLit { lit: Lit::Int(i), .. }) => i.base10_parse::<i128>().ok(),
        Expr::Unary(ExprUnary { op: UnOp::Neg(_), expr, .. }) => eval_discr(expr).map(|v| -v),
        Expr::Paren(p) => eval_discr(&p.expr),
        // constant-folded discriminants such as `0b01 << 6` or `(0x03 << 1)`
        Expr::Binary(b) => {
            let (l, r) = (eval_discr(&b.left)?, eval_discr(&b.right)?);
            match b.op {
                BinOp::Shl(_) if (0..64).contains(&r) => Some(l << r),
                BinOp::Shr(_) if (0..64).contains(&r) => Some(l >> r),
                BinOp::BitOr(_) => Some(l | r),
                BinOp::BitAnd(_) => Some(l & r),
                BinOp::Add(_) => Some(l + r),
                BinOp::Sub(_) => Some(l - r),
                BinOp::Mul(_) => Some(l * r),
                _ => None,
            }
        }
        _ => None,
    }
}

fn translate_unit(repo: &Path, u: &Unit, reg: &mut Registry) -> Res<String> {
    // builder G: the `LoRa<RK, DLY>` API programs have their own small translator
    if u.module == "Gen.LoRaApiFn" {
        return loraapi::translate(repo);
    }
    reg.io.borrow_mut().unit_io = u.items.iter().any(|s| matches!(s, Sel::IoMode(_)));
    let mut files = vec![];
    let mut file_names: Vec<String> = vec![];
    for f in std::iter::once(&u.file).chain(u.more_files.iter()) {
        let src = std::fs::read_to_string(repo.join(f)).map_err(|e| format!("{}: {}", f, e))?;
        files.push(syn::parse_file(&src).map_err(|e| format!("{}: parse error {}", f, e))?);
        file_names.push(f.to_string());
    }
    // builder L: methods called on `self` are translated on demand from the unit's files
    let files = std::rc::Rc::new(files);
    reg.files = Some(files.clone());
    let mut out = String::new();
    writeln!(out, "-- GENERATED by /verif/tools/translate from /repo/{} — do not edit.", u.file).unwrap();
    writeln!(out, "import LoraVerif.Rt").unwrap();
    // builder R: an import written `!Module` is imported but not opened (its names are used qualified)
    for i in &u.imports {
        writeln!(out, "import {}", i.trim_start_matches('!')).unwrap();
    }
    writeln!(out, "set_option linter.unusedVariables false").unwrap();
    writeln!(out, "namespace {}", u.module).unwrap();
    for i in u.imports.iter().filter(|i| !i.starts_with('!')) {
        writeln!(out, "open {}", i.trim_start_matches("LoraVerif.")).unwrap();
    }
    writeln!(out).unwrap();
    let find_in = |pred: &dyn Fn(&Item) -> bool| -> Option<&Item> { files.iter().find_map(|f| find_item(&f.items, pred)) };
    for sel in &u.items {
        match sel {
            Sel::Raw(t) => {
                out.push_str(t);
                out.push('\n');
            }
            Sel::Alias(a, b) => {
                let t = if let Some(i) = int_ty(b) {
                    Ty::Int(i)
                } else if b.starts_with('[') || b.contains('<') {
                    // builder R: the target is a type expression (`[Result<T, ()>]`)
                    let ty: Type = syn::parse_str(b).map_err(|e| format!("Alias {}: {}", a, e))?;
                    let tr = FnTr { reg, self_ty: None, ret: Ty::Unit, counter: 0, fn_prefix: String::new(), local_fns: HashMap::new(), extra_defs: vec![], muts: vec![], tparams: HashMap::new() };
                    tr.ty(&ty)?
                } else {
                    Ty::Named(b.to_string())
                };
                reg.aliases.insert(a.to_string(), t);
            }
            Sel::Enum(name) => {
                let it = find_in(&|it| matches!(it, Item::Enum(e) if e.ident == name)).ok_or(format!("enum {} not found", name))?;
                let e = match it {
                    Item::Enum(e) => e,
                    _ => unreachable!(),
                };
                let mut vars = vec![];
                let mut next: i128 = 0;
                let mut any_explicit = false;
                for v in &e.variants {
                    if !matches!(v.fields, Fields::Unit) {
                        return Err(format!("enum {} has non-unit variant", name));
                    }
                    let d = match &v.discriminant {
                        Some((_, ex)) => {
                            any_explicit = true;
                            eval_discr(ex).ok_or("non-literal discriminant")?
                        }
                        None => next,
                    };
                    next = d + 1;
                    vars.push((v.ident.to_string(), Some(d)));
                }
                writeln!(out, "inductive {} where", name).unwrap();
                for (v, _) in &vars {
                    writeln!(out, "  | {}", lean_ident(v)).unwrap();
                }
                writeln!(out, "  deriving DecidableEq, Repr, Inhabited\n").unwrap();
                writeln!(
                    out,
                    "def {}.all : List {} := [{}]\n",
                    name,
                    name,
                    vars.iter().map(|(v, _)| format!(".{}", lean_ident(v))).collect::<Vec<_>>().join(", ")
                )
                .unwrap();
                writeln!(out, "def {}.toInt : {} → Int", name, name).unwrap();
                for (v, d) in &vars {
                    writeln!(out, "  | .{} => {}", lean_ident(v), d.unwrap()).unwrap();
                }
                writeln!(out).unwrap();
                writeln!(out, "def {}.name : {} → String", name, name).unwrap();
                for (v, _) in &vars {
                    writeln!(out, "  | .{} => \"{}\"", lean_ident(v), v).unwrap();
                }
                writeln!(out).unwrap();
                let _ = any_explicit;
                reg.enums.insert(name.to_string(), vars);
            }
            Sel::Struct(name) => {
                let it = find_in(&|it| matches!(it, Item::Struct(s) if s.ident == name)).ok_or(format!("struct {} not found", name))?;
                let s = match it {
                    Item::Struct(s) => s,
                    _ => unreachable!(),
                };
                let tr = FnTr { reg, self_ty: Some(name.to_string()), ret: Ty::Unit, counter: 0, fn_prefix: String::new(), local_fns: HashMap::new(), extra_defs: vec![], muts: vec![], tparams: HashMap::new() };
                let mut fields = vec![];
                for f in &s.fields {
                    if tr::cfg_disabled(&f.attrs) {
                        continue;
                    }
                    let fname = f.ident.as_ref().ok_or("tuple struct")?.to_string();
                    fields.push((fname, tr.ty(&f.ty)?));
                }
                writeln!(out, "structure {} where", name).unwrap();
                for (f, t) in &fields {
                    writeln!(out, "  {} : {}", lean_ident(f), t.lean()).unwrap();
                }
                writeln!(out, "  deriving DecidableEq, Repr\n").unwrap();
                reg.structs.insert(name.to_string(), fields);
            }
            Sel::Const(path) => {
                let (tyname, cname) = match path.split_once("::") {
                    Some((a, b)) => (Some(a), b),
                    None => (None, *path),
                };
                let mut found: Option<(&Type, &Expr)> = None;
                for f in files.iter() {
                    if let Some(tn) = tyname {
                        for it in &f.items {
                            if let Item::Impl(im) = it {
                                let self_name = match &*im.self_ty {
                                    Type::Path(p) => p.path.segments.last().map(|s| s.ident.to_string()),
                                    _ => None,
                                };
                                if self_name.as_deref() == Some(tn) {
                                    for ii in &im.items {
                                        if let ImplItem::Const(c) = ii {
                                            if c.ident == cname {
                                                found = Some((&c.ty, &c.expr));
                                            }
                                        }
                                    }
                                }
                            }
                        }
                    } else if let Some(Item::Const(c)) = find_item(&f.items, &|it| matches!(it, Item::Const(c) if c.ident == cname)) {
                        found = Some((&c.ty, &c.expr));
                    }
                }
                let (ty, expr) = found.ok_or(format!("const {} not found", path))?;
                let mut tr = FnTr { reg, self_ty: tyname.map(|s| s.to_string()), ret: Ty::Unit, counter: 0, fn_prefix: String::new(), local_fns: HashMap::new(), extra_defs: vec![], muts: vec![], tparams: HashMap::new() };
                let t = tr.ty(ty)?;
                let mut st = vec![];
                let mut env = HashMap::new();
                let (term, _) = tr.ex(expr, &mut env, &mut st, Some(t.clone()))?;
                let lean_name = path.replace("::", ".");
                if !st.is_empty() {
                    // constant expression with arithmetic: evaluate through the checked monad, `getD` is not used:
                    // we emit an Option-valued def and a plain def via `match`.
                    let seq = ir::Seq { stmts: st, tail: ir::Tail::Val(term) };
                    let mut body = String::new();
                    ir::render_m(&seq, 1, &mut body);
                    writeln!(out, "def {}_chk : Option {} := {}\n", lean_name, t.lean(), body).unwrap();
                    writeln!(out, "def {} : {} := match {}_chk with | some v => v | none => 0\n", lean_name, t.lean(), lean_name).unwrap();
                } else {
                    writeln!(out, "def {} : {} := {}\n", lean_name, t.lean(), term).unwrap();
                }
                reg.consts.insert(path.to_string(), (t, lean_name));
            }
            Sel::Fn(path) | Sel::TraitFn(_, path, _) => {
                let (tyname, trait_name, fname): (Option<&str>, Option<&str>, &str) = match sel {
                    Sel::TraitFn(tr, ty, m) => (Some(ty), Some(tr), m),
                    _ => match path.split_once("::") {
                        Some((a, b)) => (Some(a), None, b),
                        None => (None, None, *path),
                    },
                };
                let (sig, body) = files.iter().find_map(|f| find_fn(f, tyname, trait_name, fname)).ok_or(format!("fn {} not found", path))?;
                if let Some(t) = tyname {
                    // builder L: already emitted as a helper of an earlier item
                    let k = format!("{}::{}", t, fname);
                    let d = reg.dyn_fns.borrow().get(&k).cloned();
                    if let Some(d) = d {
                        reg.fns.insert(k, d);
                        continue;
                    }
                }
                let lean_name = match tyname {
                    Some(t) => format!("{}.{}", t, fname),
                    None => fname.to_string(),
                };
                // private module-level helpers the function calls (a nested helper moved out of the
                // function, an extracted sub-step) are translated first, without being listed
                translate_free_helpers(&files, reg, &mut out, body, fname, 0)?;
                // module-level constants the body mentions but the unit does not select: by value
                let body_inl = crate::statics::inline_consts_block(&files, reg, body);
                let body = &body_inl;
                let mut tr = FnTr { reg, self_ty: tyname.map(|s| s.to_string()), ret: Ty::Unit, counter: 0, fn_prefix: lean_name.clone(), local_fns: HashMap::new(), extra_defs: vec![], muts: vec![], tparams: HashMap::new() };
                let (text, fsig) = tr.function(sig, body, &lean_name).map_err(|e| format!("fn {}: {}", lean_name, e))?;
                for d in tr.extra_defs {
                    out.push_str(&d);
                    out.push('\n');
                }
                out.push_str(&text);
                out.push('\n');
                let key = match tyname {
                    Some(t) => format!("{}::{}", t, fname),
                    None => fname.to_string(),
                };
                reg.fns.insert(key, fsig);
            }
            Sel::FromImpl(from, to) => {
                let (sig, body) = files.iter().find_map(|f| find_from_impl(f, from, to)).ok_or(format!("From<{}> for {} not found", from, to))?;
                let lean_name = format!("{}.into_{}", from, to);
                reg.aliases.insert("Self".into(), match int_ty(to) { Some(i) => Ty::Int(i), None => Ty::Named(to.to_string()) });
                let mut tr = FnTr { reg, self_ty: None, ret: Ty::Unit, counter: 0, fn_prefix: lean_name.clone(), local_fns: HashMap::new(), extra_defs: vec![], muts: vec![], tparams: HashMap::new() };
                let r = tr.function(sig, body, &lean_name);
                let (text, fsig) = r.map_err(|e| format!("fn {}: {}", lean_name, e))?;
                out.push_str(&text);
                out.push('\n');
                reg.aliases.remove("Self");
                reg.fns.insert(format!("{}::into_{}", from, to), fsig);
            }
            Sel::Custom(f) => {
                f(&files[0], reg, &mut out)?;
            }
            Sel::CustomMulti(f) => {
                f(&files, &file_names, reg, &mut out)?;
            }
            Sel::StructPartial(name, keep) => {
                let it = find_in(&|it| matches!(it, Item::Struct(s) if s.ident == name)).ok_or(format!("struct {} not found", name))?;
                let s = match it {
                    Item::Struct(s) => s,
                    _ => unreachable!(),
                };
                let tr = FnTr { reg, self_ty: Some(name.to_string()), ret: Ty::Unit, counter: 0, fn_prefix: String::new(), local_fns: HashMap::new(), extra_defs: vec![], muts: vec![], tparams: HashMap::new() };
                let mut fields = vec![];
                for f in &s.fields {
                    let fname = f.ident.as_ref().ok_or("tuple struct")?.to_string();
                    if keep.contains(&fname.as_str()) {
                        fields.push((fname, tr.ty(&f.ty)?));
                    }
                }
                if fields.len() != keep.len() {
                    return Err(format!("struct {}: not all of the fields {:?} exist", name, keep));
                }
                writeln!(out, "/-- the fields {:?} of `{}` (the others are not modelled) -/", keep, name).unwrap();
                writeln!(out, "structure {} where", name).unwrap();
                for (f, t) in &fields {
                    writeln!(out, "  {} : {}", lean_ident(f), t.lean()).unwrap();
                }
                writeln!(out, "  deriving DecidableEq, Repr\n").unwrap();
                reg.structs.insert(name.to_string(), fields);
            }
            Sel::EnumData(name) => {
                let it = find_in(&|it| matches!(it, Item::Enum(e) if e.ident == name)).ok_or(format!("enum {} not found", name))?;
                let e = match it {
                    Item::Enum(e) => e,
                    _ => unreachable!(),
                };
                let tr = FnTr { reg, self_ty: Some(name.to_string()), ret: Ty::Unit, counter: 0, fn_prefix: String::new(), local_fns: HashMap::new(), extra_defs: vec![], muts: vec![], tparams: HashMap::new() };
                let mut units = vec![];
                let mut datas = vec![];
                let mut lines = vec![];
                let mut named: Vec<(String, Vec<String>)> = vec![];
                for v in &e.variants {
                    if tr::cfg_disabled(&v.attrs) {
                        continue;
                    }
                    let vn = v.ident.to_string();
                    match &v.fields {
                        Fields::Unit => {
                            lines.push(format!("  | {}", lean_ident(&vn)));
                            units.push((vn, None));
                        }
                        Fields::Unnamed(fs) => {
                            let tys = fs.unnamed.iter().map(|f| tr.ty(&f.ty)).collect::<Res<Vec<_>>>().map_err(|e| format!("enum {} variant {}: {}", name, vn, e))?;
                            lines.push(format!("  | {} {}", lean_ident(&vn), tys.iter().enumerate().map(|(k, t)| format!("(a{} : {})", k, t.lean())).collect::<Vec<_>>().join(" ")));
                            datas.push((vn, tys));
                        }
                        Fields::Named(fs) => {
                            // builder N: struct-like variant: constructor arguments in declaration order
                            let tys = fs.named.iter().map(|f| tr.ty(&f.ty)).collect::<Res<Vec<_>>>().map_err(|e| format!("enum {} variant {}: {}", name, vn, e))?;
                            let names: Vec<String> = fs.named.iter().map(|f| f.ident.as_ref().unwrap().to_string()).collect();
                            lines.push(format!("  | {} {}", lean_ident(&vn), names.iter().zip(tys.iter()).map(|(n, t)| format!("({} : {})", lean_ident(n), t.lean())).collect::<Vec<_>>().join(" ")));
                            named.push((format!("{}::{}", name, vn), names));
                            datas.push((vn, tys));
                        }
                    }
                }
                writeln!(out, "inductive {} where", name).unwrap();
                for l in &lines {
                    writeln!(out, "{}", l).unwrap();
                }
                writeln!(out, "  deriving DecidableEq, Repr\n").unwrap();
                reg.enums.insert(name.to_string(), units);
                reg.enum_data.insert(name.to_string(), datas);
                for (k, v) in named {
                    reg.enum_named.insert(k, v);
                }
            }
            Sel::ExternUnit(m) => {
                let u2 = units::units().into_iter().find(|x| x.module == *m).ok_or(format!("ExternUnit: no unit {}", m))?;
                let was = reg.io.borrow().mode;
                reg.io.borrow_mut().mode = false;
                let was_unit = reg.io.borrow().unit_io;
                let r = translate_unit(repo, &u2, reg);
                reg.io.borrow_mut().mode = was;
                reg.io.borrow_mut().unit_io = was_unit;
                reg.files = Some(files.clone());
                reg.helpers.borrow_mut().clear();
                r.map_err(|e| format!("ExternUnit {}: {}", m, e))?;
            }
            Sel::IoMode(on) => {
                reg.io.borrow_mut().mode = *on;
            }
            Sel::AbstractStmt(needle, lean, reads, writes) => {
                reg.abstract_stmts.push((needle.to_string(), lean.to_string(), reads.iter().map(|s| s.to_string()).collect(), writes.iter().map(|s| s.to_string()).collect()));
            }
            Sel::ExternStructRaw(name, fields) => {
                let tr = FnTr { reg, self_ty: None, ret: Ty::Unit, counter: 0, fn_prefix: String::new(), local_fns: HashMap::new(), extra_defs: vec![], muts: vec![], tparams: HashMap::new() };
                let mut fs = vec![];
                for (n, t) in fields.iter() {
                    let ty: Type = syn::parse_str(t).map_err(|e| format!("ExternStructRaw {}: {}", name, e))?;
                    fs.push((n.to_string(), tr.ty(&ty)?));
                }
                reg.structs.insert(name.to_string(), fs);
            }
            Sel::ExternFn(key, lean, params, ret) => {
                let tr = FnTr { reg, self_ty: None, ret: Ty::Unit, counter: 0, fn_prefix: String::new(), local_fns: HashMap::new(), extra_defs: vec![], muts: vec![], tparams: HashMap::new() };
                let mut ps = vec![];
                for (n, t) in params.iter() {
                    let ty: Type = syn::parse_str(t).map_err(|e| format!("ExternFn {}: {}", key, e))?;
                    ps.push((n.to_string(), tr.ty(&ty)?));
                }
                let rty: Type = syn::parse_str(ret).map_err(|e| format!("ExternFn {}: {}", key, e))?;
                let r = tr.ty(&rty)?;
                reg.fns.insert(key.to_string(), FnSig { lean: lean.to_string(), params: ps, ret: r, fallible: false, muts: vec![] });
            }
            Sel::ExternFnX(key, lean, params, ret, muts, fallible) => {
                let tr = FnTr { reg, self_ty: None, ret: Ty::Unit, counter: 0, fn_prefix: String::new(), local_fns: HashMap::new(), extra_defs: vec![], muts: vec![], tparams: HashMap::new() };
                let mut ps = vec![];
                for (n, t) in params.iter() {
                    let ty: Type = syn::parse_str(t).map_err(|e| format!("ExternFnX {}: {}", key, e))?;
                    ps.push((n.to_string(), tr.ty(&ty)?));
                }
                let r = if ret.is_empty() {
                    Ty::Unit
                } else {
                    let rty: Type = syn::parse_str(ret).map_err(|e| format!("ExternFnX {}: {}", key, e))?;
                    tr.ty(&rty)?
                };
                reg.fns.insert(key.to_string(), FnSig { lean: lean.to_string(), params: ps, ret: r, fallible: *fallible, muts: muts.iter().map(|m| m.to_string()).collect() });
            }
            Sel::ExternConst(key, ty, lean) => {
                // builder V: a constant of a registered enum type (`F::JOIN_DR_500KHZ: DR`)
                let t = match int_ty(ty) {
                    Some(i) => Ty::Int(i),
                    None if reg.enums.contains_key(*ty) => Ty::Named(ty.to_string()),
                    None => return Err(format!("ExternConst {}: not an integer type", key)),
                };
                reg.consts.insert(key.to_string(), (t, lean.to_string()));
            }
            Sel::Newtype(name) => {
                let it = find_in(&|it| matches!(it, Item::Struct(s) if s.ident == name)).ok_or(format!("struct {} not found", name))?;
                let s = match it {
                    Item::Struct(s) => s,
                    _ => unreachable!(),
                };
                let tr = FnTr { reg, self_ty: Some(name.to_string()), ret: Ty::Unit, counter: 0, fn_prefix: String::new(), local_fns: HashMap::new(), extra_defs: vec![], muts: vec![], tparams: HashMap::new() };
                let fty = match &s.fields {
                    Fields::Unnamed(fu) if fu.unnamed.len() == 1 => tr.ty(&fu.unnamed[0].ty)?,
                    _ => return Err(format!("{} is not a one-field tuple struct", name)),
                };
                writeln!(out, "/-- the newtype `{}` -/", name).unwrap();
                writeln!(out, "structure {} where\n  _0 : {}\n  deriving DecidableEq, Repr\n", name, fty.lean()).unwrap();
                reg.structs.insert(name.to_string(), vec![("0".to_string(), fty)]);
            }
            Sel::ConstAs(file_substr, rust_name, lean_name) => {
                let idx = file_names.iter().position(|n| n.contains(file_substr)).ok_or(format!("no file matching {}", file_substr))?;
                let c = match find_item(&files[idx].items, &|it| matches!(it, Item::Const(c) if c.ident == rust_name)) {
                    Some(Item::Const(c)) => c,
                    _ => return Err(format!("const {} not found in {}", rust_name, file_names[idx])),
                };
                let mut tr = FnTr { reg, self_ty: None, ret: Ty::Unit, counter: 0, fn_prefix: String::new(), local_fns: HashMap::new(), extra_defs: vec![], muts: vec![], tparams: HashMap::new() };
                let t = tr.ty(&c.ty)?;
                let mut st = vec![];
                let mut env = HashMap::new();
                let (term, _) = tr.ex(&c.expr, &mut env, &mut st, Some(t.clone()))?;
                if !st.is_empty() {
                    return Err(format!("const {} in {} is not a literal expression", rust_name, file_names[idx]));
                }
                writeln!(out, "def {} : {} := {}\n", lean_name, t.lean(), term).unwrap();
                reg.consts.insert(rust_name.to_string(), (t, lean_name.to_string()));
            }
            Sel::ExternEnum(name) => {
                let it = find_in(&|it| matches!(it, Item::Enum(e) if e.ident == name)).ok_or(format!("enum {} not found", name))?;
                if let Item::Enum(e) = it {
                    let mut vars = vec![];
                    let mut next: i128 = 0;
                    for v in &e.variants {
                        let d = match &v.discriminant {
                            Some((_, ex)) => eval_discr(ex).ok_or("non-literal discriminant")?,
                            None => next,
                        };
                        next = d + 1;
                        vars.push((v.ident.to_string(), Some(d)));
                    }
                    reg.enums.insert(name.to_string(), vars);
                }
            }
            Sel::ExternStruct(name) => {
                let it = find_in(&|it| matches!(it, Item::Struct(s) if s.ident == name)).ok_or(format!("struct {} not found", name))?;
                if let Item::Struct(sct) = it {
                    let tr = FnTr { reg, self_ty: Some(name.to_string()), ret: Ty::Unit, counter: 0, fn_prefix: String::new(), local_fns: HashMap::new(), extra_defs: vec![], muts: vec![], tparams: HashMap::new() };
                    let mut fields = vec![];
                    for f in &sct.fields {
                        fields.push((f.ident.as_ref().ok_or("tuple struct")?.to_string(), tr.ty(&f.ty)?));
                    }
                    reg.structs.insert(name.to_string(), fields);
                }
            }
        }
    }
    // a tactic that unfolds every helper translated for this unit, whatever it is called and wherever
    // it lives in the source: proofs use it instead of naming a helper (a nested fn moved to module
    // level or renamed then leaves them untouched)
    let unit_name = u.module.rsplit('.').next().unwrap_or(&u.module).to_string();
    let mut hs: Vec<String> = std::mem::take(&mut *reg.helpers.borrow_mut());
    hs.dedup();
    writeln!(out, "end {}\n", u.module).unwrap();
    writeln!(out, "/-- unfolds the helper functions the translator emitted for this unit ({}) -/", if hs.is_empty() { "none".to_string() } else { hs.join(", ") }).unwrap();
    if hs.is_empty() {
        writeln!(out, "macro \"gen_unfold_helpers_{}\" : tactic => `(tactic| skip)", unit_name).unwrap();
    } else {
        let full: Vec<String> = hs.iter().map(|h| format!("{}.{}", u.module, h)).collect();
        writeln!(out, "macro \"gen_unfold_helpers_{}\" : tactic => `(tactic| simp only [{}])", unit_name, full.join(", ")).unwrap();
    }
    // builder N: the same for the helper METHODS only (methods of modelled structs translated on demand), for
    // proofs that keep the free helper functions folded
    let ms: Vec<String> = hs.iter().filter(|h| h.split_once('.').map(|(t, _)| reg.structs.contains_key(t)).unwrap_or(false)).map(|h| format!("{}.{}", u.module, h)).collect();
    if ms.is_empty() {
        writeln!(out, "macro \"gen_unfold_methods_{}\" : tactic => `(tactic| skip)", unit_name).unwrap();
    } else {
        writeln!(out, "macro \"gen_unfold_methods_{}\" : tactic => `(tactic| simp only [{}])", unit_name, ms.join(", ")).unwrap();
    }
    Ok(out)
}

fn main() {
    let args: Vec<String> = std::env::args().collect();
    if args.len() < 3 {
        eprintln!("usage: lv-translate <repo-root> <out-dir>");
        std::process::exit(64);
    }
    let repo = PathBuf::from(&args[1]);
    let outdir = PathBuf::from(&args[2]);
    std::fs::create_dir_all(&outdir).unwrap();
    let mut failures: Vec<(String, String)> = vec![];
    let mut ok_units = vec![];
    for u in units::units() {
        let mut reg = Registry::default();
        let short = u.module.rsplit('.').next().unwrap();
        let path = outdir.join(format!("{}.lean", short));
        let text = match translate_unit(&repo, &u, &mut reg) {
            Ok(t) => {
                ok_units.push(u.module.to_string());
                t
            }
            Err(e) => {
                eprintln!("translate: unit {} FAILED: {}", u.module, e);
                failures.push((u.module.to_string(), e.clone()));
                format!(
                    "-- GENERATED stub: translation of /repo/{} failed:\n-- {}\n-- Every theorem importing this module fails until the translator supports the construct\n-- (the check then falls back to the correspondence harness and the search).\nnamespace {}\ndef TRANSLATION_FAILED : String := {:?}\nend {}\n",
                    u.file,
                    e.replace('\n', " "),
                    u.module,
                    e,
                    u.module
                )
            }
        };
        let old = std::fs::read_to_string(&path).unwrap_or_default();
        if old != text {
            std::fs::write(&path, text).unwrap();
            eprintln!("translate: wrote {}", path.display());
        }
    }
    let mut rep = String::from("{\n  \"ok\": [");
    rep.push_str(&ok_units.iter().map(|s| format!("{:?}", s)).collect::<Vec<_>>().join(", "));
    rep.push_str("],\n  \"failed\": {");
    rep.push_str(&failures.iter().map(|(m, e)| format!("{:?}: {:?}", m, e)).collect::<Vec<_>>().join(", "));
    rep.push_str("}\n}\n");
    std::fs::write(outdir.join("translate_report.json"), rep).unwrap();
    if !failures.is_empty() {
        std::process::exit(2);
    }
}
