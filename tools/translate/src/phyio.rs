//! builder O — I/O mode: the command encoders of the PHY drivers (`lora-phy/src/sx126x`, `sx127x`).
//!
//! A driver method `async fn f(&mut self, args) -> Result<T, RadioError>` whose body computes bytes and
//! talks to the chip through `self.intf` becomes an action of `Rt.Phy.IoM RadioError σ T`
//! (`lean/LoraVerif/RtPhy.lean`): a function of the device answering the reads (`σ`, its transfer
//! function) and of the requests made so far, returning `none` (a Rust panic: checked arithmetic,
//! index out of bounds) or the result (`Ok` / `Err`) with the device afterwards and the list of
//! requests (SPI transactions: bytes written, number of bytes read; busy waits) extended by this
//! call's.  `?` is the monad's bind, `return Err(e)` / `Err(e)` is `throw`, `.await` is transparent.
//! `self` / `radio` are read-only in this mode (a method that assigns a field of them does not
//! translate); all state is the device's.
use crate::ir::*;
use crate::tr::*;
use std::collections::HashMap;
use syn::*;

#[derive(Default)]
pub struct IoCtx {
    pub mode: bool,
    /// the unit being translated is an I/O unit (it has `IoMode` items): `Result<T, _>` is `Ty::Res` there;
    /// elsewhere (builder N's state-passing units) a `Result` whose error is never inspected is an `Option`
    pub unit_io: bool,
    /// the buffer variable a pending `intf.read(.., &mut buf)` / `read_with_status` fills, and whether the
    /// action also returns a status byte
    pub pending_wb: Option<(String, bool)>,
    /// builder P: translating a function that is not an I/O action (no `Result`) while `mode` is on
    pub in_pure: bool,
    /// builder B: the caller's `&mut [u8]` buffers of the method being translated (passed by value, handed back next to
    /// the `Ok` value: `IoM ε σ (T × List Int)`)
    pub out_bufs: Vec<String>,
    /// builder B: a write into one of `out_bufs` has been emitted; from then on the method must not throw (an `Err`
    /// would drop the bytes delivered into the caller's buffer) — the translation FAILS LOUDLY if it might
    pub out_written: bool,
    /// builder B: the pending read fills a sub-slice `var[a..b]` of its buffer variable: the Lean terms of `a` and `b`
    pub pending_slice: Option<(String, String)>,
    /// builder B: Lean names of the translated methods that take a caller's buffer (they answer `(value, buffer)`); a
    /// translated method that CALLS one of them is refused (the write-back into the caller's own buffer is not modelled)
    pub out_fns: Vec<String>,
}

pub fn is_io_fn(sig: &Signature) -> bool {
    match &sig.output {
        ReturnType::Type(_, t) => match &**t {
            Type::Path(tp) => tp.path.segments.last().map(|s| s.ident == "Result").unwrap_or(false),
            _ => false,
        },
        _ => false,
    }
}

pub fn check_no_pending(tr: &FnTr) -> Res<()> {
    if tr.reg.io.borrow().pending_wb.is_some() {
        return Err("a read through `self.intf` whose result is not bound with `?` is not supported".into());
    }
    Ok(())
}

/// does the expression contain `return Ok(..)` (a real early return; `return Err(..)` is a throw)?
pub fn returns_ok(e: &Expr) -> bool {
    struct V(bool);
    impl<'ast> syn::visit::Visit<'ast> for V {
        fn visit_expr_return(&mut self, r: &'ast ExprReturn) {
            let is_err = match r.expr.as_deref() {
                Some(Expr::Call(c)) => matches!(&*c.func, Expr::Path(p) if p.path.is_ident("Err")),
                _ => false,
            };
            if !is_err {
                self.0 = true;
            }
        }
        fn visit_item_fn(&mut self, _: &'ast ItemFn) {}
    }
    let mut v = V(false);
    syn::visit::visit_expr(&mut v, e);
    v.0
}

/// `Ok(v)` / `Err(e)`
pub fn ok_err(tr: &mut FnTr, name: &str, c: &ExprCall, env: &mut Env, st: &mut Stmts, expect: Option<Ty>) -> Res<(String, Ty)> {
    let inner = match &expect {
        Some(Ty::Res(t)) => Some((**t).clone()),
        _ => match &tr.ret {
            Ty::Res(t) => Some((**t).clone()),
            _ => None,
        },
    };
    if name == "Ok" {
        let (a, ta) = tr.ex(&c.args[0], env, st, inner.clone())?;
        let ta = match (&ta, inner) {
            (Ty::IntLit, Some(i)) => i,
            (Ty::IntLit, None) => Ty::Int("i32"),
            _ => ta,
        };
        // builder B: the caller's buffer is handed back next to the `Ok` value
        let ob = tr.reg.io.borrow().out_bufs.clone();
        if !ob.is_empty() && !tr.reg.io.borrow().in_pure {
            return Ok((format!("(pure ({}, {}))", a, ob.iter().map(|v| lean_ident(v)).collect::<Vec<_>>().join(", ")), Ty::Res(Box::new(ta))));
        }
        Ok((format!("(pure {})", paren(&a)), Ty::Res(Box::new(ta))))
    } else {
        if tr.reg.io.borrow().out_written {
            return Err("an `Err` after a write into the caller's `&mut [u8]` buffer is not supported (the bytes delivered would be dropped)".into());
        }
        let (a, _) = tr.ex(&c.args[0], env, st, Some(Ty::Named("RadioError".into())))?;
        Ok((format!("(Rt.Phy.throw {})", paren(&a)), Ty::Res(Box::new(inner.unwrap_or(Ty::Unit)))))
    }
}

/// `action?`
pub fn try_expr(tr: &mut FnTr, t: &ExprTry, env: &mut Env, st: &mut Stmts) -> Res<(String, Ty)> {
    let (term, ty) = tr.ex(&t.expr, env, st, None)?;
    let inner = match ty {
        Ty::Res(i) => *i,
        other => return Err(format!("`?` on a non-Result ({:?})", other)),
    };
    let wb = tr.reg.io.borrow_mut().pending_wb.take();
    let sl = tr.reg.io.borrow_mut().pending_slice.take();
    // builder B: once bytes were delivered into the caller's buffer only the prelude's primitives (which do not throw in
    // this denotation) may follow; a helper that might answer `Err` would silently drop them
    if tr.reg.io.borrow().out_written && !term.starts_with("(Rt.Phy.") && !term.starts_with("Rt.Phy.") {
        return Err("a call that may answer `Err` after a write into the caller's `&mut [u8]` buffer is not supported".into());
    }
    if let Some((var, _)) = &wb {
        if tr.reg.io.borrow().out_bufs.contains(var) {
            tr.reg.io.borrow_mut().out_written = true;
        }
    }
    match wb {
        Some((var, status)) if sl.is_some() => {
            // a read INTO `var[a..b]`: the slice was taken (checked) before the transaction, the bytes are written back
            let (a, b) = sl.unwrap();
            let tmp = tr.fresh();
            let n = tr.fresh();
            if status {
                st.push((format!("({}, {})", n, tmp), Rhs::Act(term)));
            } else {
                st.push((tmp.clone(), Rhs::Act(term)));
            }
            let v = lean_ident(&var);
            st.push((v.clone(), Rhs::Act(format!("Rt.Phy.ofOpt (Rt.copyFromSlice {} {} {} {})", v, paren(&a), paren(&b), tmp))));
            if status { Ok((n, Ty::Int("u8"))) } else { Ok(("()".into(), Ty::Unit)) }
        }
        Some((var, false)) => {
            st.push((lean_ident(&var), Rhs::Act(term)));
            Ok(("()".into(), Ty::Unit))
        }
        Some((var, true)) => {
            let n = tr.fresh();
            st.push((format!("({}, {})", n, lean_ident(&var)), Rhs::Act(term)));
            Ok((n, Ty::Int("u8")))
        }
        None => {
            if inner == Ty::Unit {
                st.push(("_".into(), Rhs::Act(term)));
                Ok(("()".into(), Ty::Unit))
            } else {
                let n = tr.fresh();
                st.push((n.clone(), Rhs::Act(term)));
                Ok((n, inner))
            }
        }
    }
}

fn peel(e: &Expr) -> &Expr {
    match e {
        Expr::Paren(p) => peel(&p.expr),
        Expr::Reference(r) => peel(&r.expr),
        Expr::Group(g) => peel(&g.expr),
        _ => e,
    }
}

fn is_field(e: &Expr, name: &str) -> bool {
    matches!(peel(e), Expr::Field(f) if matches!(&f.member, Member::Named(i) if i == name))
}

/// calls on `X.intf` (`SpiInterface`) and `X.intf.iv` (`InterfaceVariant`)
pub fn intf_call(tr: &mut FnTr, m: &ExprMethodCall, env: &mut Env, st: &mut Stmts) -> Res<Option<(String, Ty)>> {
    let name = m.method.to_string();
    let recv = peel(&m.receiver);
    if is_field(recv, "iv") {
        if let Expr::Field(f) = recv {
            if is_field(&f.base, "intf") {
                if !m.args.is_empty() {
                    return Err(format!("InterfaceVariant call {} with arguments is not supported", name));
                }
                let term = if name == "wait_on_busy" { "Rt.Phy.waitOnBusy".to_string() } else { format!("(Rt.Phy.iv {:?})", name) };
                return Ok(Some((term, Ty::Res(Box::new(Ty::Unit)))));
            }
        }
        return Ok(None);
    }
    if !is_field(recv, "intf") {
        return Ok(None);
    }
    let bytes = Ty::Arr(Box::new(Ty::Int("u8")));
    let args: Vec<&Expr> = m.args.iter().collect();
    let buf_var = |e: &Expr| -> Res<String> {
        match peel(e) {
            Expr::Path(p) if p.path.segments.len() == 1 => Ok(p.path.segments[0].ident.to_string()),
            other => Err(format!("read buffer must be a local variable, found {}", quote::quote!(#other))),
        }
    };
    match (name.as_str(), args.len()) {
        ("write", 2) => {
            let (w, _) = tr.ex(args[0], env, st, Some(bytes.clone()))?;
            let (f, _) = tr.ex(args[1], env, st, Some(Ty::Bool))?;
            Ok(Some((format!("(Rt.Phy.write {} {})", paren(&w), paren(&f)), Ty::Res(Box::new(Ty::Unit)))))
        }
        ("write_with_payload", 3) => {
            let (w, _) = tr.ex(args[0], env, st, Some(bytes.clone()))?;
            let (p, _) = tr.ex(args[1], env, st, Some(bytes.clone()))?;
            let (f, _) = tr.ex(args[2], env, st, Some(Ty::Bool))?;
            Ok(Some((format!("(Rt.Phy.writeWithPayload {} {} {})", paren(&w), paren(&p), paren(&f)), Ty::Res(Box::new(Ty::Unit)))))
        }
        ("read", 2) | ("read_with_status", 2) => {
            check_no_pending(tr)?;
            let (w, _) = tr.ex(args[0], env, st, Some(bytes.clone()))?;
            let status = name == "read_with_status";
            // builder B: a read INTO a sub-slice of a local / of the caller's buffer, `&mut buf[a..b]` / `&mut buf[..b]`
            if let Expr::Index(ix) = peel(args[1]) {
                let r = match &*ix.index {
                    Expr::Range(r) if matches!(r.limits, RangeLimits::HalfOpen(_)) && r.end.is_some() => r,
                    _ => return Err("read buffer: only `buf[a..b]` / `buf[..b]` sub-slices are supported".into()),
                };
                let var = buf_var(&ix.expr)?;
                let (d, td) = tr.ex(&ix.expr, env, st, Some(bytes.clone()))?;
                if td != bytes {
                    return Err("read buffer is not a byte array".into());
                }
                let a = match &r.start {
                    Some(e) => tr.ex(e, env, st, Some(Ty::Int("usize")))?.0,
                    None => "0".to_string(),
                };
                let b = tr.ex(r.end.as_ref().unwrap(), env, st, Some(Ty::Int("usize")))?.0;
                // the slice expression is evaluated (and may panic) before the transaction
                let sl = tr.act(st, format!("Rt.slice {} {} {}", paren(&d), paren(&a), paren(&b)));
                tr.reg.io.borrow_mut().pending_wb = Some((var, status));
                tr.reg.io.borrow_mut().pending_slice = Some((a, b));
                let f = if status { "Rt.Phy.readWithStatus" } else { "Rt.Phy.read" };
                return Ok(Some((format!("({} {} {})", f, paren(&w), paren(&sl)), Ty::Res(Box::new(if status { Ty::Int("u8") } else { Ty::Unit })))));
            }
            let var = buf_var(args[1])?;
            let (b, tb) = tr.ex(args[1], env, st, Some(bytes.clone()))?;
            if !matches!(tb, Ty::Arr(_)) {
                return Err("read buffer is not a byte array".into());
            }
            tr.reg.io.borrow_mut().pending_wb = Some((var, status));
            let f = if status { "Rt.Phy.readWithStatus" } else { "Rt.Phy.read" };
            Ok(Some((format!("({} {} {})", f, paren(&w), paren(&b)), Ty::Res(Box::new(if status { Ty::Int("u8") } else { Ty::Unit })))))
        }
        _ => Err(format!("unsupported SpiInterface call {}", name)),
    }
}

/// unit leaves of a branch get the tuple of the variables the statement may assign; throwing leaves stay
pub fn retarget(s: &mut Seq, tuple: &str) -> Res<()> {
    match &mut s.tail {
        Tail::Val(v) if v == "()" => {
            *v = tuple.to_string();
            Ok(())
        }
        Tail::ActVal(v) if v.starts_with("(Rt.Phy.throw") => Ok(()),
        Tail::Panic => Ok(()),
        Tail::If(_, a, b) => {
            retarget(a, tuple)?;
            retarget(b, tuple)
        }
        Tail::Match(_, arms) => {
            for (_, a) in arms.iter_mut() {
                retarget(a, tuple)?;
            }
            Ok(())
        }
        _ => Err("a branch of a statement-level if/match has a value or leaves the function with Ok".into()),
    }
}

/// the local variable an assignment's left side belongs to (`x`, `x[i]`, `x.f`, `(x)`, `*x`)
fn assigned_root(e: &Expr) -> Option<String> {
    match e {
        Expr::Path(p) if p.path.segments.len() == 1 => Some(p.path.segments[0].ident.to_string()),
        Expr::Field(f) => assigned_root(&f.base),
        Expr::Paren(p) => assigned_root(&p.expr),
        Expr::Unary(u) => assigned_root(&u.expr),
        Expr::Index(i) => assigned_root(&i.expr),
        _ => None,
    }
}

fn assigned_simple(e: &Expr, out: &mut Vec<String>) {
    struct V<'o>(&'o mut Vec<String>);
    impl<'ast, 'o> syn::visit::Visit<'ast> for V<'o> {
        fn visit_expr_assign(&mut self, a: &'ast ExprAssign) {
            // builder E: `x[i] = v` / `x.f = v` assign (part of) the local `x` as well — without this the
            // branch's new value of `x` was silently dropped (found on `calibrate_image`)
            if let Some(r) = assigned_root(&a.left) {
                self.0.push(r);
            }
            syn::visit::visit_expr_assign(self, a);
        }
        fn visit_expr_binary(&mut self, b: &'ast ExprBinary) {
            use BinOp::*;
            if matches!(b.op, AddAssign(_) | SubAssign(_) | MulAssign(_) | DivAssign(_) | RemAssign(_) | BitXorAssign(_) | BitAndAssign(_) | BitOrAssign(_) | ShlAssign(_) | ShrAssign(_)) {
                if let Some(r) = assigned_root(&b.left) {
                    self.0.push(r);
                }
            }
            syn::visit::visit_expr_binary(self, b);
        }
        fn visit_expr_closure(&mut self, _: &'ast ExprClosure) {}
        fn visit_item_fn(&mut self, _: &'ast ItemFn) {}
    }
    syn::visit::visit_expr(&mut V(out), e);
}

/// statement-level `if` / `match` in I/O mode: an action returning the variables it may assign
pub fn stmt_branch(tr: &mut FnTr, e: &Expr, env: &mut Env, st: &mut Stmts) -> Res<()> {
    let mut vars = vec![];
    assigned_simple(e, &mut vars);
    vars.retain(|v| env.contains_key(v));
    vars.sort();
    vars.dedup();
    let tuple = if vars.is_empty() {
        "()".to_string()
    } else if vars.len() == 1 {
        lean_ident(&vars[0])
    } else {
        format!("({})", vars.iter().map(|v| lean_ident(v)).collect::<Vec<_>>().join(", "))
    };
    let name = if vars.is_empty() { "_".to_string() } else { tuple.clone() };
    match e {
        Expr::If(ei) => {
            let tail = tr.phi_if(ei, env, st, &vars)?;
            st.push((name, Rhs::Br(Box::new(tail))));
            Ok(())
        }
        Expr::Match(m) => {
            let (sc, sty) = tr.ex(&m.expr, env, st, None)?;
            if matches!(sty, Ty::Int(_) | Ty::IntLit) || m.arms.iter().any(|a| a.guard.is_some()) {
                return Err("statement-level match (I/O mode): integer scrutinee / guards not supported".into());
            }
            let mut arms = vec![];
            for arm in &m.arms {
                let mut env_a = env.clone();
                let p = tr.pat(&arm.pat, &sty, &mut env_a)?;
                let body: Vec<Stmt> = match &*arm.body {
                    Expr::Block(b) => b.block.stmts.clone(),
                    other => vec![Stmt::Expr(other.clone(), Some(Default::default()))],
                };
                arms.push((p, tr.phi_branch(&body, &mut env_a, &tuple)?));
            }
            st.push((name, Rhs::Br(Box::new(Tail::Match(sc, arms)))));
            Ok(())
        }
        _ => Err("stmt_branch: not an if/match".into()),
    }
}

/// a method of `tn` defined in a trait impl (`impl Trait for tn`) or, failing that, the default method
/// of a trait `tn` implements
pub fn find_trait_method<'f>(files: &'f [File], tn: &str, name: &str) -> Option<(&'f Signature, &'f Block)> {
    fn self_name(im: &ItemImpl) -> Option<String> {
        match &*im.self_ty {
            Type::Path(p) => p.path.segments.last().map(|s| s.ident.to_string()),
            _ => None,
        }
    }
    let mut traits: Vec<String> = vec![];
    for f in files {
        for it in &f.items {
            if let Item::Impl(im) = it {
                if im.trait_.is_some() && self_name(im).as_deref() == Some(tn) {
                    for ii in &im.items {
                        if let ImplItem::Fn(g) = ii {
                            if g.sig.ident == name {
                                return Some((&g.sig, &g.block));
                            }
                        }
                    }
                    traits.push(im.trait_.as_ref().unwrap().1.segments.last().unwrap().ident.to_string());
                }
            }
        }
    }
    for f in files {
        for it in &f.items {
            if let Item::Trait(t) = it {
                if traits.contains(&t.ident.to_string()) {
                    for ti in &t.items {
                        if let TraitItem::Fn(g) = ti {
                            if g.sig.ident == name {
                                if let Some(b) = &g.default {
                                    return Some((&g.sig, b));
                                }
                            }
                        }
                    }
                }
            }
        }
    }
    None
}

/// does the body assign to (a field of) one of the read-only parameters?
fn assigns_to(body: &Block, names: &[String]) -> Option<String> {
    struct V<'n> {
        names: &'n [String],
        hit: Option<String>,
    }
    fn root(e: &Expr) -> Option<String> {
        match e {
            Expr::Path(p) if p.path.segments.len() == 1 => Some(p.path.segments[0].ident.to_string()),
            Expr::Field(f) => root(&f.base),
            Expr::Paren(p) => root(&p.expr),
            Expr::Unary(u) => root(&u.expr),
            Expr::Index(i) => root(&i.expr),
            _ => None,
        }
    }
    impl<'ast, 'n> syn::visit::Visit<'ast> for V<'n> {
        fn visit_expr_assign(&mut self, a: &'ast ExprAssign) {
            if let Some(r) = root(&a.left) {
                if self.names.contains(&r) && !matches!(&*a.left, Expr::Path(_)) {
                    self.hit = Some(r);
                }
            }
            syn::visit::visit_expr_assign(self, a);
        }
    }
    let mut v = V { names, hit: None };
    syn::visit::Visit::visit_block(&mut v, body);
    v.hit
}

pub fn function_io(tr: &mut FnTr, sig: &Signature, body: &Block, lean_name: &str) -> Res<(String, FnSig)> {
    let mut env: Env = HashMap::new();
    let mut params = vec![];
    let mut readonly = vec![];
    let mut out_bufs: Vec<String> = vec![];
    for a in &sig.inputs {
        match a {
            FnArg::Receiver(_) => {
                let t = Ty::Named(tr.self_ty.clone().ok_or("self outside impl")?);
                env.insert("self".into(), t.clone());
                params.push(("self".to_string(), t));
                readonly.push("self".to_string());
            }
            FnArg::Typed(pt) => {
                let name = match &*pt.pat {
                    Pat::Ident(i) => i.ident.to_string(),
                    Pat::Wild(_) => "_".to_string(),
                    _ => return Err("unsupported param pattern".into()),
                };
                // `delay: &mut impl DelayNs` and the like are not modelled
                let t = match tr.ty(&pt.ty) {
                    Ok(t) => t,
                    Err(e) => return Err(format!("parameter {}: {}", name, e)),
                };
                if let Type::Reference(rf) = &*pt.ty {
                    if rf.mutability.is_some() {
                        match &t {
                            Ty::Named(_) => readonly.push(name.clone()),
                            // builder B: the caller's receive buffer `&mut [u8]`
                            Ty::Arr(el) if **el == Ty::Int("u8") && out_bufs.is_empty() => out_bufs.push(name.clone()),
                            _ => return Err(format!("`&mut` parameter {} of a non-struct type is not supported in I/O mode", name)),
                        }
                    }
                }
                env.insert(name.clone(), t.clone());
                params.push((name, t));
            }
        }
    }
    if let Some(r) = assigns_to(body, &readonly) {
        return Err(format!("the method assigns to a field of `{}` (driver state is read-only in I/O mode)", r));
    }
    let ret = match &sig.output {
        ReturnType::Type(_, t) => tr.ty(t)?,
        _ => return Err("I/O function without a return type".into()),
    };
    let inner = match &ret {
        Ty::Res(t) => (**t).clone(),
        _ => return Err("I/O function does not return a Result".into()),
    };
    tr.ret = ret.clone();
    tr.fn_prefix = lean_name.to_string();
    // statement mode of builder L (continuation of early exits, `if let` chains)
    tr.muts = vec![String::new()];
    tr.reg.io.borrow_mut().pending_wb = None;
    tr.reg.io.borrow_mut().pending_slice = None;
    let saved_bufs = std::mem::replace(&mut tr.reg.io.borrow_mut().out_bufs, out_bufs.clone());
    let saved_written = std::mem::replace(&mut tr.reg.io.borrow_mut().out_written, false);
    let saved_out = (saved_bufs, saved_written);
    let seq = tr.block_tail(&body.stmts, &mut env);
    {
        let mut io = tr.reg.io.borrow_mut();
        io.out_bufs = saved_out.0;
        io.out_written = saved_out.1;
    }
    let seq = seq?;
    check_no_pending(tr)?;
    tr.muts = vec![];
    // builder B: a method with a caller's buffer answers `(value, buffer)`; nothing translated may call it as a helper
    let (inner, ret) = if out_bufs.is_empty() {
        (inner, ret)
    } else {
        let t = Ty::Tuple(vec![inner, Ty::Arr(Box::new(Ty::Int("u8")))]);
        (t.clone(), Ty::Res(Box::new(t)))
    };
    let ps = params
        .iter()
        .map(|(n, t)| format!("({} : {})", if n == "_" { "_unused".to_string() } else { lean_ident(n) }, t.lean()))
        .collect::<Vec<_>>()
        .join(" ");
    let mut out = String::new();
    out.push_str(&format!("def {} {{σ : Type}} {} : Rt.Phy.IoM RadioError σ {} := ", lean_name, ps, inner.lean()));
    render_io(&seq, 1, &mut out);
    out.push('\n');
    // builder B: LOUD, not silent: the bytes a helper delivers into a (slice of a) caller's buffer would have to be written
    // back into this method's own variable; that is not modelled
    {
        let fns = tr.reg.io.borrow().out_fns.clone();
        for f in fns.iter().filter(|f| f.as_str() != lean_name) {
            if out.contains(&format!("({} ", f)) || out.contains(&format!(" {} ", f)) {
                return Err(format!("call of {} (a method that fills a caller's `&mut [u8]` buffer) from a translated method is not supported", f));
            }
        }
    }
    if !out_bufs.is_empty() {
        tr.reg.io.borrow_mut().out_fns.push(lean_name.to_string());
    }
    Ok((out, FnSig { lean: lean_name.to_string(), params, ret, fallible: false, muts: vec![] }))
}

// ---- rendering in `Rt.Phy.IoM` (as ir::render_m; a Rust panic is `Rt.Phy.panic`)

fn ind(n: usize) -> String {
    "  ".repeat(n)
}

fn seq_is_pure(s: &Seq) -> bool {
    !s.fallible()
}

pub fn render_io(s: &Seq, lvl: usize, out: &mut String) {
    out.push_str("do\n");
    for (name, rhs) in &s.stmts {
        match rhs {
            Rhs::Pure(t) => out.push_str(&format!("{}let {} := {}\n", ind(lvl), name, t)),
            Rhs::Act(t) => out.push_str(&format!("{}let {} ← {}\n", ind(lvl), name, t)),
            Rhs::Br(t) => {
                if t.fallible() {
                    out.push_str(&format!("{}let {} ← (", ind(lvl), name));
                    render_tail_io(t, lvl + 1, out);
                    out.push_str(")\n");
                } else {
                    out.push_str(&format!("{}let {} := (", ind(lvl), name));
                    render_tail_p(t, lvl + 1, out);
                    out.push_str(")\n");
                }
            }
        }
    }
    out.push_str(&ind(lvl));
    render_tail_io(&s.tail, lvl, out);
}

fn render_seq_io_inline(s: &Seq, lvl: usize, out: &mut String) {
    if seq_is_pure(s) {
        out.push_str("pure (");
        render_p(s, lvl, out);
        out.push(')');
    } else if s.stmts.is_empty() {
        match &s.tail {
            Tail::If(..) | Tail::Match(..) => {
                out.push('(');
                render_tail_io(&s.tail, lvl, out);
                out.push(')');
            }
            _ => render_tail_io(&s.tail, lvl, out),
        }
    } else {
        out.push('(');
        render_io(s, lvl + 1, out);
        out.push(')');
    }
}

fn render_tail_io(t: &Tail, lvl: usize, out: &mut String) {
    match t {
        Tail::Val(v) => out.push_str(&format!("pure {}", paren(v))),
        Tail::ActVal(v) => out.push_str(v),
        Tail::Panic => out.push_str("Rt.Phy.panic"),
        Tail::If(c, a, b) => {
            out.push_str(&format!("if {} then\n{}", c, ind(lvl + 1)));
            render_seq_io_inline(a, lvl + 1, out);
            out.push_str(&format!("\n{}else\n{}", ind(lvl), ind(lvl + 1)));
            render_seq_io_inline(b, lvl + 1, out);
        }
        Tail::Match(sc, arms) => {
            out.push_str(&format!("match {} with", sc));
            for (p, s) in arms {
                out.push_str(&format!("\n{}| {} => ", ind(lvl), p));
                render_seq_io_inline(s, lvl + 1, out);
            }
        }
    }
}
