//! builder F — `Gen.MacCmdFn<Set>`: the framing step of the five OTHER `CommandHandler` sets
//! (`UplinkMacCommand`, `DownlinkDUTCommand`, `UplinkDUTCommand`, `DownlinkRemoteSetup`, `UplinkRemoteSetup`).
//!
//! Same expansion as maccmd.rs (`expand_of`: the `quote!` templates of the derive interpolated with the `#[cmd]`
//! attributes of the set's variants), for any set.  A variable-length variant (no `len =`) gets only the lifetimed
//! struct template (no `max_len`) and the variable-length `parse_one` arm, which calls the HAND-WRITTEN
//! `Payload::len()` of certification.rs / multicast/group_status.rs — the unit lists those as ordinary `Fn` items
//! between `payloads_*` and `framing_*`, so a missing helper makes `framing_*` fail loudly (unknown method).
use crate::ir::Ty;
use crate::maccmd::{emit_fn, expand_of, impl_fn, new_tr, ResultAs};
use crate::tr::{Registry, Res};
use std::fmt::Write as _;
use syn::visit_mut::VisitMut;
use syn::*;

fn payloads_of(set: &str, files: &[File], reg: &mut Registry, out: &mut String) -> Res<()> {
    let (exp, entries) = expand_of(set, files)?;
    writeln!(out, "/-! The payload structs `#[derive(CommandHandler)]` generates for `{}` (expanded from the `quote!` templates of\nlorawan-macros/src/lib.rs with the `#[cmd(cid, len)]` attributes of the source), with `new_from_raw` / `max_len`\n(`max_len` only for the fixed-length payloads: the derive emits none for a variant without `len =`). -/", set).unwrap();
    for e in &entries {
        let it = exp.items.iter().find_map(|it| match it {
            Item::Struct(s) if s.ident == e.payload => Some(s),
            _ => None,
        }).ok_or(format!("expansion: struct {} missing", e.payload))?;
        match &it.fields {
            Fields::Unnamed(fu) if fu.unnamed.len() == 1 => {
                let fty = new_tr(reg, Some(e.payload.clone()), "").ty(&fu.unnamed[0].ty)?;
                writeln!(out, "structure {} where\n  _0 : {}\n  deriving DecidableEq, Repr\n", e.payload, fty.lean()).unwrap();
                reg.structs.insert(e.payload.clone(), vec![("0".to_string(), fty)]);
            }
            Fields::Unnamed(fu) if fu.unnamed.is_empty() => {
                writeln!(out, "structure {} where\n  deriving DecidableEq, Repr\n", e.payload).unwrap();
                reg.structs.insert(e.payload.clone(), vec![]);
            }
            _ => return Err(format!("expansion: struct {} has an unexpected shape", e.payload)),
        }
        let (sig, body) = impl_fn(&exp, &e.payload, "new_from_raw").ok_or(format!("expansion: {}::new_from_raw missing", e.payload))?;
        emit_fn(reg, out, Some(&e.payload), "new_from_raw", sig, body)?;
        match impl_fn(&exp, &e.payload, "max_len") {
            Some((sig, body)) => emit_fn(reg, out, Some(&e.payload), "max_len", sig, body)?,
            None if e.len.is_none() => {}
            None => return Err(format!("expansion: {}::max_len missing", e.payload)),
        }
    }
    Ok(())
}

fn framing_of(set: &'static str, files: &[File], reg: &mut Registry, out: &mut String) -> Res<()> {
    let (exp, _) = expand_of(set, files)?;
    writeln!(out, "/-- `Result<({}, usize), ParseError>` (what `parse_one` returns) -/\ninductive ParseOne where\n  | Ok (a0 : {}) (a1 : Int)\n  | Err (a0 : ParseError)\n  deriving DecidableEq, Repr\n", set, set).unwrap();
    writeln!(out, "/-- `Result<{}, ParseError>` (the iterator's item) -/\ninductive NextItem where\n  | Ok (a0 : {})\n  | Err (a0 : ParseError)\n  deriving DecidableEq, Repr\n", set, set).unwrap();
    reg.enums.insert("ParseOne".into(), vec![]);
    reg.enum_data.insert("ParseOne".into(), vec![("Ok".into(), vec![Ty::Named(set.into()), Ty::Int("usize")]), ("Err".into(), vec![Ty::Named("ParseError".into())])]);
    reg.enums.insert("NextItem".into(), vec![]);
    reg.enum_data.insert("NextItem".into(), vec![("Ok".into(), vec![Ty::Named(set.into())]), ("Err".into(), vec![Ty::Named("ParseError".into())])]);
    let (sig, body) = impl_fn(&exp, set, "parse_one").ok_or("expansion: parse_one missing")?;
    let mut sig = sig.clone();
    let mut body = body.clone();
    sig.output = parse_quote!(-> ParseOne);
    ResultAs { expr: Some("ParseOne"), pat: None }.visit_block_mut(&mut body);
    emit_fn(reg, out, Some(set), "parse_one", &sig, &body)?;
    // MacCommands::next (maccommands.rs) for T = the set
    let (sig, body) = files.iter().find_map(|f| impl_fn(f, "MacCommands", "next")).ok_or("MacCommands::next not found")?;
    let mut sig = sig.clone();
    let mut body = body.clone();
    sig.output = parse_quote!(-> Option<NextItem>);
    ResultAs { expr: Some("NextItem"), pat: Some("ParseOne") }.visit_block_mut(&mut body);
    struct TSet(&'static str);
    impl VisitMut for TSet {
        fn visit_path_mut(&mut self, p: &mut Path) {
            if p.segments.len() == 2 && p.segments[0].ident == "T" {
                p.segments[0].ident = Ident::new(self.0, p.segments[0].ident.span());
            }
            syn::visit_mut::visit_path_mut(self, p);
        }
    }
    TSet(set).visit_block_mut(&mut body);
    emit_fn(reg, out, Some("MacCommands"), "next", &sig, &body)?;
    Ok(())
}

macro_rules! set_fns {
    ($p:ident, $f:ident, $set:literal) => {
        pub fn $p(files: &[File], _n: &[String], reg: &mut Registry, out: &mut String) -> Res<()> {
            payloads_of($set, files, reg, out)
        }
        pub fn $f(files: &[File], _n: &[String], reg: &mut Registry, out: &mut String) -> Res<()> {
            framing_of($set, files, reg, out)
        }
    };
}
set_fns!(payloads_uplink_mac, framing_uplink_mac, "UplinkMacCommand");
set_fns!(payloads_downlink_dut, framing_downlink_dut, "DownlinkDUTCommand");
set_fns!(payloads_uplink_dut, framing_uplink_dut, "UplinkDUTCommand");
set_fns!(payloads_downlink_remote, framing_downlink_remote, "DownlinkRemoteSetup");
set_fns!(payloads_uplink_remote, framing_uplink_remote, "UplinkRemoteSetup");
