//! syn → IR for the pure integer fragment of Rust used by lora-rs.
use crate::ir::*;
use std::collections::HashMap;
use syn::*;

pub type Res<T> = std::result::Result<T, String>;

#[derive(Clone, Debug)]
pub struct FnSig {
    pub lean: String,
    pub params: Vec<(String, Ty)>,
    pub ret: Ty,
    pub fallible: bool,
    /// builder L (state passing): names of the `&mut` parameters (`self` included), in parameter
    /// order; the Lean function returns `ret × their new values` (see `ret_shape`)
    pub muts: Vec<String>,
}

#[derive(Default)]
pub struct Registry {
    /// enum name -> variants (unit-like) with optional discriminants
    pub enums: HashMap<String, Vec<(String, Option<i128>)>>,
    pub structs: HashMap<String, Vec<(String, Ty)>>,
    /// "Type::method" or "free_fn" -> signature
    pub fns: HashMap<String, FnSig>,
    /// const name -> (type, lean name)
    pub consts: HashMap<String, (Ty, String)>,
    /// type aliases the caller wants mapped (e.g. generic params)
    pub aliases: HashMap<String, Ty>,
    /// Lean names of the helper functions translated because a selected function calls them
    /// (nested fns, private module-level helpers) in the unit being emitted
    pub helpers: std::cell::RefCell<Vec<String>>,
    /// builder L: the parsed files of the unit (methods called on `self` are translated on demand)
    pub files: Option<std::rc::Rc<Vec<File>>>,
    /// builder L: methods translated on demand ("Type::method" -> signature), and those in progress
    pub dyn_fns: std::cell::RefCell<HashMap<String, FnSig>>,
    pub dyn_stack: std::cell::RefCell<Vec<String>>,
    /// builder L: enum name -> variants with tuple payloads
    pub enum_data: HashMap<String, Vec<(String, Vec<Ty>)>>,
    /// builder L: statements the unit keeps abstract: (needle in the statement's source, Lean function,
    /// expressions read, variables written)
    pub abstract_stmts: Vec<(String, String, Vec<String>, Vec<String>)>,
    /// builder O: I/O mode (PHY command encoders, phyio.rs): `Result`-returning functions become actions of
    /// `Rt.Phy.IoM`
    pub io: std::cell::RefCell<crate::phyio::IoCtx>,
    /// builder N: "Enum::Variant" -> field names of a struct-like variant (types are in `enum_data`)
    pub enum_named: HashMap<String, Vec<String>>,
    /// builder W: while the pattern of an arm of `match &mut PLACE { .. }` is translated: PLACE (root, field chain)
    pub mut_scrut: std::cell::RefCell<Option<(String, Vec<String>)>>,
    /// builder W: variables such a pattern `Enum::V(x, ..)` binds — references into PLACE in the source, copies in the
    /// model: variable -> (root, field chain, Lean constructor, all variables of the pattern).  Every translated
    /// mutation of such a variable is followed by `PLACE := Enum.V x ..`, so the place always holds what the
    /// reference points at (`ref_writeback`)
    pub ref_binds: std::cell::RefCell<HashMap<String, (String, Vec<String>, String, Vec<String>)>>,
}

pub fn int_ty(name: &str) -> Option<&'static str> {
    Some(match name {
        "u8" => "u8",
        "u16" => "u16",
        "u32" => "u32",
        "u64" => "u64",
        "usize" => "usize",
        "i8" => "i8",
        "i16" => "i16",
        "i32" => "i32",
        "i64" => "i64",
        "isize" => "isize",
        _ => return None,
    })
}

pub fn int_range(t: &str) -> (i128, i128) {
    match t {
        "u8" => (0, 255),
        "u16" => (0, 65535),
        "u32" => (0, (1i128 << 32) - 1),
        "u64" | "usize" => (0, (1i128 << 64) - 1),
        "i8" => (-128, 127),
        "i16" => (-32768, 32767),
        "i32" => (-(1i128 << 31), (1i128 << 31) - 1),
        "i64" | "isize" => (-(1i128 << 63), (1i128 << 63) - 1),
        _ => unreachable!(),
    }
}

fn widening(from: &str, to: &str) -> bool {
    let (a, b) = int_range(from);
    let (c, d) = int_range(to);
    c <= a && b <= d
}

pub struct FnTr<'a> {
    pub reg: &'a Registry,
    pub self_ty: Option<String>,
    pub ret: Ty,
    pub counter: usize,
    /// nested items to be emitted before this function: (lean text)
    pub fn_prefix: String,
    pub local_fns: HashMap<String, FnSig>,
    pub extra_defs: Vec<String>,
    /// builder L: the `&mut` parameters of the function being translated (state-passing translation)
    pub muts: Vec<String>,
    /// builder L: generic type parameters bounded by a trait the unit models as a struct (`M: Trait`)
    pub tparams: HashMap<String, Ty>,
}

// builder U: true while the value being translated is the value of the FUNCTION (the final expression of its body,
// through `match` arms / `if` branches / blocks): there `if c { return x; }` before a block's value is a branch.
// `ex` (any non-tail expression) masks it.
thread_local! { static TAIL_POS: std::cell::Cell<bool> = const { std::cell::Cell::new(false) }; }
// builder B: the expression being translated is the last (value) statement of a statement-mode block (state-passing
// method), i.e. the function's tail; cleared on every entry into `ex` (value positions)
thread_local! { static STMT_TAIL: std::cell::Cell<bool> = const { std::cell::Cell::new(false) }; }

pub(crate) type Env = HashMap<String, Ty>;
pub(crate) type Stmts = Vec<(String, Rhs)>;

fn path_str(p: &Path) -> String {
    p.segments.iter().map(|s| s.ident.to_string()).collect::<Vec<_>>().join("::")
}

pub fn lean_ident(s: &str) -> String {
    const KW: &[&str] = &["from", "at", "end", "then", "do", "fun", "in", "open", "show", "have", "with", "type", "instance", "local", "section", "variable", "Type", "mut"];
    if KW.contains(&s) {
        format!("«{}»", s)
    } else if !s.is_empty() && s.chars().all(|c| c.is_ascii_digit()) {
        // builder N: the field of a newtype (`self.0`)
        format!("_{}", s)
    } else {
        s.to_string()
    }
}

impl<'a> FnTr<'a> {
    pub fn ty(&self, t: &Type) -> Res<Ty> {
        match t {
            Type::Path(tp) => {
                let last = tp.path.segments.last().unwrap();
                let name = last.ident.to_string();
                // builder L: a qualified name (`region::Configuration`) may be aliased as a whole
                if tp.path.segments.len() >= 2 {
                    if let Some(a) = self.reg.aliases.get(&path_str(&tp.path)) {
                        return Ok(a.clone());
                    }
                }
                if let Some(i) = int_ty(&name) {
                    return Ok(Ty::Int(i));
                }
                if tp.path.segments.len() == 1 {
                    if let Some(t) = self.tparams.get(&name) {
                        if !matches!(t, Ty::Int(_)) {
                            return Ok(t.clone());
                        }
                    }
                }
                // builder L: `heapless::Vec<T, CAP>` — a list with a capacity
                if name == "Vec" {
                    if let PathArguments::AngleBracketed(ab) = &last.arguments {
                        let args: Vec<&GenericArgument> = ab.args.iter().collect();
                        if args.len() == 2 {
                            if let GenericArgument::Type(el) = args[0] {
                                let el = self.ty(el)?;
                                let cap = match args[1] {
                                    GenericArgument::Type(Type::Path(cp)) => {
                                        let cn = cp.path.segments.last().unwrap().ident.to_string();
                                        if matches!(self.tparams.get(&cn), Some(Ty::Int(_))) {
                                            cn.clone()
                                        } else {
                                            self.reg.consts.get(&cn).map(|(_, l)| l.clone()).ok_or(format!("Vec capacity {} is not a known constant", cn))?
                                        }
                                    }
                                    GenericArgument::Const(Expr::Lit(ExprLit { lit: Lit::Int(i), .. })) => i.base10_digits().to_string(),
                                    _ => return Err("unsupported Vec capacity".into()),
                                };
                                return Ok(Ty::HVec(Box::new(el), cap));
                            }
                        }
                    }
                    return Err("unsupported Vec type".into());
                }
                if name == "bool" {
                    return Ok(Ty::Bool);
                }
                // builder O: `Result<T, RadioError>` (units that use the I/O mode)
                if name == "Result" && self.reg.io.borrow().unit_io {
                    if let PathArguments::AngleBracketed(ab) = &last.arguments {
                        if let Some(GenericArgument::Type(inner)) = ab.args.first() {
                            return Ok(Ty::Res(Box::new(self.ty(inner)?)));
                        }
                    }
                    return Err("bad Result".into());
                }
                if let Some(a) = self.reg.aliases.get(&name) {
                    return Ok(a.clone());
                }
                if name == "Self" {
                    return Ok(Ty::Named(self.self_ty.clone().ok_or("Self outside impl")?));
                }
                if name == "Option" {
                    if let PathArguments::AngleBracketed(ab) = &last.arguments {
                        if let Some(GenericArgument::Type(inner)) = ab.args.first() {
                            return Ok(Ty::Opt(Box::new(self.ty(inner)?)));
                        }
                    }
                    return Err("bad Option".into());
                }
                if let Some(a) = self.reg.aliases.get(&name) {
                    return Ok(a.clone());
                }
                // builder N: `Result<T, E>` whose error value is never inspected: `Ok(x)` = `some x`,
                // `Err(_)` = `none` (a pattern that binds the error does not translate)
                if name == "Result" {
                    if let PathArguments::AngleBracketed(ab) = &last.arguments {
                        if let Some(GenericArgument::Type(inner)) = ab.args.first() {
                            return Ok(Ty::Opt(Box::new(self.ty(inner)?)));
                        }
                    }
                    return Err("bad Result".into());
                }
                if self.reg.enums.contains_key(&name) || self.reg.structs.contains_key(&name) {
                    return Ok(Ty::Named(name));
                }
                // builder N: a `type NAME = T;` of the unit's files
                if tp.path.segments.len() == 1 {
                    if let Some(files) = self.reg.files.clone() {
                        for f in files.iter() {
                            for it in &f.items {
                                if let Item::Type(ta) = it {
                                    if ta.ident == name && ta.generics.params.is_empty() {
                                        return self.ty(&ta.ty);
                                    }
                                }
                            }
                        }
                    }
                }
                Err(format!("unknown type {}", name))
            }
            Type::Reference(r) => self.ty(&r.elem),
            // builder V: `impl RngCore` in argument position is the unit's abstract generator type `RNG`
            Type::ImplTrait(it) if self.reg.structs.contains_key("RNG") && it.bounds.iter().any(|b| matches!(b, TypeParamBound::Trait(tb) if tb.path.segments.last().map(|s| s.ident == "RngCore").unwrap_or(false))) => Ok(Ty::Named("RNG".into())),
            // builder A: `dyn Trait` is the record of that name the unit declares (`ExternStructRaw`)
            Type::TraitObject(to) => {
                for b in &to.bounds {
                    if let TypeParamBound::Trait(tb) = b {
                        let name = tb.path.segments.last().map(|s| s.ident.to_string()).unwrap_or_default();
                        if self.reg.structs.contains_key(&name) {
                            return Ok(Ty::Named(name));
                        }
                    }
                }
                Err(format!("unsupported trait object {}", quote::quote!(#t)))
            }
            Type::Paren(p) => self.ty(&p.elem),
            Type::Tuple(t) => {
                if t.elems.is_empty() {
                    Ok(Ty::Unit)
                } else {
                    Ok(Ty::Tuple(t.elems.iter().map(|e| self.ty(e)).collect::<Res<Vec<_>>>()?))
                }
            }
            Type::Array(a) => Ok(Ty::Arr(Box::new(self.ty(&a.elem)?))),
            Type::Slice(a) => Ok(Ty::Arr(Box::new(self.ty(&a.elem)?))),
            _ => Err(format!("unsupported type {}", quote::quote!(#t))),
        }
    }

    pub(crate) fn fresh(&mut self) -> String {
        self.counter += 1;
        format!("t{}", self.counter)
    }

    pub(crate) fn act(&mut self, st: &mut Stmts, term: String) -> String {
        let n = self.fresh();
        // builder O: in I/O mode a checked primitive is lifted into the I/O monad
        let term = if self.reg.io.borrow().mode && !self.reg.io.borrow().in_pure { format!("Rt.Phy.ofOpt ({})", term) } else { term };
        st.push((n.clone(), Rhs::Act(term)));
        n
    }

    /// Translate a block in tail position (its value is the function's result).
    pub fn block_tail(&mut self, stmts: &[Stmt], env: &mut Env) -> Res<Seq> {
        let mut st: Stmts = vec![];
        for (i, s) in stmts.iter().enumerate() {
            let last = i + 1 == stmts.len();
            // builder L: statements of features the harness does not build with are not there
            if stmt_cfg_disabled(s) {
                continue;
            }
            // builder L: a statement the unit declares abstract (an iterator pipeline, …): an uninterpreted
            // function of what it reads, assigned to what it writes
            if !self.reg.abstract_stmts.is_empty() && !matches!(s, Stmt::Expr(Expr::If(_), _) | Stmt::Expr(Expr::Match(_), _) | Stmt::Expr(Expr::Block(_), _)) {
                let text: String = quote::quote!(#s).to_string().chars().filter(|c| !c.is_whitespace()).collect();
                if let Some((_, lean, reads, writes)) = self.reg.abstract_stmts.iter().find(|(n, _, _, _)| text.contains(n.as_str())).cloned() {
                    let mut args = vec![];
                    for r in &reads {
                        let e: Expr = syn::parse_str(r).map_err(|e| format!("abstract statement: {}", e))?;
                        let (t, _) = self.ex(&e, env, &mut st, None)?;
                        args.push(paren(&t));
                    }
                    for w in &writes {
                        if !env.contains_key(w) {
                            return Err(format!("abstract statement writes unknown variable {}", w));
                        }
                    }
                    st.push((tuple_of(&writes), Rhs::Pure(format!("{} {}", lean, args.join(" ")))));
                    continue;
                }
            }
            match s {
                Stmt::Local(l) => {
                    let init = l.init.as_ref().ok_or("let without init")?;
                    // builder R: `let _ = x.set_a(..).set_b(..);` — a builder chain whose result is dropped
                    if let (Pat::Wild(_), Expr::MethodCall(mc), true, true) = (&l.pat, &*init.expr, init.diverge.is_none(), !self.muts.is_empty()) {
                        if self.builder_chain(mc, env, &mut st)? {
                            continue;
                        }
                    }
                    // `let PAT = e?;` on an Option in an Option-returning function is
                    // `let Some(PAT) = e else { return None; };`
                    if init.diverge.is_none() && !self.reg.io.borrow().mode {
                        if let Expr::Try(t) = &*init.expr {
                            let inner = &t.expr;
                            let pat = match &l.pat {
                                Pat::Type(pt) => &*pt.pat,
                                p => p,
                            };
                            // builder W: `let PAT = match e { P1 => Ok(v), P2 => Err(x), P3 => r }?;` — the `?` is distributed
                            // over the arms and the rest of the block continued in each (`Ok(v)`: `let PAT = v; rest`,
                            // `Err(x)`: leave with the error, otherwise `let PAT = r?; rest`), so that what an arm
                            // mutates reaches the rest
                            if let (Expr::Match(m), false) = (&**inner, self.muts.is_empty()) {
                                let rest = &stmts[i + 1..];
                                let mut m2 = m.clone();
                                for arm in m2.arms.iter_mut() {
                                    let body = &arm.body;
                                    let ctor = match &**body {
                                        Expr::Call(c) if c.args.len() == 1 => match &*c.func {
                                            Expr::Path(p) if p.path.is_ident("Ok") || p.path.is_ident("Some") => Some(true),
                                            Expr::Path(p) if p.path.is_ident("Err") => Some(false),
                                            _ => None,
                                        },
                                        Expr::Path(p) if p.path.is_ident("None") => Some(false),
                                        _ => None,
                                    };
                                    let nb: Expr = match (ctor, &**body) {
                                        (Some(true), Expr::Call(c)) => {
                                            let v = &c.args[0];
                                            parse_quote!({ let #pat = #v; #(#rest)* })
                                        }
                                        (Some(false), _) => parse_quote!({ return None; }),
                                        _ => parse_quote!({ let #pat = (#body)?; #(#rest)* }),
                                    };
                                    arm.body = Box::new(nb);
                                }
                                let stmt = Stmt::Expr(Expr::Match(m2), Some(Default::default()));
                                let seq = self.block_tail(&[stmt], env)?;
                                st.extend(seq.stmts);
                                return Ok(Seq { stmts: st, tail: seq.tail });
                            }
                            // builder W: an initialiser that ends in `}` (`match … { … }?`) needs parentheses in a let-else
                            let desugared: Stmt = if matches!(&**inner, Expr::Match(_) | Expr::If(_) | Expr::Block(_)) {
                                parse_quote! { let Some(#pat) = (#inner) else { return None; }; }
                            } else {
                                parse_quote! { let Some(#pat) = #inner else { return None; }; }
                            };
                            let mut rest: Vec<Stmt> = vec![desugared];
                            rest.extend(stmts[i + 1..].iter().cloned());
                            let seq = self.block_tail(&rest, env)?;
                            st.extend(seq.stmts);
                            return Ok(Seq { stmts: st, tail: seq.tail });
                        }
                    }
                    // builder N: `let PAT = match e { P1 => v, P2 => return r, .. };` — the arms that yield a value
                    // are continued by the rest of the block, the others leave the function
                    if init.diverge.is_none() && !self.muts.is_empty() {
                        if let Expr::Match(m) = &*init.expr {
                            if contains_return(&init.expr) {
                                let pat = &l.pat;
                                let rest = &stmts[i + 1..];
                                let mut m2 = m.clone();
                                for arm in m2.arms.iter_mut() {
                                    let leaves = matches!(&*arm.body, Expr::Return(_)) || matches!(&*arm.body, Expr::Block(b) if block_returns(&b.block));
                                    if !leaves {
                                        if contains_return(&arm.body) {
                                            return Err("let = match: an arm both yields a value and returns".into());
                                        }
                                        let body = &arm.body;
                                        let nb: Expr = parse_quote!({ let #pat = #body; #(#rest)* });
                                        arm.body = Box::new(nb);
                                    }
                                }
                                let stmt = Stmt::Expr(Expr::Match(m2), Some(Default::default()));
                                let seq = self.block_tail(&[stmt], env)?;
                                st.extend(seq.stmts);
                                return Ok(Seq { stmts: st, tail: seq.tail });
                            }
                        }
                    }
                    if let Some((_, else_blk)) = &init.diverge {
                        // let PAT = e else { diverge };
                        let (sc, sty) = self.ex(&init.expr, env, &mut st, None)?;
                        let mut env_else = env.clone();
                        let else_seq = match &**else_blk {
                            Expr::Block(b) => self.block_tail(&b.block.stmts, &mut env_else)?,
                            _ => return Err("let-else: else is not a block".into()),
                        };
                        let mut env_ok = env.clone();
                        let pat = self.pat(&l.pat, &sty, &mut env_ok)?;
                        let rest = self.block_tail(&stmts[i + 1..], &mut env_ok)?;
                        let other = match &sty {
                            Ty::Opt(_) => "none".to_string(),
                            _ => "_".to_string(),
                        };
                        return Ok(Seq { stmts: st, tail: Tail::Match(sc, vec![(pat, rest), (other, else_seq)]) });
                    }
                    let expect = match &l.pat {
                        Pat::Type(pt) => Some(self.ty(&pt.ty)?),
                        _ => None,
                    };
                    // builder O: `let [a, b] = <array>;` — the elements by checked index
                    if let Pat::Slice(ps) = &l.pat {
                        let (term, ty) = self.ex(&init.expr, env, &mut st, None)?;
                        let el = match ty {
                            Ty::Arr(el) => *el,
                            _ => return Err("slice pattern on a non-array".into()),
                        };
                        let tmp = self.fresh();
                        st.push((tmp.clone(), Rhs::Pure(term)));
                        for (k, p) in ps.elems.iter().enumerate() {
                            match p {
                                Pat::Ident(i) => {
                                    let v = self.act(&mut st, format!("Rt.idx {} {}", tmp, k));
                                    env.insert(i.ident.to_string(), el.clone());
                                    st.push((lean_ident(&i.ident.to_string()), Rhs::Pure(v)));
                                }
                                Pat::Wild(_) => {}
                                _ => return Err("unsupported slice pattern element".into()),
                            }
                        }
                        continue;
                    }
                    // builder R: `let mut flag = 1 << (channel & 7);` — an integer expression whose type only its
                    // literals leave open is typed by the first later statement that combines the variable with a
                    // typed place (`self.0[index] |= flag`), as rustc's inference does
                    let expect = match (&expect, &l.pat) {
                        (None, Pat::Ident(pi)) if open_int_expr(&init.expr) => self.infer_from_uses(&pi.ident.to_string(), &stmts[i + 1..], env),
                        _ => expect,
                    };
                    // builder V: `let PAT = if .. / match ..;` whose branches change `&mut` state (a call on `self`, a
                    // draw from `rng`): every branch yields its value TOGETHER with the state it leaves (phi on the
                    // `&mut` parameters), as the statement-level `if` / `match` do.  Only in units with an abstract generator (`RNG`):
                    // the units generated before keep their text (none of them changes state inside such a branch).
                    if !self.muts.is_empty() && self.reg.structs.contains_key("RNG") && init.diverge.is_none() && matches!(&*init.expr, Expr::If(_) | Expr::Match(_)) && !contains_return(&init.expr) {
                        let mut vars = assigned_roots(&init.expr, &self.muts);
                        vars.retain(|v| env.contains_key(v) && self.muts.contains(v));
                        vars.sort();
                        vars.dedup();
                        if !vars.is_empty() {
                            let mut env_v = env.clone();
                            let mut pre: Stmts = vec![];
                            let (tail, ty) = self.tail_expr_ty_value(&init.expr, &mut env_v, &mut pre, expect.clone())?;
                            let mut seq = Seq { stmts: pre, tail };
                            let vs = vars.clone();
                            wrap_exits(&mut seq, &mut self.counter, &|v: &str| exit_term(v, false, &vs));
                            let p = match &l.pat {
                                Pat::Type(pt) => &*pt.pat,
                                p => p,
                            };
                            let name = self.pat(p, &ty, env)?;
                            st.extend(seq.stmts);
                            st.push((exit_term(&name, false, &vars), Rhs::Br(Box::new(seq.tail))));
                            continue;
                        }
                    }
                    let (term, ty) = self.ex(&init.expr, env, &mut st, expect.clone())?;
                    // builder D2: an untyped literal bound by a `let` is an `Int` (Lean would elaborate a bare `1` as a
                    // `Nat`, which does not type-check once the variable is carried through a loop); only in units
                    // with a generator, so that the earlier units keep their text
                    let term = if ty == Ty::IntLit && self.reg.structs.contains_key("RNG") && term.chars().all(|c| c.is_ascii_digit()) {
                        format!("({} : Int)", term)
                    } else {
                        term
                    };
                    let ty = match (&ty, &expect) {
                        (Ty::IntLit, Some(e)) => e.clone(),
                        (Ty::IntLit, None) => Ty::Int("i32"),
                        _ => ty,
                    };
                    let p = match &l.pat {
                        Pat::Type(pt) => &*pt.pat,
                        p => p,
                    };
                    let name = self.pat(p, &ty, env)?;
                    st.push((name, Rhs::Pure(term)));
                }
                Stmt::Item(Item::Fn(f)) => {
                    self.nested_fn(f)?;
                }
                Stmt::Item(Item::Const(c)) => {
                    let ty = self.ty(&c.ty)?;
                    let (term, _) = self.ex(&c.expr, env, &mut st, Some(ty.clone()))?;
                    let name = lean_ident(&c.ident.to_string());
                    env.insert(c.ident.to_string(), ty);
                    st.push((name, Rhs::Pure(term)));
                }
                Stmt::Item(Item::Use(_)) => {}
                Stmt::Item(_) => return Err("unsupported nested item".into()),
                Stmt::Macro(m) => {
                    let name = path_str(&m.mac.path);
                    if ["trace", "debug", "info", "warn", "error", "debug_assert", "debug_assert_eq"].contains(&name.as_str()) {
                        continue;
                    }
                    if ["unreachable", "panic", "unimplemented", "todo"].contains(&name.as_str()) {
                        return Ok(Seq { stmts: st, tail: Tail::Panic });
                    }
                    return Err(format!("unsupported macro statement {}", name));
                }
                Stmt::Expr(e, semi) => {
                    // builder V: `loop { .. return v; .. }` as the value of the block
                    if let (Expr::Loop(l), true, true) = (e, last, !self.muts.is_empty()) {
                        let tail = self.loop_fuel_loop(l, &stmts[..i], env, &mut st)?;
                        return Ok(Seq { stmts: st, tail });
                    }
                    if last && semi.is_none() && !(self.ret == Ty::Unit && !self.muts.is_empty()) {
                        let prev = TAIL_POS.with(|t| t.replace(self.muts.is_empty() && !self.reg.io.borrow().mode));
                        let prev2 = STMT_TAIL.with(|t| t.replace(!self.muts.is_empty() && !self.reg.io.borrow().mode));
                        let tail = self.tail_expr(e, env, &mut st);
                        TAIL_POS.with(|t| t.set(prev));
                        STMT_TAIL.with(|t| t.set(prev2));
                        let tail = tail?;
                        return Ok(Seq { stmts: st, tail });
                    }
                    match e {
                        // builder O (I/O mode): `action?;` / `action.await?;` as a statement
                        Expr::Try(_) if self.reg.io.borrow().mode => {
                            let _ = self.ex(e, env, &mut st, None)?;
                        }
                        // builder O (I/O mode): statement-level `if` / `match` whose branches perform I/O, assign
                        // outer variables or leave with `return Err(..)` (= throw: valid in any position)
                        Expr::If(_) | Expr::Match(_) if self.reg.io.borrow().mode && !crate::phyio::returns_ok(e) => {
                            crate::phyio::stmt_branch(self, e, env, &mut st)?;
                        }
                        // builder U: `e?;` on a `Result<(), E>` whose error value is never inspected (`Err` = `none`)
                        Expr::Try(t) if self.muts.is_empty() => {
                            let inner = &t.expr;
                            let desugared: Stmt = parse_quote! { let Some(_) = #inner else { return None; }; };
                            let mut rest: Vec<Stmt> = vec![desugared];
                            rest.extend(stmts[i + 1..].iter().cloned());
                            let seq = self.block_tail(&rest, env)?;
                            st.extend(seq.stmts);
                            return Ok(Seq { stmts: st, tail: seq.tail });
                        }
                        // builder U: `dst[a..b].copy_from_slice(src);` on a local array (a panic unless the range is
                        // valid and the lengths agree)
                        Expr::MethodCall(mc) if mc.method == "copy_from_slice" && mc.args.len() == 1 && matches!(&*mc.receiver, Expr::Index(ix) if matches!(&*ix.index, Expr::Range(_)) && matches!(&*ix.expr, Expr::Path(_))) => {
                            let Expr::Index(ix) = &*mc.receiver else { unreachable!() };
                            let Expr::Range(r) = &*ix.index else { unreachable!() };
                            let Expr::Path(dp) = &*ix.expr else { unreachable!() };
                            let dname = path_str(&dp.path);
                            let (d, td) = self.ex(&ix.expr, env, &mut st, None)?;
                            if !matches!(td, Ty::Arr(_)) || !matches!(r.limits, RangeLimits::HalfOpen(_)) {
                                return Err("copy_from_slice: unsupported destination".into());
                            }
                            let a = match &r.start {
                                Some(e) => self.ex(e, env, &mut st, Some(Ty::Int("usize")))?.0,
                                None => "0".to_string(),
                            };
                            let b = match &r.end {
                                Some(e) => self.ex(e, env, &mut st, Some(Ty::Int("usize")))?.0,
                                None => format!("(Int.ofNat {}.length)", paren(&d)),
                            };
                            let (src, _) = self.ex(&mc.args[0], env, &mut st, Some(td.clone()))?;
                            st.push((lean_ident(&dname), Rhs::Act(format!("Rt.copyFromSlice {} {} {} {}", paren(&d), paren(&a), paren(&b), paren(&src)))));
                        }
                        // builder B: `place.field[a..b].copy_from_slice(src);` on an array field reached through a
                        // place (`self.packet[..]`): same `Rt.copyFromSlice`, the result written back into the place
                        Expr::MethodCall(mc) if mc.method == "copy_from_slice" && mc.args.len() == 1 && matches!(&*mc.receiver, Expr::Index(ix) if matches!(&*ix.index, Expr::Range(_)) && matches!(&*ix.expr, Expr::Field(_))) => {
                            let Expr::Index(ix) = &*mc.receiver else { unreachable!() };
                            let Expr::Range(r) = &*ix.index else { unreachable!() };
                            let (root, fields, td) = self.place(&ix.expr, env)?;
                            if !matches!(td, Ty::Arr(_)) || !matches!(r.limits, RangeLimits::HalfOpen(_)) {
                                return Err("copy_from_slice: unsupported destination".into());
                            }
                            let (d, _) = self.ex(&ix.expr, env, &mut st, None)?;
                            let a = match &r.start {
                                Some(e) => self.ex(e, env, &mut st, Some(Ty::Int("usize")))?.0,
                                None => "0".to_string(),
                            };
                            let b = match &r.end {
                                Some(e) => self.ex(e, env, &mut st, Some(Ty::Int("usize")))?.0,
                                None => format!("(Int.ofNat {}.length)", paren(&d)),
                            };
                            let (src, _) = self.ex(&mc.args[0], env, &mut st, Some(td.clone()))?;
                            let t = self.act(&mut st, format!("Rt.copyFromSlice {} {} {} {}", paren(&d), paren(&a), paren(&b), paren(&src)));
                            st.push((lean_ident(&root), Rhs::Pure(update_term(&lean_ident(&root), &fields, &t))));
                            self.ref_writeback(&root, &mut st);
                        }
                        Expr::Return(r) => {
                            let e = match r.expr.as_ref() {
                                Some(e) => e,
                                None if self.ret == Ty::Unit => return Ok(Seq { stmts: st, tail: Tail::Val("()".into()) }),
                                None => return Err("return without value".into()),
                            };
                            let tail = self.tail_expr(e, env, &mut st)?;
                            return Ok(Seq { stmts: st, tail });
                        }
                        // builder R: `()` as a statement (the body of a `_ => ()` arm)
                        Expr::Tuple(t) if t.elems.is_empty() => {}
                        // builder R: `while let Some(x) = it.next() { body }` over an iterator the unit models as the
                        // list of the items it yields (`continue`, `it.peek()` allowed in the body)
                        // builder V: `while cond { body }` that redraws from a generator: a loop on a fuel (`Rt.loopM`)
                        Expr::While(w) if !self.muts.is_empty() && !matches!(&*w.cond, Expr::Let(_)) => {
                            self.while_fuel_loop(w, &stmts[..i], env, &mut st)?;
                        }
                        // builder V: `loop { .. return v; .. }` as the last statement: a loop on a fuel (`Rt.loopM`)
                        Expr::Loop(l) if !self.muts.is_empty() && last => {
                            let tail = self.loop_fuel_loop(l, &stmts[..i], env, &mut st)?;
                            return Ok(Seq { stmts: st, tail });
                        }
                        Expr::While(w) if !self.muts.is_empty() => {
                            self.while_let_loop(w, &stmts[..i], env, &mut st)?;
                        }
                        // builder R: `for i in a..b { body }` over an integer range
                        Expr::ForLoop(f) if !self.muts.is_empty() => {
                            self.for_range_loop(f, &stmts[..i], env, &mut st)?;
                        }
                        // builder R: a builder chain `x.set_a(..).set_b(..);` of `&mut self -> &mut Self` setters
                        Expr::MethodCall(mc) if !self.muts.is_empty() && self.builder_chain(mc, env, &mut st)? => {}
                        // builder L: a statement-level `if` / `match` / block one of whose branches leaves the
                        // function: the rest of the block continues each branch (continuation duplicated)
                        Expr::If(ei) if !self.muts.is_empty() && contains_return(e) => {
                            let rest = &stmts[i + 1..];
                            let then_stmts = splice(&ei.then_branch.stmts, rest, env)?;
                            let else_stmts = match &ei.else_branch {
                                None => rest.to_vec(),
                                Some((_, eb)) => match &**eb {
                                    Expr::Block(b) => splice(&b.block.stmts, rest, env)?,
                                    other => splice(&[Stmt::Expr(other.clone(), Some(Default::default()))], rest, env)?,
                                },
                            };
                            let mut env_e = env.clone();
                            let else_seq = self.block_tail(&else_stmts, &mut env_e)?;
                            let tail = self.if_chain(&ei.cond, env, &mut |this: &mut Self, env_t: &mut Env| this.block_tail(&then_stmts, env_t), else_seq, &mut st)?;
                            return Ok(Seq { stmts: st, tail });
                        }
                        Expr::Match(m) if !self.muts.is_empty() && contains_return(e) => {
                            let rest = &stmts[i + 1..];
                            let (sc, sty) = self.ex(&m.expr, env, &mut st, None)?;
                            // builder T: integer scrutinee (literal / range / or-patterns, a final `_` or binding): an
                            // if-chain over the arms in order, the rest of the block continued in each arm
                            if matches!(sty, Ty::Int(_) | Ty::IntLit) && !m.arms.iter().any(|a| a.guard.is_some()) {
                                let sc_name = if sc.chars().all(|c| c.is_alphanumeric() || c == '_') {
                                    sc.clone()
                                } else {
                                    let n = self.fresh();
                                    st.push((n.clone(), Rhs::Pure(sc.clone())));
                                    n
                                };
                                let mut arms: Vec<(Option<String>, Seq)> = vec![];
                                for arm in &m.arms {
                                    let mut env_a = env.clone();
                                    let c = self.int_pat_cond(&arm.pat, &sc_name, &mut env_a, &sty)?;
                                    let mut body: Vec<Stmt> = match &*arm.body {
                                        Expr::Block(b) => b.block.stmts.clone(),
                                        other => vec![Stmt::Expr(other.clone(), Some(Default::default()))],
                                    };
                                    if let Some(Stmt::Expr(last, semi @ None)) = body.last_mut() {
                                        // a unit-valued tail expression of an arm (`6 => self.f(..)`) is a statement
                                        if !matches!(last, Expr::Return(_)) {
                                            *semi = Some(Default::default());
                                        }
                                    }
                                    let all = splice(&body, rest, env)?;
                                    let mut seq = self.block_tail(&all, &mut env_a)?;
                                    if let Pat::Ident(pi) = &arm.pat {
                                        seq.stmts.insert(0, (lean_ident(&pi.ident.to_string()), Rhs::Pure(sc_name.clone())));
                                    }
                                    arms.push((c, seq));
                                }
                                let mut acc: Option<Seq> = None;
                                for (c, s) in arms.into_iter().rev() {
                                    acc = Some(match (c, acc) {
                                        (None, _) => s,
                                        (Some(c), Some(rest)) => Seq { stmts: vec![], tail: Tail::If(format!("decide ({})", c), Box::new(s), Box::new(rest)) },
                                        (Some(c), None) => Seq {
                                            stmts: vec![],
                                            tail: Tail::If(format!("decide ({})", c), Box::new(s), Box::new(Seq { stmts: vec![], tail: Tail::Panic })),
                                        },
                                    });
                                }
                                let seq = acc.ok_or("empty match")?;
                                st.extend(seq.stmts);
                                return Ok(Seq { stmts: st, tail: seq.tail });
                            }
                            if matches!(sty, Ty::Int(_) | Ty::IntLit) || m.arms.iter().any(|a| a.guard.is_some()) {
                                return Err("statement-level match with `return`: integer scrutinee with guards / guards not supported".into());
                            }
                            let mut arms = vec![];
                            for arm in &m.arms {
                                let mut env_a = env.clone();
                                let p = self.pat_scrut(&m.expr, &arm.pat, &sty, &mut env_a)?;
                                let body: Vec<Stmt> = match &*arm.body {
                                    Expr::Block(b) => b.block.stmts.clone(),
                                    other => vec![Stmt::Expr(other.clone(), Some(Default::default()))],
                                };
                                let all = splice(&body, rest, env)?;
                                arms.push((p, self.block_tail(&all, &mut env_a)?));
                            }
                            return Ok(Seq { stmts: st, tail: Tail::Match(sc, arms) });
                        }
                        Expr::Block(b) if !self.muts.is_empty() => {
                            let all = splice(&b.block.stmts, &stmts[i + 1..], env)?;
                            let seq = self.block_tail(&all, env)?;
                            st.extend(seq.stmts);
                            return Ok(Seq { stmts: st, tail: seq.tail });
                        }
                        Expr::If(ei) if ei.else_branch.is_none() && block_returns(&ei.then_branch) => {
                            let (c, _) = self.cond(&ei.cond, env, &mut st)?;
                            let mut env_t = env.clone();
                            let then_seq = self.block_tail(&ei.then_branch.stmts, &mut env_t)?;
                            let rest = self.block_tail(&stmts[i + 1..], env)?;
                            return Ok(Seq { stmts: st, tail: Tail::If(c, Box::new(then_seq), Box::new(rest)) });
                        }
                        // builder N: assignment through an index, `place[i] = v` (out of bounds: a panic)
                        Expr::Assign(a) if matches!(&*a.left, Expr::Index(_)) => {
                            let ix = match &*a.left {
                                Expr::Index(ix) => ix,
                                _ => unreachable!(),
                            };
                            let (root, fields, pty) = self.place(&ix.expr, env)?;
                            let el = match &pty {
                                Ty::Arr(el) => (**el).clone(),
                                _ => return Err("index assignment on a non-array".into()),
                            };
                            let (base, _) = self.ex(&ix.expr, env, &mut st, None)?;
                            let (i, _) = self.ex(&ix.index, env, &mut st, Some(Ty::Int("usize")))?;
                            let (v, _) = self.ex(&a.right, env, &mut st, Some(el))?;
                            let t = self.act(&mut st, format!("Rt.setIdx {} {} {}", paren(&base), paren(&i), paren(&v)));
                            st.push((lean_ident(&root), Rhs::Pure(update_term(&lean_ident(&root), &fields, &t))));
                        }
                        // builder R: op-assignment through an index, `place[i] |= v` (out of bounds: a panic)
                        Expr::Binary(b) if is_assign_op(&b.op) && matches!(&*b.left, Expr::Index(_)) => {
                            let ix = match &*b.left {
                                Expr::Index(ix) => ix,
                                _ => unreachable!(),
                            };
                            let (root, fields, pty) = self.place(&ix.expr, env)?;
                            let el = match &pty {
                                Ty::Arr(el) => (**el).clone(),
                                _ => return Err("index op-assignment on a non-array".into()),
                            };
                            let (v, _) = self.binop(&b.left, &assign_to_bin(&b.op), &b.right, env, &mut st, Some(el))?;
                            let (base, _) = self.ex(&ix.expr, env, &mut st, None)?;
                            let (i, _) = self.ex(&ix.index, env, &mut st, Some(Ty::Int("usize")))?;
                            let t = self.act(&mut st, format!("Rt.setIdx {} {} {}", paren(&base), paren(&i), paren(&v)));
                            st.push((lean_ident(&root), Rhs::Pure(update_term(&lean_ident(&root), &fields, &t))));
                        }
                        // builder L: assignment to a field (chain) of a variable / through a `&mut` parameter
                        Expr::Assign(a) if !matches!(&*a.left, Expr::Path(_)) => {
                            let (root, fields, pty) = self.place(&a.left, env)?;
                            let (term, _) = self.ex(&a.right, env, &mut st, Some(pty))?;
                            st.push((lean_ident(&root), Rhs::Pure(update_term(&lean_ident(&root), &fields, &term))));
                            self.ref_writeback(&root, &mut st);
                        }
                        Expr::Binary(b) if is_assign_op(&b.op) && !matches!(&*b.left, Expr::Path(_)) => {
                            let (root, fields, pty) = self.place(&b.left, env)?;
                            let (term, _) = self.binop(&b.left, &assign_to_bin(&b.op), &b.right, env, &mut st, Some(pty))?;
                            st.push((lean_ident(&root), Rhs::Pure(update_term(&lean_ident(&root), &fields, &term))));
                            self.ref_writeback(&root, &mut st);
                        }
                        // builder L: a call for its effect on `&mut` arguments
                        Expr::MethodCall(_) | Expr::Call(_) if !self.muts.is_empty() => {
                            let _ = self.ex(e, env, &mut st, None)?;
                        }
                        Expr::Match(m) if !self.muts.is_empty() => {
                            let mut vars = assigned_roots(e, &self.muts);
                            vars.retain(|v| env.contains_key(v));
                            vars.sort();
                            vars.dedup();
                            if vars.is_empty() {
                                return Err("statement-level match without assignments/return".into());
                            }
                            let tuple = tuple_of(&vars);
                            let (sc, sty) = self.ex(&m.expr, env, &mut st, None)?;
                            if matches!(sty, Ty::Int(_) | Ty::IntLit) || m.arms.iter().any(|a| a.guard.is_some()) {
                                return Err("statement-level match: integer scrutinee / guards not supported".into());
                            }
                            let mut arms = vec![];
                            for arm in &m.arms {
                                let mut env_a = env.clone();
                                let p = self.pat_scrut(&m.expr, &arm.pat, &sty, &mut env_a)?;
                                let body: Vec<Stmt> = match &*arm.body {
                                    Expr::Block(b) => b.block.stmts.clone(),
                                    other => vec![Stmt::Expr(other.clone(), Some(Default::default()))],
                                };
                                arms.push((p, self.phi_branch(&body, &mut env_a, &tuple)?));
                            }
                            st.push((tuple, Rhs::Br(Box::new(Tail::Match(sc, arms)))));
                        }
                        Expr::Assign(a) => {
                            let name = match &*a.left {
                                Expr::Path(p) if p.path.segments.len() == 1 => p.path.segments[0].ident.to_string(),
                                _ => return Err("assignment to non-variable".into()),
                            };
                            let ty = env.get(&name).cloned().ok_or(format!("assign to unknown {}", name))?;
                            let (term, _) = self.ex(&a.right, env, &mut st, Some(ty))?;
                            st.push((lean_ident(&name), Rhs::Pure(term)));
                        }
                        Expr::Binary(b) if is_assign_op(&b.op) => {
                            let name = match &*b.left {
                                Expr::Path(p) if p.path.segments.len() == 1 => p.path.segments[0].ident.to_string(),
                                _ => return Err("op-assignment to non-variable".into()),
                            };
                            let (term, _) = self.binop(&b.left, &assign_to_bin(&b.op), &b.right, env, &mut st, None)?;
                            st.push((lean_ident(&name), Rhs::Pure(term)));
                        }
                        Expr::If(ei) => {
                            // statement-level `if` that assigns to outer variables: phi on assigned vars
                            let mut vars = vec![];
                            if self.muts.is_empty() && !has_let(&ei.cond) {
                                assigned_vars_if(ei, &mut vars);
                            } else {
                                vars = assigned_roots(e, &self.muts);
                                let mut cs = vec![];
                                flatten_and(&ei.cond, &mut cs);
                                for c in cs {
                                    if let Expr::Let(l) = c {
                                        if let Expr::MethodCall(mc) = &*l.expr {
                                            if let Some(r) = place_root(&mc.receiver) {
                                                if self.muts.contains(&r) {
                                                    vars.push(r);
                                                }
                                            }
                                        }
                                    }
                                }
                            }
                            vars.retain(|v| env.contains_key(v));
                            vars.sort();
                            vars.dedup();
                            if vars.is_empty() {
                                return Err("statement-level if without assignments/return".into());
                            }
                            let tail = self.phi_if(ei, env, &mut st, &vars)?;
                            let pat = if vars.len() == 1 {
                                lean_ident(&vars[0])
                            } else {
                                format!("({})", vars.iter().map(|v| lean_ident(v)).collect::<Vec<_>>().join(", "))
                            };
                            st.push((pat, Rhs::Br(Box::new(tail))));
                        }
                        Expr::Macro(m) => {
                            let name = path_str(&m.mac.path);
                            if ["trace", "debug", "info", "warn", "error", "debug_assert"].contains(&name.as_str()) {
                                continue;
                            }
                            if ["unreachable", "panic", "unimplemented", "todo"].contains(&name.as_str()) {
                                return Ok(Seq { stmts: st, tail: Tail::Panic });
                            }
                            return Err(format!("unsupported macro {}", name));
                        }
                        _ => return Err(format!("unsupported statement: {}", quote::quote!(#e))),
                    }
                }
            }
        }
        Ok(Seq { stmts: st, tail: Tail::Val("()".into()) })
    }

    pub(crate) fn phi_if(&mut self, ei: &ExprIf, env: &mut Env, st: &mut Stmts, vars: &[String]) -> Res<Tail> {
        if !self.muts.is_empty() || has_let(&ei.cond) {
            // builder L: `if let` / let chains, branches in statement mode
            let tuple = tuple_of(vars);
            let else_seq = match &ei.else_branch {
                None => Seq { stmts: vec![], tail: Tail::Val(tuple.clone()) },
                Some((_, e)) => match &**e {
                    Expr::Block(b) => {
                        let mut env_e = env.clone();
                        self.phi_branch(&b.block.stmts, &mut env_e, &tuple)?
                    }
                    Expr::If(inner) => {
                        let mut st2 = vec![];
                        let t = self.phi_if(inner, env, &mut st2, vars)?;
                        Seq { stmts: st2, tail: t }
                    }
                    _ => return Err("bad else".into()),
                },
            };
            let then_stmts = &ei.then_branch.stmts;
            return self.if_chain(&ei.cond, env, &mut |this: &mut Self, env_t: &mut Env| this.phi_branch(then_stmts, env_t, &tuple), else_seq, st);
        }
        let (c, _) = self.cond(&ei.cond, env, st)?;
        let tuple = if vars.len() == 1 {
            lean_ident(&vars[0])
        } else {
            format!("({})", vars.iter().map(|v| lean_ident(v)).collect::<Vec<_>>().join(", "))
        };
        let mut env_t = env.clone();
        let mut then_seq = self.block_tail(&ei.then_branch.stmts, &mut env_t)?;
        then_seq.tail = Tail::Val(tuple.clone());
        let else_seq = match &ei.else_branch {
            None => Seq { stmts: vec![], tail: Tail::Val(tuple.clone()) },
            Some((_, e)) => match &**e {
                Expr::Block(b) => {
                    let mut env_e = env.clone();
                    let mut s = self.block_tail(&b.block.stmts, &mut env_e)?;
                    s.tail = Tail::Val(tuple.clone());
                    s
                }
                Expr::If(inner) => {
                    let mut st2 = vec![];
                    let t = self.phi_if(inner, env, &mut st2, vars)?;
                    Seq { stmts: st2, tail: t }
                }
                _ => return Err("bad else".into()),
            },
        };
        Ok(Tail::If(c, Box::new(then_seq), Box::new(else_seq)))
    }

    /// builder L: a branch of a statement-level `if`/`match` (no `return` inside): its lets, ending in the
    /// tuple of the variables the statement may assign
    pub(crate) fn phi_branch(&mut self, stmts: &[Stmt], env: &mut Env, tuple: &str) -> Res<Seq> {
        let saved = std::mem::replace(&mut self.ret, Ty::Unit);
        let saved_muts = self.muts.clone();
        if self.muts.is_empty() {
            // statement mode for the last expression
            self.muts = vec![String::new()];
        }
        let r = self.block_tail(stmts, env);
        self.ret = saved;
        self.muts = saved_muts;
        let mut s = r?;
        match &s.tail {
            Tail::Val(v) if v == "()" => {
                s.tail = Tail::Val(tuple.to_string());
                Ok(s)
            }
            // builder O (I/O mode): leaves that throw (`return Err(..)`) stay, unit leaves get the tuple
            _ if self.reg.io.borrow().mode => {
                crate::phyio::retarget(&mut s, tuple)?;
                Ok(s)
            }
            // builder N: a branch that panics
            Tail::Panic => Ok(s),
            _ => Err("a branch of a statement-level if/match leaves the function or has a value".into()),
        }
    }

    /// builder L: `if c1 && let P = e && c2 { then } else { else_seq }` — conditions evaluated left to
    /// right, pattern bindings visible to the later conditions and to `then`
    fn if_chain(&mut self, cond: &Expr, env: &Env, mk_then: &mut dyn FnMut(&mut Self, &mut Env) -> Res<Seq>, else_seq: Seq, st: &mut Stmts) -> Res<Tail> {
        let mut conj: Vec<&Expr> = vec![];
        if has_let(cond) {
            flatten_and(cond, &mut conj);
        } else {
            conj.push(cond);
        }
        let mut env_t = env.clone();
        let seq = self.if_chain_go(&conj, 0, &mut env_t, mk_then, &else_seq)?;
        st.extend(seq.stmts);
        Ok(seq.tail)
    }

    fn if_chain_go(&mut self, conj: &[&Expr], i: usize, env_t: &mut Env, mk_then: &mut dyn FnMut(&mut Self, &mut Env) -> Res<Seq>, else_seq: &Seq) -> Res<Seq> {
        if i == conj.len() {
            return mk_then(self, env_t);
        }
        let mut stc: Stmts = vec![];
        match conj[i] {
            Expr::Let(l) if self.lens_call(&l.expr, env_t)?.is_some() => {
                // builder L: `let Some(x) = recv.lens()` where `lens(&mut self) -> Option<&mut T>`: `x` is a copy
                // that is written back into `recv` after the branch
                let (get, set, inner_ty, recv) = self.lens_call(&l.expr, env_t)?.unwrap();
                let (root, fields, _) = self.place(recv, env_t)?;
                let (rt, _) = self.ex(recv, env_t, &mut stc, None)?;
                let sty = Ty::Opt(Box::new(inner_ty));
                let p = self.pat(&l.pat, &sty, env_t)?;
                let mut xs = vec![];
                pat_idents(&l.pat, &mut xs);
                if xs.len() != 1 {
                    return Err("lens pattern must bind exactly one variable".into());
                }
                let x = lean_ident(&xs[0]);
                let wb = (lean_ident(&root), Rhs::Pure(update_term(&lean_ident(&root), &fields, &format!("({} {} {})", set, paren(&rt), x))));
                let mut mk2 = |this: &mut Self, env: &mut Env| -> Res<Seq> {
                    let mut s = mk_then(this, env)?;
                    s.stmts.push(wb.clone());
                    Ok(s)
                };
                let inner = self.if_chain_go(conj, i + 1, env_t, &mut mk2, else_seq)?;
                Ok(Seq { stmts: stc, tail: Tail::Match(format!("({} {})", get, paren(&rt)), vec![(p, inner), ("none".to_string(), else_seq.clone())]) })
            }
            Expr::Let(l) => {
                let (sc, sty) = self.ex(&l.expr, env_t, &mut stc, None)?;
                let p = self.pat(&l.pat, &sty, env_t)?;
                let inner = self.if_chain_go(conj, i + 1, env_t, mk_then, else_seq)?;
                // builder N: `none` completes `some <binding>`; a refutable inner pattern (`Ok(true)`) needs `_`
                let binds_all = p.strip_prefix("some ").map(|r| r != "true" && r != "false" && !r.starts_with(|c: char| c.is_ascii_digit()) && r.chars().all(|c| c.is_alphanumeric() || c == '_' || c == '«' || c == '»')).unwrap_or(false);
                let other = match &sty {
                    Ty::Opt(_) if binds_all => "none".to_string(),
                    _ => "_".to_string(),
                };
                Ok(Seq { stmts: stc, tail: Tail::Match(sc, vec![(p, inner), (other, else_seq.clone())]) })
            }
            c => {
                let (t, ty) = self.ex(c, env_t, &mut stc, Some(Ty::Bool))?;
                if ty != Ty::Bool {
                    return Err(format!("condition is not bool: {:?}", ty));
                }
                let inner = self.if_chain_go(conj, i + 1, env_t, mk_then, else_seq)?;
                Ok(Seq { stmts: stc, tail: Tail::If(t, Box::new(inner), Box::new(else_seq.clone())) })
            }
        }
    }

    /// builder R: translate a loop body as a unit function whose `&mut` parameters are the loop-carried
    /// variables: every exit (end of the body, `continue` rewritten to `return`) yields their tuple
    fn loop_body(&mut self, stmts: &[Stmt], env: &Env, carried: &[String], extra: &[(String, Ty)]) -> Res<Seq> {
        let saved_ret = std::mem::replace(&mut self.ret, Ty::Unit);
        let saved_muts = std::mem::replace(&mut self.muts, carried.to_vec());
        let mut env_b = env.clone();
        for (n, t) in extra {
            env_b.insert(n.clone(), t.clone());
        }
        let r = self.block_tail(stmts, &mut env_b);
        self.ret = saved_ret;
        self.muts = saved_muts;
        let mut seq = r?;
        let cs = carried.to_vec();
        wrap_exits(&mut seq, &mut self.counter, &|v: &str| exit_term(v, true, &cs));
        Ok(seq)
    }

    /// builder R: the variables a loop carries: `&mut` parameters and `let mut` locals of the enclosing block
    /// that the body may assign (over-approximated as in `assigned_roots`)
    fn loop_carried(&self, body: &Block, before: &[Stmt], env: &Env, skip: &str) -> Vec<String> {
        let mut cands: Vec<String> = self.muts.iter().filter(|m| !m.is_empty()).cloned().collect();
        for s in before {
            if let Stmt::Local(l) = s {
                let p = match &l.pat {
                    Pat::Type(pt) => &*pt.pat,
                    p => p,
                };
                if let Pat::Ident(pi) = p {
                    if pi.mutability.is_some() {
                        let n = pi.ident.to_string();
                        if !cands.contains(&n) {
                            cands.push(n);
                        }
                    }
                }
            }
        }
        cands.retain(|c| c != skip && env.contains_key(c));
        let be = Expr::Block(ExprBlock { attrs: vec![], label: None, block: body.clone() });
        let assigned = assigned_roots(&be, &cands);
        cands.retain(|c| assigned.contains(c));
        cands
    }

    /// builder V: `while cond { body }` (no `break` / `return` / nested loop in the body): one step evaluates the
    /// condition and, when it holds, the body; `Rt.loopM LoopFuel.fuel` iterates it (`none` when the fuel is used up)
    fn while_fuel_loop(&mut self, w: &ExprWhile, before: &[Stmt], env: &mut Env, st: &mut Stmts) -> Res<()> {
        // builder E (I/O mode): a `while` whose condition and body perform no I/O is an `Option` loop lifted
        // into the I/O monad as a whole (`Rt.Phy.ofOpt`); an I/O action inside it does not type-check in Lean
        // (`Option` vs `IoM`), a `?` inside is refused below
        let lift = self.reg.io.borrow().mode && !self.reg.io.borrow().in_pure;
        if lift {
            struct HasTry(bool);
            impl<'ast> syn::visit::Visit<'ast> for HasTry {
                fn visit_expr_try(&mut self, _: &'ast ExprTry) {
                    self.0 = true;
                }
                fn visit_expr_await(&mut self, _: &'ast ExprAwait) {
                    self.0 = true;
                }
            }
            let mut h = HasTry(false);
            syn::visit::Visit::visit_expr_while(&mut h, w);
            if h.0 {
                return Err("while (I/O mode): `?` / `.await` inside the loop is not supported".into());
            }
            self.reg.io.borrow_mut().in_pure = true;
        }
        let r = self.while_fuel_loop_inner(w, before, env, st, lift);
        if lift {
            self.reg.io.borrow_mut().in_pure = false;
        }
        r
    }

    fn while_fuel_loop_inner(&mut self, w: &ExprWhile, before: &[Stmt], env: &mut Env, st: &mut Stmts, lift: bool) -> Res<()> {
        struct Bad(Option<String>);
        impl<'ast> syn::visit::Visit<'ast> for Bad {
            fn visit_expr(&mut self, e: &'ast Expr) {
                match e {
                    Expr::Continue(_) | Expr::Break(_) | Expr::Return(_) | Expr::While(_) | Expr::Loop(_) => self.0 = Some("continue/break/return/nested loop inside a `while` body".into()),
                    _ => syn::visit::visit_expr(self, e),
                }
            }
        }
        let mut bad = Bad(None);
        syn::visit::Visit::visit_block(&mut bad, &w.body);
        if let Some(b) = bad.0 {
            return Err(format!("while: {}", b));
        }
        let carried = self.loop_carried(&w.body, before, env, "");
        if carried.is_empty() {
            return Err("while: the body assigns nothing".into());
        }
        let tup = tuple_of(&carried);
        let mut bseq = self.loop_body(&w.body.stmts, env, &carried, &[])?;
        wrap_exits(&mut bseq, &mut self.counter, &|v: &str| format!("(Sum.inl {})", v));
        let mut env_c = env.clone();
        let mut cst: Stmts = vec![];
        let (ct, cty) = self.ex(&w.cond, &mut env_c, &mut cst, Some(Ty::Bool))?;
        if cty != Ty::Bool {
            return Err("while: the condition is not bool".into());
        }
        let step = Seq { stmts: cst, tail: Tail::If(ct, Box::new(bseq), Box::new(Seq { stmts: vec![], tail: Tail::Val(format!("(Sum.inr {})", tup)) })) };
        let mut body = String::new();
        if step.fallible() {
            render_m(&step, 3, &mut body);
        } else {
            body.push_str("some (");
            render_p(&step, 3, &mut body);
            body.push(')');
        }
        if lift {
            st.push((tup.clone(), Rhs::Act(format!("Rt.Phy.ofOpt (Rt.loopM LoopFuel.fuel (fun {} => {}) <| {})", tup, body, tup))));
        } else {
            st.push((tup.clone(), Rhs::Act(format!("Rt.loopM LoopFuel.fuel (fun {} => {}) <| {}", tup, body, tup))));
        }
        Ok(())
    }

    /// builder V: `loop { body }` in tail position whose only exits are `return v`: one step is the body — a
    /// `return` ends the loop with the function's result (value and `&mut` parameters), the end of the body
    /// continues with the loop-carried variables; `Rt.loopM LoopFuel.fuel` iterates it
    fn loop_fuel_loop(&mut self, l: &ExprLoop, before: &[Stmt], env: &mut Env, st: &mut Stmts) -> Res<Tail> {
        struct Bad(Option<String>);
        impl<'ast> syn::visit::Visit<'ast> for Bad {
            fn visit_expr(&mut self, e: &'ast Expr) {
                match e {
                    Expr::Continue(_) | Expr::Break(_) | Expr::While(_) | Expr::Loop(_) => self.0 = Some("continue/break/nested loop inside a `loop` body".into()),
                    _ => syn::visit::visit_expr(self, e),
                }
            }
        }
        let mut bad = Bad(None);
        syn::visit::Visit::visit_block(&mut bad, &l.body);
        if let Some(b) = bad.0 {
            return Err(format!("loop: {}", b));
        }
        if self.ret == Ty::Unit {
            return Err("loop: the function returns no value".into());
        }
        let carried = self.loop_carried(&l.body, before, env, "");
        if carried.is_empty() {
            return Err("loop: the body assigns nothing".into());
        }
        let tup = tuple_of(&carried);
        // the end of the body is marked by the variable `loop_continue` (of the function's return type)
        let mut stmts: Vec<Stmt> = l.body.stmts.clone();
        if let Some(Stmt::Expr(e, None)) = stmts.last().cloned() {
            let k = stmts.len() - 1;
            stmts[k] = Stmt::Expr(e, Some(Default::default()));
        }
        stmts.push(Stmt::Expr(parse_quote!(loop_continue), None));
        let mut env_b = env.clone();
        env_b.insert("loop_continue".into(), self.ret.clone());
        let mut seq = self.block_tail(&stmts, &mut env_b)?;
        let muts: Vec<String> = self.muts.iter().filter(|m| !m.is_empty()).cloned().collect();
        let tup2 = tup.clone();
        wrap_exits(&mut seq, &mut self.counter, &|v: &str| if v == "loop_continue" { format!("(Sum.inl {})", tup2) } else { format!("(Sum.inr {})", exit_term(v, false, &muts)) });
        let mut body = String::new();
        if seq.fallible() {
            render_m(&seq, 3, &mut body);
        } else {
            body.push_str("some (");
            render_p(&seq, 3, &mut body);
            body.push(')');
        }
        let v = self.fresh();
        let res = exit_term(&v, false, &muts);
        st.push((res, Rhs::Act(format!("Rt.loopM LoopFuel.fuel (fun {} => {}) <| {}", tup, body, tup))));
        Ok(Tail::Val(v))
    }

    fn while_let_loop(&mut self, w: &ExprWhile, before: &[Stmt], env: &mut Env, st: &mut Stmts) -> Res<()> {
        // `let Some(x) = it.next()`
        let (x, it) = match &*w.cond {
            Expr::Let(l) => {
                let x = match &*l.pat {
                    Pat::TupleStruct(ts) if ts.path.is_ident("Some") && ts.elems.len() == 1 => match &ts.elems[0] {
                        Pat::Ident(pi) => pi.ident.to_string(),
                        _ => return Err("while let: the pattern is not `Some(x)`".into()),
                    },
                    _ => return Err("while let: the pattern is not `Some(x)`".into()),
                };
                let it = match &*l.expr {
                    Expr::MethodCall(m) if m.method == "next" && m.args.is_empty() => match &*m.receiver {
                        Expr::Path(p) if p.path.segments.len() == 1 => p.path.segments[0].ident.to_string(),
                        _ => return Err("while let: the iterator is not a local variable".into()),
                    },
                    _ => return Err("while let: the scrutinee is not `it.next()`".into()),
                };
                (x, it)
            }
            _ => return Err("unsupported `while` loop (only `while let Some(x) = it.next()`)".into()),
        };
        let el = match env.get(&it) {
            Some(Ty::Arr(el)) => (**el).clone(),
            _ => return Err(format!("while let: {} is not an iterator the unit models as a list", it)),
        };
        let peek = format!("{}_peek", it);
        // `continue` → `return`, `it.peek()` → the variable `it_peek`
        struct Rw<'a> {
            it: &'a str,
            peek: &'a str,
            bad: Option<String>,
        }
        impl<'a> syn::visit_mut::VisitMut for Rw<'a> {
            fn visit_expr_mut(&mut self, e: &mut Expr) {
                match e {
                    Expr::Continue(c) => {
                        if c.label.is_some() {
                            self.bad = Some("labelled continue".into());
                        }
                        *e = parse_quote!(return);
                        return;
                    }
                    Expr::Break(_) => self.bad = Some("`break` inside a translated loop".into()),
                    Expr::Return(_) => self.bad = Some("`return` inside a translated loop".into()),
                    Expr::While(_) | Expr::Loop(_) => self.bad = Some("nested while/loop".into()),
                    Expr::MethodCall(m) if m.method == "peek" && m.args.is_empty() && matches!(&*m.receiver, Expr::Path(p) if p.path.is_ident(self.it)) => {
                        let id = Ident::new(self.peek, proc_macro2::Span::call_site());
                        *e = parse_quote!(#id);
                        return;
                    }
                    Expr::Path(p) if p.path.is_ident(self.it) => self.bad = Some("the iterator is used inside the loop other than by `peek()`".into()),
                    _ => {}
                }
                syn::visit_mut::visit_expr_mut(self, e);
            }
        }
        let mut body = w.body.clone();
        let mut rw = Rw { it: &it, peek: &peek, bad: None };
        syn::visit_mut::VisitMut::visit_block_mut(&mut rw, &mut body);
        if let Some(b) = rw.bad {
            return Err(format!("while let: {}", b));
        }
        let carried = self.loop_carried(&body, before, env, &it);
        if carried.is_empty() {
            return Err("while let: the body assigns nothing".into());
        }
        // read-only variables of the enclosing scope the body mentions
        struct Ids(Vec<String>);
        impl<'ast> syn::visit::Visit<'ast> for Ids {
            fn visit_expr_path(&mut self, p: &'ast ExprPath) {
                if p.path.segments.len() == 1 {
                    self.0.push(p.path.segments[0].ident.to_string());
                }
            }
        }
        let mut ids = Ids(vec![]);
        syn::visit::Visit::visit_block(&mut ids, &body);
        let mut ro: Vec<String> = ids.0.into_iter().filter(|n| env.contains_key(n) && !carried.contains(n) && *n != x && *n != peek && *n != it).collect();
        ro.sort();
        ro.dedup();
        let extra = vec![(x.clone(), el.clone()), (peek.clone(), Ty::Opt(Box::new(el.clone())))];
        let seq = self.loop_body(&body.stmts, env, &carried, &extra)?;
        let fallible = seq.fallible();
        let k = self.extra_defs.iter().filter(|d| d.contains(".while_step")).count();
        let suffix = if k == 0 { String::new() } else { format!("{}", k + 1) };
        let step = format!("{}.while_step{}", self.fn_prefix, suffix);
        let lp = format!("{}.while_loop{}", self.fn_prefix, suffix);
        let cty: Vec<Ty> = carried.iter().map(|c| env.get(c).cloned().unwrap()).collect();
        let tuple_ty = ret_shape(&Ty::Unit, &cty).lean();
        let ps = |names: &[String], env: &Env| names.iter().map(|n| format!("({} : {})", lean_ident(n), env.get(n).unwrap().lean())).collect::<Vec<_>>().join(" ");
        let mut text = String::new();
        text.push_str(&format!("/-- one iteration of the `while let Some({}) = {}.next()` loop of `{}` (`continue` = return of the carried variables; `{}` = `{}.peek()`) -/\n", x, it, self.fn_prefix, peek, it));
        if fallible {
            text.push_str(&format!("def {} {} {} ({} : {}) ({} : Option {}) : Option {} := ", step, ps(&ro, env), ps(&carried, env), lean_ident(&x), el.lean(), peek, el.lean(), tuple_ty));
            render_m(&seq, 1, &mut text);
        } else {
            text.push_str(&format!("def {} {} {} ({} : {}) ({} : Option {}) : {} :=\n  ", step, ps(&ro, env), ps(&carried, env), lean_ident(&x), el.lean(), peek, el.lean(), tuple_ty));
            render_p(&seq, 1, &mut text);
        }
        text.push('\n');
        let ro_args = ro.iter().map(|n| lean_ident(n)).collect::<Vec<_>>().join(" ");
        let c_args = carried.iter().map(|n| lean_ident(n)).collect::<Vec<_>>().join(" ");
        let c_pats = carried.iter().map(|n| lean_ident(n)).collect::<Vec<_>>().join(", ");
        let tup = tuple_of(&carried);
        text.push_str(&format!("\n/-- the loop: the iterator is the list of the items it yields -/\ndef {} {} : List {} → {} → Option {}\n", lp, ps(&ro, env), el.lean(), cty.iter().map(|t| t.lean()).collect::<Vec<_>>().join(" → "), tuple_ty));
        text.push_str(&format!("  | [], {} => some {}\n", c_pats, tup));
        text.push_str(&format!("  | {} :: rest, {} => do\n", lean_ident(&x), c_pats));
        if fallible {
            text.push_str(&format!("    let {} ← {} {} {} {} rest.head?\n", tup, step, ro_args, c_args, lean_ident(&x)));
        } else {
            text.push_str(&format!("    let {} := {} {} {} {} rest.head?\n", tup, step, ro_args, c_args, lean_ident(&x)));
        }
        text.push_str(&format!("    {} {} rest {}\n", lp, ro_args, c_args));
        self.extra_defs.push(text);
        self.reg.helpers.borrow_mut().push(step);
        st.push((tup, Rhs::Act(format!("{} {} {} {}", lp, ro_args, lean_ident(&it), c_args))));
        st.push((lean_ident(&it), Rhs::Pure(format!("([] : List {})", el.lean()))));
        Ok(())
    }

    fn for_range_loop(&mut self, f: &ExprForLoop, before: &[Stmt], env: &mut Env, st: &mut Stmts) -> Res<()> {
        let r = match &*f.expr {
            Expr::Range(r) if matches!(r.limits, RangeLimits::HalfOpen(_)) => r,
            _ => return Err("unsupported `for` loop (only `for i in a..b`)".into()),
        };
        let (lo, hi) = match (&r.start, &r.end) {
            (Some(a), Some(b)) => (a, b),
            _ => return Err("for: open range".into()),
        };
        let (b, tb) = self.ex(hi, env, st, None)?;
        let (a, ta) = self.ex(lo, env, st, if matches!(tb, Ty::Int(_)) { Some(tb.clone()) } else { None })?;
        let ity = match (&ta, &tb) {
            (_, Ty::Int(_)) => tb.clone(),
            (Ty::Int(_), _) => ta.clone(),
            _ => Ty::Int("i32"),
        };
        struct Bad(Option<String>);
        impl<'ast> syn::visit::Visit<'ast> for Bad {
            fn visit_expr(&mut self, e: &'ast Expr) {
                match e {
                    Expr::Continue(_) | Expr::Break(_) | Expr::Return(_) => self.0 = Some("continue/break/return inside a `for` body".into()),
                    _ => syn::visit::visit_expr(self, e),
                }
            }
        }
        let mut bad = Bad(None);
        syn::visit::Visit::visit_block(&mut bad, &f.body);
        if let Some(b) = bad.0 {
            return Err(format!("for: {}", b));
        }
        let carried = self.loop_carried(&f.body, before, env, "");
        if carried.is_empty() {
            return Err("for: the body assigns nothing".into());
        }
        let (iv, extra) = match &*f.pat {
            Pat::Wild(_) => ("_i".to_string(), vec![]),
            Pat::Ident(pi) => (lean_ident(&pi.ident.to_string()), vec![(pi.ident.to_string(), ity.clone())]),
            _ => return Err("for: unsupported pattern".into()),
        };
        let seq = self.loop_body(&f.body.stmts, env, &carried, &extra)?;
        let mut body = String::new();
        if seq.fallible() {
            render_m(&seq, 3, &mut body);
        } else {
            body.push_str("some (");
            render_p(&seq, 3, &mut body);
            body.push(')');
        }
        let tup = tuple_of(&carried);
        // builder V: in deeply nested `do` blocks an argument after the multi-line lambda falls left of the enclosing
        // block's column (Lean's `checkColGt`); `<|` does not care.  The units generated before keep their text.
        if self.reg.structs.contains_key("RNG") {
            st.push((tup.clone(), Rhs::Act(format!("Rt.forRangeM {} {} (fun {} {} => {}) <| {}", paren(&a), paren(&b), iv, tup, body, tup))));
            return Ok(());
        }
        st.push((tup.clone(), Rhs::Act(format!("Rt.forRangeM {} {} (fun {} {} => {}) {}", paren(&a), paren(&b), iv, tup, body, tup))));
        Ok(())
    }

    /// builder R: `x.set_a(u).set_b(v)` as a statement, where every method of the chain is a registered
    /// `&mut self` setter without a value (`-> &mut Self` in the source): the calls in order, each written back to `x`
    fn builder_chain(&mut self, mc: &ExprMethodCall, env: &mut Env, st: &mut Stmts) -> Res<bool> {
        let mut chain: Vec<&ExprMethodCall> = vec![mc];
        let mut recv = &*mc.receiver;
        while let Expr::MethodCall(inner) = recv {
            chain.push(inner);
            recv = &*inner.receiver;
        }
        if chain.len() < 2 {
            return Ok(false);
        }
        let tn = match self.place(recv, env) {
            Ok((_, _, Ty::Named(tn))) => tn,
            _ => return Ok(false),
        };
        chain.reverse();
        for (k, c) in chain.iter().enumerate() {
            match self.reg.fns.get(&format!("{}::{}", tn, c.method)) {
                // the last call of the chain may answer a value that the statement drops
                Some(sig) if sig.muts == ["self".to_string()] && (sig.ret == Ty::Unit || k + 1 == chain.len()) => {}
                _ => return Ok(false),
            }
        }
        for c in chain {
            let mut call = (*c).clone();
            call.receiver = Box::new(recv.clone());
            let _ = self.ex(&Expr::MethodCall(call), env, st, None)?;
        }
        Ok(true)
    }

    /// builder R: the integer type a later statement forces on the variable `x` (declared without a type and
    /// initialised by literals only): the type of the place it is combined with or assigned to
    fn infer_from_uses(&mut self, x: &str, rest: &[Stmt], env: &Env) -> Option<Ty> {
        struct V<'a> {
            x: &'a str,
            found: Vec<Expr>,
        }
        impl<'a, 'ast> syn::visit::Visit<'ast> for V<'a> {
            fn visit_expr_binary(&mut self, b: &'ast ExprBinary) {
                let is_x = |e: &Expr| matches!(e, Expr::Path(p) if p.path.is_ident(self.x));
                if !matches!(b.op, BinOp::Shl(_) | BinOp::Shr(_) | BinOp::ShlAssign(_) | BinOp::ShrAssign(_)) {
                    if is_x(&b.right) {
                        self.found.push((*b.left).clone());
                    } else if is_x(&b.left) {
                        self.found.push((*b.right).clone());
                    }
                }
                syn::visit::visit_expr_binary(self, b);
            }
            fn visit_expr_assign(&mut self, a: &'ast ExprAssign) {
                if matches!(&*a.right, Expr::Path(p) if p.path.is_ident(self.x)) {
                    self.found.push((*a.left).clone());
                }
                syn::visit::visit_expr_assign(self, a);
            }
        }
        let mut v = V { x, found: vec![] };
        for s in rest {
            syn::visit::Visit::visit_stmt(&mut v, s);
        }
        for e in v.found {
            let t = match &e {
                Expr::Index(ix) => match self.place(&ix.expr, env) {
                    Ok((_, _, Ty::Arr(el))) => Some(*el),
                    _ => None,
                },
                // builder V: combined with a cast `(e as usize) & x`
                Expr::Cast(c) => self.ty(&c.ty).ok(),
                Expr::Paren(pp) if matches!(&*pp.expr, Expr::Cast(_)) => match &*pp.expr {
                    Expr::Cast(c) => self.ty(&c.ty).ok(),
                    _ => None,
                },
                other => self.place(other, env).ok().map(|(_, _, t)| t),
            };
            if let Some(t @ Ty::Int(_)) = t {
                return Some(t);
            }
        }
        None
    }

    /// builder W: the pattern of an arm of `match SCRUT { .. }`; when SCRUT is `&mut PLACE` the variables a variant
    /// pattern binds are registered as references into PLACE (`ref_binds`)
    fn pat_scrut(&mut self, scrut: &Expr, p: &Pat, ty: &Ty, env: &mut Env) -> Res<String> {
        let place = match scrut {
            Expr::Reference(r) if r.mutability.is_some() => self.place(&r.expr, env).ok().map(|(root, fields, _)| (root, fields)),
            _ => None,
        };
        *self.reg.mut_scrut.borrow_mut() = place;
        let r = self.pat(p, ty, env);
        *self.reg.mut_scrut.borrow_mut() = None;
        r
    }

    /// builder W: after a translated mutation of the variable `root`: if it is a reference into a place, the place is
    /// updated
    fn ref_writeback(&mut self, root: &str, st: &mut Stmts) {
        let b = self.reg.ref_binds.borrow().get(root).cloned();
        if let Some((proot, pfields, ctor, vars)) = b {
            let value = format!("({} {})", ctor, vars.iter().map(|v| lean_ident(v)).collect::<Vec<_>>().join(" "));
            st.push((lean_ident(&proot), Rhs::Pure(update_term(&lean_ident(&proot), &pfields, &value))));
        }
    }

    /// builder L: an assignable place: (root variable, field chain, type of the place)
    fn place(&mut self, e: &Expr, env: &Env) -> Res<(String, Vec<String>, Ty)> {
        match e {
            Expr::Path(p) if p.path.segments.len() == 1 => {
                let n = p.path.segments[0].ident.to_string();
                let t = env.get(&n).cloned().ok_or(format!("assignment to unknown {}", n))?;
                Ok((n, vec![], t))
            }
            Expr::Paren(p) => self.place(&p.expr, env),
            Expr::Reference(r) => self.place(&r.expr, env),
            Expr::Unary(u) if matches!(u.op, UnOp::Deref(_)) => self.place(&u.expr, env),
            Expr::Field(f) => {
                let (root, mut fields, bt) = self.place(&f.base, env)?;
                match (&f.member, &bt) {
                    (Member::Named(id), Ty::Named(sn)) => {
                        let fs = self.reg.structs.get(sn).ok_or(format!("field access on non-struct {}", sn))?;
                        let fname = id.to_string();
                        let fty = fs.iter().find(|(n, _)| *n == fname).ok_or(format!("no field {} in {}", fname, sn))?.1.clone();
                        fields.push(fname);
                        Ok((root, fields, fty))
                    }
                    // builder R: the field of a newtype as a place (`self.0[i] = v`)
                    (Member::Unnamed(ix), Ty::Named(sn)) => {
                        let fs = self.reg.structs.get(sn).ok_or(format!("field access on non-struct {}", sn))?;
                        let fname = ix.index.to_string();
                        let fty = fs.iter().find(|(n, _)| *n == fname).ok_or(format!("no field {} in {}", fname, sn))?.1.clone();
                        fields.push(fname);
                        Ok((root, fields, fty))
                    }
                    _ => Err(format!("unsupported place {}", quote::quote!(#e))),
                }
            }
            _ => Err(format!("unsupported place {}", quote::quote!(#e))),
        }
    }

    /// builder L: call of a translated function; `&mut` arguments are passed by value and written back
    fn emit_call(&mut self, sig: &FnSig, actuals: &[&Expr], env: &mut Env, st: &mut Stmts) -> Res<(String, Ty)> {
        let mut args = vec![];
        let mut writebacks: Vec<(String, Vec<String>)> = vec![];
        let mut slice_wb: HashMap<usize, (String, String, String)> = HashMap::new();
        for (a, (pn, pt)) in actuals.iter().zip(sig.params.iter()) {
            if sig.muts.contains(pn) {
                // builder A: `&mut x[a..b]` lends a sub-slice: slice out (a panic if the range is invalid), call, copy back
                let mut inner: &Expr = a;
                loop {
                    match inner {
                        Expr::Reference(r) => inner = &r.expr,
                        Expr::Paren(p) => inner = &p.expr,
                        _ => break,
                    }
                }
                if let Expr::Index(ix) = inner {
                    if let Expr::Range(r) = &*ix.index {
                        if !matches!(r.limits, RangeLimits::HalfOpen(_)) {
                            return Err("`&mut x[a..=b]` argument not supported".into());
                        }
                        let (root, fields, _) = self.place(&ix.expr, env)?;
                        let (d, td) = self.ex(&ix.expr, env, st, None)?;
                        if !matches!(td, Ty::Arr(_)) {
                            return Err("`&mut x[a..b]` argument: not an array".into());
                        }
                        let lo = match &r.start {
                            Some(e) => self.ex(e, env, st, Some(Ty::Int("usize")))?.0,
                            None => "0".to_string(),
                        };
                        let hi = match &r.end {
                            Some(e) => self.ex(e, env, st, Some(Ty::Int("usize")))?.0,
                            None => format!("(Int.ofNat {}.length)", paren(&d)),
                        };
                        let t = self.act(st, format!("Rt.slice {} {} {}", paren(&d), paren(&lo), paren(&hi)));
                        args.push(paren(&t));
                        writebacks.push((root, fields));
                        slice_wb.insert(writebacks.len() - 1, (d, lo, hi));
                        continue;
                    }
                }
                let (root, fields, _) = self.place(a, env)?;
                writebacks.push((root, fields));
            }
            let (t, _) = self.ex(a, env, st, Some(pt.clone()))?;
            args.push(paren(&t));
        }
        let term = format!("{} {}", sig.lean, args.join(" "));
        if writebacks.is_empty() {
            return if sig.fallible { Ok((self.act(st, term), sig.ret.clone())) } else { Ok((format!("({})", term), sig.ret.clone())) };
        }
        let mut names = vec![];
        let mut post: Stmts = vec![];
        let rname = if sig.ret != Ty::Unit {
            let n = self.fresh();
            names.push(n.clone());
            n
        } else {
            "()".to_string()
        };
        for (k, (root, fields)) in writebacks.iter().enumerate() {
            if let Some((d, lo, hi)) = slice_wb.get(&k) {
                let n = self.fresh();
                let m = self.fresh();
                post.push((m.clone(), Rhs::Act(format!("Rt.copyFromSlice {} {} {} {}", paren(d), paren(lo), paren(hi), n))));
                post.push((lean_ident(root), Rhs::Pure(update_term(&lean_ident(root), fields, &m))));
                names.push(n);
            } else if fields.is_empty() {
                names.push(lean_ident(root));
            } else {
                let n = self.fresh();
                post.push((lean_ident(root), Rhs::Pure(update_term(&lean_ident(root), fields, &n))));
                names.push(n);
            }
        }
        let pat = if names.len() == 1 { names[0].clone() } else { format!("({})", names.join(", ")) };
        st.push((pat, if sig.fallible { Rhs::Act(term) } else { Rhs::Pure(term) }));
        st.extend(post);
        for (root, _) in &writebacks {
            self.ref_writeback(root, st);
        }
        Ok((rname, sig.ret.clone()))
    }

    /// builder L: an inherent method of a modelled struct that is not listed in the unit (a helper the
    /// selected method calls on `self`): translated on demand, emitted before the caller, unfolded by
    /// `gen_unfold_helpers_<Unit>`
    fn method_on_demand(&mut self, tn: &str, name: &str) -> Res<FnSig> {
        let key = format!("{}::{}", tn, name);
        if let Some(s) = self.reg.dyn_fns.borrow().get(&key) {
            return Ok(s.clone());
        }
        if self.reg.dyn_stack.borrow().contains(&key) {
            return Err(format!("recursive method {}", key));
        }
        let files = self.reg.files.clone().ok_or(format!("unknown method {}", key))?;
        let (sig, body) = find_inherent_method(&files, tn, name)
            .or_else(|| if self.reg.io.borrow().mode { crate::phyio::find_trait_method(&files, tn, name) } else { None })
            .ok_or(format!("unknown method {}", key))?;
        self.reg.dyn_stack.borrow_mut().push(key.clone());
        // builder N: a getter named like the field it reads would clash with the structure projection
        let clash = self.reg.structs.get(tn).map(|fs| fs.iter().any(|(f, _)| f == name)).unwrap_or(false);
        let lean_name = if clash { format!("{}.{}_fn", tn, name) } else { format!("{}.{}", tn, name) };
        let mut sub = FnTr {
            reg: self.reg,
            self_ty: Some(tn.to_string()),
            ret: Ty::Unit,
            counter: 0,
            fn_prefix: lean_name.clone(),
            local_fns: HashMap::new(),
            extra_defs: vec![],
            muts: vec![],
            tparams: HashMap::new(),
        };
        let r = sub.function(sig, body, &lean_name);
        self.reg.dyn_stack.borrow_mut().pop();
        let (text, fsig) = r.map_err(|e| format!("method {}: {}", key, e))?;
        self.extra_defs.extend(sub.extra_defs);
        self.extra_defs.push(text);
        self.reg.helpers.borrow_mut().push(lean_name);
        self.reg.dyn_fns.borrow_mut().insert(key, fsig.clone());
        Ok(fsig)
    }

    /// builder P: a module-level function of the unit's files, translated on demand (I/O mode), emitted before
    /// the caller and unfolded by `gen_unfold_helpers_<Unit>`
    fn free_fn_on_demand(&mut self, name: &str) -> Res<Option<FnSig>> {
        let key = format!("::{}", name);
        if let Some(s) = self.reg.dyn_fns.borrow().get(&key) {
            return Ok(Some(s.clone()));
        }
        if self.reg.dyn_stack.borrow().contains(&key) {
            return Err(format!("recursive function {}", name));
        }
        let files = match self.reg.files.clone() {
            Some(f) => f,
            None => return Ok(None),
        };
        let g = match files.iter().find_map(|f| f.items.iter().find_map(|it| if let Item::Fn(g) = it { if g.sig.ident == name { Some(g) } else { None } } else { None })) {
            Some(g) => g,
            None => return Ok(None),
        };
        self.reg.dyn_stack.borrow_mut().push(key.clone());
        let mut sub = FnTr {
            reg: self.reg,
            self_ty: None,
            ret: Ty::Unit,
            counter: 0,
            fn_prefix: name.to_string(),
            local_fns: HashMap::new(),
            extra_defs: vec![],
            muts: vec![],
            tparams: HashMap::new(),
        };
        let r = sub.function(&g.sig, &g.block, name);
        self.reg.dyn_stack.borrow_mut().pop();
        let (text, fsig) = r.map_err(|e| format!("function {}: {}", name, e))?;
        self.extra_defs.extend(sub.extra_defs);
        self.extra_defs.push(text);
        self.reg.helpers.borrow_mut().push(name.to_string());
        self.reg.dyn_fns.borrow_mut().insert(key, fsig.clone());
        Ok(Some(fsig))
    }

    /// builder L: is `e` a call `recv.m()` of a method `m(&mut self) -> Option<&mut T>` of a modelled struct?
    /// Returns (getter, setter, T, receiver).
    fn lens_call<'e>(&mut self, e: &'e Expr, env: &Env) -> Res<Option<(String, String, Ty, &'e Expr)>> {
        let m = match e {
            Expr::MethodCall(m) if m.args.is_empty() => m,
            _ => return Ok(None),
        };
        let tn = match self.place(&m.receiver, env) {
            Ok((_, _, Ty::Named(tn))) => tn,
            _ => return Ok(None),
        };
        match self.lens_method(&tn, &m.method.to_string())? {
            Some((g, s, t)) => Ok(Some((g, s, t, &*m.receiver))),
            None => Ok(None),
        }
    }

    /// builder L: `fn m(&mut self) -> Option<&mut T> { match &mut self.f { V(x) => Some(x), .. => None } }` as a
    /// getter / setter pair (emitted once, as helpers)
    fn lens_method(&mut self, tn: &str, name: &str) -> Res<Option<(String, String, Ty)>> {
        let files = match self.reg.files.clone() {
            Some(f) => f,
            None => return Ok(None),
        };
        let (sig, body) = match find_inherent_method(&files, tn, name) {
            Some(x) => x,
            None => return Ok(None),
        };
        // return type Option<&mut T>
        let inner = match &sig.output {
            ReturnType::Type(_, t) => match &**t {
                Type::Path(tp) if tp.path.segments.last().unwrap().ident == "Option" => match &tp.path.segments.last().unwrap().arguments {
                    PathArguments::AngleBracketed(ab) => match ab.args.first() {
                        Some(GenericArgument::Type(Type::Reference(r))) if r.mutability.is_some() => (*r.elem).clone(),
                        _ => return Ok(None),
                    },
                    _ => return Ok(None),
                },
                _ => return Ok(None),
            },
            _ => return Ok(None),
        };
        let get = format!("{}.{}.get", tn, name);
        let set = format!("{}.{}.set", tn, name);
        let sub = FnTr { reg: self.reg, self_ty: Some(tn.to_string()), ret: Ty::Unit, counter: 0, fn_prefix: String::new(), local_fns: HashMap::new(), extra_defs: vec![], muts: vec![], tparams: HashMap::new() };
        let inner_ty = sub.ty(&inner)?;
        let key = format!("{}::{}#lens", tn, name);
        if self.reg.dyn_fns.borrow().contains_key(&key) {
            return Ok(Some((get, set, inner_ty)));
        }
        let m = match body.stmts.as_slice() {
            [Stmt::Expr(Expr::Match(m), None)] => m,
            _ => return Err(format!("lens {}::{}: body is not a single match", tn, name)),
        };
        let mut env: Env = HashMap::new();
        env.insert("self".into(), Ty::Named(tn.to_string()));
        let mut sub = sub;
        let (root, fields, pty) = sub.place(&m.expr, &env)?;
        let en = match &pty {
            Ty::Named(n) => n.clone(),
            _ => return Err(format!("lens {}::{}: scrutinee is not an enum", tn, name)),
        };
        let place_term = std::iter::once(lean_ident(&root)).chain(fields.iter().map(|f| lean_ident(f))).collect::<Vec<_>>().join(".");
        let mut garms = vec![];
        let mut sarms = vec![];
        for arm in &m.arms {
            if arm.guard.is_some() {
                return Err(format!("lens {}::{}: guards not supported", tn, name));
            }
            // pattern
            let (ptext_named, ptext_wild, variant, binder) = match &arm.pat {
                Pat::TupleStruct(ts) if ts.elems.len() == 1 => {
                    let v = ts.path.segments.last().unwrap().ident.to_string();
                    let b = match &ts.elems[0] {
                        Pat::Ident(i) => Some(i.ident.to_string()),
                        _ => None,
                    };
                    (format!("{}.{} {}", en, lean_ident(&v), b.clone().map(|b| lean_ident(&b)).unwrap_or("_".into())), format!("{}.{} _", en, lean_ident(&v)), Some(v), b)
                }
                Pat::Path(pp) => {
                    let v = pp.path.segments.last().unwrap().ident.to_string();
                    (format!("{}.{}", en, lean_ident(&v)), format!("{}.{}", en, lean_ident(&v)), None, None)
                }
                Pat::Ident(i) if i.subpat.is_none() && self.reg.enums.get(&en).map(|v| v.iter().any(|(n, _)| *n == i.ident.to_string())).unwrap_or(false) => {
                    let v = i.ident.to_string();
                    (format!("{}.{}", en, lean_ident(&v)), format!("{}.{}", en, lean_ident(&v)), None, None)
                }
                Pat::Wild(_) => ("_".to_string(), "_".to_string(), None, None),
                other => return Err(format!("lens {}::{}: unsupported pattern {}", tn, name, quote::quote!(#other))),
            };
            // body: Some(binder) | None
            let body_e = match &*arm.body {
                Expr::Block(b) if b.block.stmts.len() == 1 => match &b.block.stmts[0] {
                    Stmt::Expr(e, None) => e.clone(),
                    _ => return Err(format!("lens {}::{}: unsupported arm body", tn, name)),
                },
                e => e.clone(),
            };
            let some_of: Option<String> = match &body_e {
                Expr::Call(c) if matches!(&*c.func, Expr::Path(p) if p.path.is_ident("Some")) && c.args.len() == 1 => match &c.args[0] {
                    Expr::Path(p) if p.path.segments.len() == 1 => Some(p.path.segments[0].ident.to_string()),
                    _ => return Err(format!("lens {}::{}: `Some` of something other than the bound variable", tn, name)),
                },
                Expr::Path(p) if p.path.is_ident("None") => None,
                _ => return Err(format!("lens {}::{}: arm is neither `Some(x)` nor `None`", tn, name)),
            };
            match some_of {
                Some(x) => {
                    if binder.as_deref() != Some(x.as_str()) {
                        return Err(format!("lens {}::{}: `Some({})` is not the variable the pattern binds", tn, name, x));
                    }
                    let v = variant.unwrap();
                    garms.push(format!("  | {} => some {}", ptext_named, lean_ident(&x)));
                    sarms.push(format!("  | {} => {}", ptext_wild, update_term(&lean_ident(&root), &fields, &format!("({}.{} v)", en, lean_ident(&v)))));
                }
                None => {
                    garms.push(format!("  | {} => none", ptext_wild));
                    sarms.push(format!("  | {} => {}", ptext_wild, lean_ident(&root)));
                }
            }
        }
        let gtext = format!("/-- `{}::{}` (`Option<&mut _>`), read side -/\ndef {} (self : {}) : Option {} :=\n  match {} with\n{}\n", tn, name, get, tn, inner_ty.lean(), place_term, garms.join("\n"));
        let stext = format!("/-- `{}::{}` (`Option<&mut _>`), write-back side: stores `v` where the reference pointed -/\ndef {} (self : {}) (v : {}) : {} :=\n  match {} with\n{}\n", tn, name, set, tn, inner_ty.lean(), tn, place_term, sarms.join("\n"));
        self.extra_defs.push(gtext);
        self.extra_defs.push(stext);
        self.reg.helpers.borrow_mut().push(get.clone());
        self.reg.helpers.borrow_mut().push(set.clone());
        self.reg.dyn_fns.borrow_mut().insert(key, FnSig { lean: get.clone(), params: vec![], ret: Ty::Unit, fallible: false, muts: vec![] });
        Ok(Some((get, set, inner_ty)))
    }

    fn nested_fn(&mut self, f: &ItemFn) -> Res<()> {
        let name = f.sig.ident.to_string();
        let mut sub = FnTr {
            reg: self.reg,
            self_ty: self.self_ty.clone(),
            ret: Ty::Unit,
            counter: 0,
            fn_prefix: self.fn_prefix.clone(),
            local_fns: self.local_fns.clone(),
            extra_defs: vec![],
            muts: vec![],
            tparams: HashMap::new(),
        };
        let lean_name = format!("{}.{}", self.fn_prefix, name);
        let (text, sig) = sub.function(&f.sig, &f.block, &lean_name)?;
        self.extra_defs.extend(sub.extra_defs);
        self.extra_defs.push(text);
        self.reg.helpers.borrow_mut().push(lean_name.clone());
        self.local_fns.insert(name, sig);
        Ok(())
    }

    /// Translate a whole function; returns Lean text and the signature.
    pub fn function(&mut self, sig: &Signature, body: &Block, lean_name: &str) -> Res<(String, FnSig)> {
        // builder P: inside a non-`Result` function translated while the I/O mode is on (`C::ramp_value`), checked
        // primitives stay in `Option` (they are lifted where the I/O action calls the function)
        // builder D2: source-level desugaring of `for x in slice { if c { return v; } }` and of
        // `match (a, x.cmp(&y)) { (P, Ordering::Less) => A, _ => B }` (see `desugar_d2`)
        let body_d2 = desugar_d2(body);
        let body = &body_d2;
        let io_fn = self.reg.io.borrow().mode && crate::phyio::is_io_fn(sig);
        let was = self.reg.io.borrow().in_pure;
        self.reg.io.borrow_mut().in_pure = !io_fn;
        let r = self.function_inner(sig, body, lean_name);
        self.reg.io.borrow_mut().in_pure = was;
        r
    }

    fn function_inner(&mut self, sig: &Signature, body: &Block, lean_name: &str) -> Res<(String, FnSig)> {
        self.reg.ref_binds.borrow_mut().clear();
        // builder O (I/O mode): `-> Result<_, RadioError>` functions are actions of `Rt.Phy.IoM`
        if self.reg.io.borrow().mode && crate::phyio::is_io_fn(sig) {
            return crate::phyio::function_io(self, sig, body, lean_name);
        }
        let mut env: Env = HashMap::new();
        let mut params = vec![];
        self.muts = vec![];
        // builder L: `M: Trait` where the unit models `Trait` as a struct of its observable methods
        // builder N: const generic parameters (`const D: usize`): known while the parameter types are read; one
        // that is the capacity of a `heapless::Vec` parameter becomes a leading parameter of the Lean function
        let mut cgen: Vec<String> = vec![];
        for gp in &sig.generics.params {
            if let GenericParam::Const(c) = gp {
                if let Type::Path(tp) = &c.ty {
                    if let Some(it) = tp.path.get_ident().and_then(|i| int_ty(&i.to_string())) {
                        self.tparams.insert(c.ident.to_string(), Ty::Int(it));
                        cgen.push(c.ident.to_string());
                    }
                }
            }
        }
        for gp in &sig.generics.params {
            if let GenericParam::Type(tp) = gp {
                for b in &tp.bounds {
                    if let TypeParamBound::Trait(tb) = b {
                        let bn = tb.path.segments.last().unwrap().ident.to_string();
                        if self.reg.structs.contains_key(&bn) {
                            self.tparams.insert(tp.ident.to_string(), Ty::Named(bn));
                        }
                    }
                }
            }
        }
        for a in &sig.inputs {
            match a {
                FnArg::Receiver(r) => {
                    let t = Ty::Named(self.self_ty.clone().ok_or("self outside impl")?);
                    env.insert("self".into(), t.clone());
                    params.push(("self".to_string(), t));
                    if r.reference.is_some() && r.mutability.is_some() {
                        self.muts.push("self".to_string());
                    }
                }
                FnArg::Typed(pt) => {
                    if cfg_disabled(&pt.attrs) {
                        continue;
                    }
                    let name = match &*pt.pat {
                        Pat::Ident(i) => i.ident.to_string(),
                        Pat::Wild(_) => "_".to_string(),
                        _ => return Err("unsupported param pattern".into()),
                    };
                    let t = self.ty(&pt.ty)?;
                    if let Type::Reference(rf) = &*pt.ty {
                        if rf.mutability.is_some() {
                            self.muts.push(name.clone());
                        }
                    }
                    env.insert(name.clone(), t.clone());
                    params.push((name, t));
                }
            }
        }
        for cg in cgen.iter().rev() {
            let used = params.iter().any(|(_, t)| matches!(t, Ty::HVec(_, cap) if cap == cg));
            if used {
                let t = self.tparams.get(cg).cloned().unwrap();
                env.insert(cg.clone(), t.clone());
                params.insert(0, (cg.clone(), t));
            }
        }
        let ret = match &sig.output {
            ReturnType::Default => Ty::Unit,
            ReturnType::Type(_, t) => self.ty(t)?,
        };
        self.ret = ret.clone();
        self.fn_prefix = lean_name.to_string();
        // builder A: a function without `&mut` parameters whose body lends a local (`f(&mut x)`, `&mut x[..n]`): statement
        // mode for the body (calls for their effect, loops), nothing added to the result
        let lends = self.muts.is_empty() && quote::quote!(#body).to_string().contains("& mut");
        if lends {
            self.muts = vec![String::new()];
        }
        let seq_r = self.block_tail(&body.stmts, &mut env);
        if lends {
            self.muts = vec![];
        }
        let mut seq = seq_r?;
        // builder L (state passing): every exit returns the value together with the `&mut` parameters
        let mut_tys: Vec<Ty> = self.muts.iter().map(|m| params.iter().find(|(n, _)| n == m).unwrap().1.clone()).collect();
        let rust_ret = ret.clone();
        let ret = ret_shape(&ret, &mut_tys);
        if !self.muts.is_empty() {
            let muts = self.muts.clone();
            let unit = rust_ret == Ty::Unit;
            wrap_exits(&mut seq, &mut self.counter, &|v: &str| exit_term(v, unit, &muts));
        }
        let fallible = seq.fallible();
        let mut out = String::new();
        let ps = params
            .iter()
            .map(|(n, t)| format!("({} : {})", if n == "_" { "_unused".to_string() } else { lean_ident(n) }, t.lean()))
            .collect::<Vec<_>>()
            .join(" ");
        if fallible {
            out.push_str(&format!("def {} {} : Option {} := ", lean_name, ps, ret.lean()));
            render_m(&seq, 1, &mut out);
        } else {
            out.push_str(&format!("def {} {} : {} :=\n  ", lean_name, ps, ret.lean()));
            render_p(&seq, 1, &mut out);
        }
        out.push('\n');
        Ok((out, FnSig { lean: lean_name.to_string(), params, ret: rust_ret, fallible, muts: self.muts.clone() }))
    }

    fn tail_expr(&mut self, e: &Expr, env: &mut Env, st: &mut Stmts) -> Res<Tail> {
        let ret = self.ret.clone();
        self.tail_expr_ty(e, env, st, Some(ret)).map(|(t, _)| t)
    }

    /// Expression whose value is the value of the enclosing seq.
    fn tail_expr_ty(&mut self, e: &Expr, env: &mut Env, st: &mut Stmts, expect: Option<Ty>) -> Res<(Tail, Ty)> {
        match e {
            Expr::If(ei) if has_let(&ei.cond) => {
                // builder L: `if let` / let chain in value position
                let else_e = &ei.else_branch.as_ref().ok_or("if without else in value position")?.1;
                let mut env_e = env.clone();
                let (b, tb) = match &**else_e {
                    Expr::Block(b) => self.block_val(&b.block.stmts, &mut env_e, expect.clone())?,
                    other => {
                        let mut st2 = vec![];
                        let (t, ty) = self.tail_expr_ty(other, &mut env_e, &mut st2, expect.clone())?;
                        (Seq { stmts: st2, tail: t }, ty)
                    }
                };
                let mut ta: Option<Ty> = None;
                let stmt_tail = STMT_TAIL.with(|t| t.get());
                let then_stmts = &ei.then_branch.stmts;
                let ex2 = expect.clone();
                let tail = self.if_chain(
                    &ei.cond,
                    env,
                    &mut |this: &mut Self, env_t: &mut Env| {
                        // builder B: a then-branch with `let x = e?;` lets (early exits) in the function's tail position of
                        // a state-passing method: continue as statements (`block_tail`), where `?` is supported.  Only
                        // taken where the value-block translation refuses, so nothing that translated before changes.
                        let mut env_try = env_t.clone();
                        match this.block_val(then_stmts, &mut env_try, ex2.clone()) {
                            Ok((a, t)) => {
                                *env_t = env_try;
                                ta = Some(t);
                                Ok(a)
                            }
                            Err(e) if e.contains("early exit inside a value block") && !this.muts.is_empty() && !this.reg.io.borrow().mode && stmt_tail => {
                                let a = this.block_tail(then_stmts, env_t)?;
                                ta = Some(ex2.clone().unwrap_or(this.ret.clone()));
                                Ok(a)
                            }
                            Err(e) => Err(e),
                        }
                    },
                    b,
                    st,
                )?;
                let ta = ta.ok_or("if-let: then branch not translated")?;
                let ty = unify(&ta, &tb).or_else(|_| unify_opt(&ta, &tb, &expect))?;
                Ok((tail, ty))
            }
            Expr::If(ei) => {
                let (c, _) = self.cond(&ei.cond, env, st)?;
                let mut env_t = env.clone();
                let (a, ta) = self.block_val(&ei.then_branch.stmts, &mut env_t, expect.clone())?;
                let else_e = &ei.else_branch.as_ref().ok_or("if without else in value position")?.1;
                let mut env_e = env.clone();
                let (b, tb) = match &**else_e {
                    Expr::Block(b) => self.block_val(&b.block.stmts, &mut env_e, expect.clone())?,
                    other => {
                        let mut st2 = vec![];
                        let (t, ty) = self.tail_expr_ty(other, &mut env_e, &mut st2, expect.clone())?;
                        (Seq { stmts: st2, tail: t }, ty)
                    }
                };
                let ty = unify(&ta, &tb).or_else(|_| unify_opt(&ta, &tb, &expect))?;
                Ok((Tail::If(c, Box::new(a), Box::new(b)), ty))
            }
            Expr::Match(m) => self.match_expr(m, env, st, expect),
            Expr::Block(b) => {
                // builder B: as for the then-branch of a tail `if let` — a block (match arm) with `let x = e?;` lets in the
                // function's tail position of a state-passing method continues as statements; only where the value-block
                // translation refuses
                let stmt_tail = STMT_TAIL.with(|t| t.get());
                let mut env_try = env.clone();
                let (s, ty) = match self.block_val(&b.block.stmts, &mut env_try, expect.clone()) {
                    Ok(r) => {
                        *env = env_try;
                        r
                    }
                    Err(e) if e.contains("early exit inside a value block") && !self.muts.is_empty() && !self.reg.io.borrow().mode && stmt_tail => {
                        let seq = self.block_tail(&b.block.stmts, env)?;
                        (seq, expect.clone().unwrap_or(self.ret.clone()))
                    }
                    Err(e) => return Err(e),
                };
                st.extend(s.stmts);
                Ok((s.tail, ty))
            }
            Expr::Return(r) => {
                let e = r.expr.as_ref().ok_or("return without value")?;
                let ret = self.ret.clone();
                let (t, _) = self.tail_expr_ty(e, env, st, Some(ret))?;
                // a `return` in a branch: only sound when this branch is itself in function-tail position,
                // which is how `block_tail` uses it.
                Ok((t, expect.unwrap_or(Ty::Unit)))
            }
            Expr::Macro(m) if ["unreachable", "panic", "unimplemented", "todo"].contains(&path_str(&m.mac.path).as_str()) => {
                Ok((Tail::Panic, expect.unwrap_or(Ty::Unit)))
            }
            Expr::Paren(p) => self.tail_expr_ty(&p.expr, env, st, expect),
            _ => {
                let (term, ty) = self.ex_call_tail(e, env, st, expect)?;
                Ok((term, ty))
            }
        }
    }

    fn ex_call_tail(&mut self, e: &Expr, env: &mut Env, st: &mut Stmts, expect: Option<Ty>) -> Res<(Tail, Ty)> {
        let (term, ty) = self.ex(e, env, st, expect.clone())?;
        let ty = match (&ty, &expect) {
            (Ty::IntLit, Some(t)) => t.clone(),
            _ => ty,
        };
        // builder O (I/O mode): a `Result` in tail position is the action itself
        if matches!(ty, Ty::Res(_)) && self.reg.io.borrow().mode {
            crate::phyio::check_no_pending(self)?;
            return Ok((Tail::ActVal(term), ty));
        }
        Ok((Tail::Val(term), ty))
    }

    /// Block in value position (no early return allowed except as last expression).
    fn block_val(&mut self, stmts: &[Stmt], env: &mut Env, expect: Option<Ty>) -> Res<(Seq, Ty)> {
        // Reuse block_tail machinery with a temporary expected return type.
        let saved = self.ret.clone();
        if let Some(e) = &expect {
            self.ret = e.clone();
        }
        // We need the type of the value; handle the common shapes.
        let mut st: Stmts = vec![];
        let n = stmts.len();
        if n == 0 {
            self.ret = saved;
            return Ok((Seq { stmts: st, tail: Tail::Val("()".into()) }, Ty::Unit));
        }
        // builder U: in function-tail position, `if c { return x; }` before the value: `if c then x else <rest>`
        let tail_pos = TAIL_POS.with(|t| t.get());
        if tail_pos {
            for (i, s0) in stmts[..n - 1].iter().enumerate() {
                if let Stmt::Expr(Expr::If(ei), _) = s0 {
                    let ret_e = match ei.then_branch.stmts.as_slice() {
                        [Stmt::Expr(Expr::Return(r), _)] => r.expr.as_ref(),
                        _ => None,
                    };
                    if let (Some(ret_e), true, false) = (ret_e, ei.else_branch.is_none(), has_let(&ei.cond)) {
                        let r = (|| -> Res<(Seq, Ty)> {
                            TAIL_POS.with(|t| t.set(false));
                            let mut pre = if i > 0 { self.block_tail_prefix(&stmts[..i], env)? } else { vec![] };
                            let (c, _) = self.cond(&ei.cond, env, &mut pre)?;
                            let mut st2 = vec![];
                            let mut env_r = env.clone();
                            let (rt, _) = self.tail_expr_ty(ret_e, &mut env_r, &mut st2, Some(saved.clone()))?;
                            TAIL_POS.with(|t| t.set(true));
                            let (rest, ty) = self.block_val(&stmts[i + 1..], env, expect.clone())?;
                            Ok((Seq { stmts: pre, tail: Tail::If(c, Box::new(Seq { stmts: st2, tail: rt }), Box::new(rest)) }, ty))
                        })();
                        TAIL_POS.with(|t| t.set(tail_pos));
                        self.ret = saved;
                        return r;
                    }
                    break;
                }
            }
        }
        // builder N: `if c { panic!(..) }` before the value: `if c then none else <rest of the block>`
        for (i, s0) in stmts[..n - 1].iter().enumerate() {
            if let Stmt::Expr(Expr::If(ei), _) = s0 {
                let panics = matches!(ei.then_branch.stmts.last(), Some(Stmt::Macro(m)) if ["unreachable", "panic"].contains(&path_str(&m.mac.path).as_str()))
                    || matches!(ei.then_branch.stmts.last(), Some(Stmt::Expr(Expr::Macro(m), _)) if ["unreachable", "panic"].contains(&path_str(&m.mac.path).as_str()));
                if ei.else_branch.is_none() && ei.then_branch.stmts.len() == 1 && panics && !has_let(&ei.cond) {
                    let r = (|| -> Res<(Seq, Ty)> {
                        let mut pre = if i > 0 { self.block_tail_prefix(&stmts[..i], env)? } else { vec![] };
                        let (c, _) = self.cond(&ei.cond, env, &mut pre)?;
                        let (rest, ty) = self.block_val(&stmts[i + 1..], env, expect.clone())?;
                        Ok((Seq { stmts: pre, tail: Tail::If(c, Box::new(Seq { stmts: vec![], tail: Tail::Panic }), Box::new(rest)) }, ty))
                    })();
                    self.ret = saved;
                    return r;
                }
            }
        }
        // all but last through block_tail-like processing: emulate by translating prefix then last expr
        let (prefix, last) = stmts.split_at(n - 1);
        let res = (|| -> Res<(Seq, Ty)> {
            if !prefix.is_empty() {
                // translate prefix statements by wrapping: we call block_tail on prefix + unit, then drop the tail
                TAIL_POS.with(|t| t.set(false));
                let pseq = self.block_tail_prefix(prefix, env);
                TAIL_POS.with(|t| t.set(tail_pos));
                st.extend(pseq?);
            }
            match &last[0] {
                // builder V: `loop { .. return v; .. }` as the value of a block in the function's tail position
                Stmt::Expr(Expr::Loop(l), _) if !self.muts.is_empty() && self.ret == saved => {
                    let t = self.loop_fuel_loop(l, prefix, env, &mut st)?;
                    Ok((Seq { stmts: std::mem::take(&mut st), tail: t }, saved.clone()))
                }
                Stmt::Expr(e, None) => {
                    let (t, ty) = self.tail_expr_ty(e, env, &mut st, expect.clone())?;
                    Ok((Seq { stmts: std::mem::take(&mut st), tail: t }, ty))
                }
                Stmt::Expr(Expr::Return(r), Some(_)) => {
                    let e = r.expr.as_ref().ok_or("return without value")?;
                    let ret = saved.clone();
                    let (t, _) = self.tail_expr_ty(e, env, &mut st, Some(ret))?;
                    Ok((Seq { stmts: std::mem::take(&mut st), tail: t }, expect.clone().unwrap_or(Ty::Unit)))
                }
                Stmt::Macro(m) if ["unreachable", "panic", "unimplemented", "todo"].contains(&path_str(&m.mac.path).as_str()) => {
                    Ok((Seq { stmts: std::mem::take(&mut st), tail: Tail::Panic }, expect.clone().unwrap_or(Ty::Unit)))
                }
                other => {
                    let pseq = self.block_tail_prefix(std::slice::from_ref(other), env)?;
                    st.extend(pseq);
                    Ok((Seq { stmts: std::mem::take(&mut st), tail: Tail::Val("()".into()) }, Ty::Unit))
                }
            }
        })();
        self.ret = saved;
        res
    }

    /// Translate statements none of which may end the function; returns the lets.
    fn block_tail_prefix(&mut self, stmts: &[Stmt], env: &mut Env) -> Res<Stmts> {
        // builder N: the last statement of a prefix is a statement (an `if` / `match` written without `;`
        // is not the value of the block)
        let mut owned: Vec<Stmt> = stmts.to_vec();
        if let Some(Stmt::Expr(e, None)) = owned.last().cloned() {
            if matches!(e, Expr::If(_) | Expr::Match(_) | Expr::Block(_) | Expr::While(_) | Expr::ForLoop(_)) {
                let k = owned.len() - 1;
                owned[k] = Stmt::Expr(e, Some(Default::default()));
            }
        }
        let stmts = &owned[..];
        let seq = self.block_tail(stmts, env)?;
        match seq.tail {
            Tail::Val(ref v) if v == "()" => Ok(seq.stmts),
            _ => Err("early exit inside a value block is not supported".into()),
        }
    }

    fn cond(&mut self, e: &Expr, env: &mut Env, st: &mut Stmts) -> Res<(String, Ty)> {
        if let Expr::Let(_) = e {
            return Err("if-let conditions not supported here".into());
        }
        let (t, ty) = self.ex(e, env, st, Some(Ty::Bool))?;
        if ty != Ty::Bool {
            return Err(format!("condition is not bool: {:?}", ty));
        }
        Ok((t, ty))
    }

    pub(crate) fn pat(&mut self, p: &Pat, ty: &Ty, env: &mut Env) -> Res<String> {
        match p {
            Pat::Ident(i) if i.ident == "None" => Ok("none".into()),
            Pat::Ident(i) => {
                let n = i.ident.to_string();
                // unit enum variant used as a pattern without path? treat as binding
                env.insert(n.clone(), ty.clone());
                self.reg.ref_binds.borrow_mut().remove(&n);
                Ok(lean_ident(&n))
            }
            Pat::Wild(_) => Ok("_".into()),
            Pat::Type(pt) => self.pat(&pt.pat, ty, env),
            Pat::Reference(r) => self.pat(&r.pat, ty, env),
            Pat::Paren(pp) => self.pat(&pp.pat, ty, env),
            Pat::TupleStruct(ts) => {
                let name = path_str(&ts.path);
                if name == "Some" || name == "Ok" {
                    let inner = match ty {
                        Ty::Opt(t) => (**t).clone(),
                        _ => return Err(format!("Some pattern on non-option {:?}", ty)),
                    };
                    let ip = self.pat(&ts.elems[0], &inner, env)?;
                    Ok(format!("some {}", paren(&ip)))
                } else if name == "Err" && matches!(ty, Ty::Opt(_)) && matches!(ts.elems.first(), Some(Pat::Wild(_)) | Some(Pat::Ident(_))) {
                    // (a bound error value is not put in scope: code that reads it does not translate)
                    // builder N: `Err(_)` of a `Result` translated as an `Option` (the error value is not bound)
                    Ok("none".into())
                } else if ts.path.segments.len() >= 2 || matches!(ty, Ty::Named(tn) if self.reg.enum_data.get(tn).map(|vs| vs.iter().any(|(v, _)| *v == name)).unwrap_or(false)) {
                    // builder N: a variant with a payload of an enum the unit models (`EnumData`)
                    // builder R: also named without its enum (`use DownlinkMacCommand::*`), and `V(..)`
                    let n = ts.path.segments.len();
                    let (en, vn) = if n >= 2 {
                        (ts.path.segments[n - 2].ident.to_string(), ts.path.segments[n - 1].ident.to_string())
                    } else {
                        (match ty { Ty::Named(tn) => tn.clone(), _ => unreachable!() }, name.clone())
                    };
                    let en = if en == "Self" { self.self_ty.clone().unwrap_or_default() } else { en };
                    if !matches!(ty, Ty::Named(tn) if *tn == en) {
                        return Err(format!("pattern {} on {:?}", name, ty));
                    }
                    let tys = self.reg.enum_data.get(&en).and_then(|vs| vs.iter().find(|(v, _)| *v == vn)).map(|(_, t)| t.clone()).ok_or(format!("unsupported tuple-struct pattern {}", name))?;
                    if ts.elems.len() == 1 && matches!(ts.elems[0], Pat::Rest(_)) {
                        return Ok(format!(".{} {}", lean_ident(&vn), vec!["_"; tys.len()].join(" ")));
                    }
                    if tys.len() != ts.elems.len() {
                        return Err(format!("pattern {}: arity", name));
                    }
                    let mut ps = vec![];
                    let scrut = self.reg.mut_scrut.borrow_mut().take();
                    for (e, t) in ts.elems.iter().zip(tys.iter()) {
                        ps.push(paren(&self.pat(e, t, env)?));
                    }
                    // builder W: `match &mut PLACE { Enum::V(x, ..) => .. }`: the variables are references into PLACE
                    if let Some((root, fields)) = scrut {
                        let mut vars = vec![];
                        let all_wild = ts.elems.iter().all(|e| matches!(e, Pat::Wild(_)));
                        for e in ts.elems.iter() {
                            match e {
                                Pat::Ident(i) if i.subpat.is_none() => vars.push(i.ident.to_string()),
                                Pat::Wild(_) if all_wild => {}
                                _ => return Err(format!("pattern {} on `&mut` place: only plain variables are supported", name)),
                            }
                        }
                        for v in &vars {
                            self.reg.ref_binds.borrow_mut().insert(v.clone(), (root.clone(), fields.clone(), format!("{}.{}", en, lean_ident(&vn)), vars.clone()));
                        }
                    }
                    Ok(format!(".{} {}", lean_ident(&vn), ps.join(" ")))
                } else {
                    Err(format!("unsupported tuple-struct pattern {}", name))
                }
            }
            Pat::Path(pp) => {
                let name = path_str(&pp.path);
                if name == "None" {
                    return Ok("none".into());
                }
                let var = pp.path.segments.last().unwrap().ident.to_string();
                Ok(format!(".{}", lean_ident(&var)))
            }
            Pat::Tuple(t) => {
                let tys = match ty {
                    Ty::Tuple(ts) => ts.clone(),
                    _ => return Err("tuple pattern on non-tuple".into()),
                };
                let ps = t.elems.iter().zip(tys.iter()).map(|(p, t)| self.pat(p, t, env)).collect::<Res<Vec<_>>>()?;
                Ok(format!("({})", ps.join(", ")))
            }
            Pat::Or(o) => {
                let ps = o.cases.iter().map(|c| self.pat(c, ty, env)).collect::<Res<Vec<_>>>()?;
                Ok(ps.join(" | "))
            }
            Pat::Lit(l) => match &l.lit {
                Lit::Int(i) => Ok(i.base10_digits().to_string()),
                Lit::Bool(b) => Ok(if b.value { "true".into() } else { "false".into() }),
                _ => Err("unsupported literal pattern".into()),
            },
            _ => Err(format!("unsupported pattern {}", quote::quote!(#p))),
        }
    }

    /// condition under which an integer pattern matches `sc`
    fn int_pat_cond(&mut self, p: &Pat, sc: &str, env: &mut Env, sty: &Ty) -> Res<Option<String>> {
        match p {
            Pat::Lit(l) => {
                let mut st = vec![];
                let (t, _) = self.ex(&Expr::Lit(ExprLit { attrs: vec![], lit: l.lit.clone() }), env, &mut st, Some(sty.clone()))?;
                Ok(Some(format!("{} = {}", sc, t)))
            }
            Pat::Range(r) => {
                let mut parts = vec![];
                let mut st = vec![];
                if let Some(s) = &r.start {
                    let (t, _) = self.ex(s, env, &mut st, Some(sty.clone()))?;
                    parts.push(format!("{} ≤ {}", t, sc));
                }
                if let Some(e) = &r.end {
                    let (t, _) = self.ex(e, env, &mut st, Some(sty.clone()))?;
                    match r.limits {
                        RangeLimits::Closed(_) => parts.push(format!("{} ≤ {}", sc, t)),
                        RangeLimits::HalfOpen(_) => parts.push(format!("{} < {}", sc, t)),
                    }
                }
                if !st.is_empty() {
                    return Err("fallible range pattern".into());
                }
                Ok(Some(parts.join(" ∧ ")))
            }
            Pat::Or(o) => {
                let mut cs = vec![];
                for c in &o.cases {
                    match self.int_pat_cond(c, sc, env, sty)? {
                        Some(c) => cs.push(format!("({})", c)),
                        None => return Ok(None),
                    }
                }
                Ok(Some(cs.join(" ∨ ")))
            }
            Pat::Path(pp) => {
                // named constant
                let name = path_str(&pp.path);
                let last = pp.path.segments.last().unwrap().ident.to_string();
                if let Some((_, lean)) = self.reg.consts.get(&last).or_else(|| self.reg.consts.get(&name)) {
                    Ok(Some(format!("{} = {}", sc, lean)))
                } else {
                    Err(format!("unknown constant pattern {}", name))
                }
            }
            Pat::Wild(_) => Ok(None),
            Pat::Ident(i) => {
                env.insert(i.ident.to_string(), sty.clone());
                Ok(None)
            }
            Pat::Paren(pp) => self.int_pat_cond(&pp.pat, sc, env, sty),
            _ => Err(format!("unsupported int pattern {}", quote::quote!(#p))),
        }
    }

    /// builder P: `match (a, b) { (Enum::V, lo..=hi) => .., .. }` — a tuple of expressions matched against tuple
    /// patterns with integer ranges / literals becomes an if-chain over the components (first arm that matches)
    fn match_tuple_chain(&mut self, m: &ExprMatch, env: &mut Env, st: &mut Stmts, expect: Option<Ty>) -> Res<Option<(Tail, Ty)>> {
        fn has_range(p: &Pat) -> bool {
            match p {
                Pat::Range(_) => true,
                Pat::Tuple(t) => t.elems.iter().any(has_range),
                Pat::Paren(pp) => has_range(&pp.pat),
                Pat::Or(o) => o.cases.iter().any(has_range),
                _ => false,
            }
        }
        let comps = match &*m.expr {
            Expr::Tuple(t) => t,
            _ => return Ok(None),
        };
        if !m.arms.iter().any(|a| matches!(&a.pat, Pat::Tuple(_)) && has_range(&a.pat)) || m.arms.iter().any(|a| a.guard.is_some()) {
            return Ok(None);
        }
        let mut cs: Vec<(String, Ty)> = vec![];
        for e in comps.elems.iter() {
            let (c, ty) = self.ex(e, env, st, None)?;
            let c = if c.chars().all(|ch| ch.is_alphanumeric() || ch == '_' || ch == '.') {
                c
            } else {
                let n = self.fresh();
                st.push((n.clone(), Rhs::Pure(c)));
                n
            };
            cs.push((c, ty));
        }
        let mut res_ty: Option<Ty> = None;
        let mut arms: Vec<(Option<String>, Seq)> = vec![];
        for arm in &m.arms {
            let mut env_a = env.clone();
            let mut pre: Stmts = vec![];
            let cond: Option<String> = match &arm.pat {
                Pat::Wild(_) => None,
                Pat::Tuple(t) if t.elems.len() == cs.len() => {
                    let mut parts = vec![];
                    for (sub, (c, ty)) in t.elems.iter().zip(cs.iter()) {
                        match (sub, ty) {
                            (Pat::Wild(_), _) => {}
                            (Pat::Ident(i), _) if i.ident != "None" => {
                                env_a.insert(i.ident.to_string(), ty.clone());
                                pre.push((lean_ident(&i.ident.to_string()), Rhs::Pure(c.clone())));
                            }
                            (_, Ty::Int(_)) | (_, Ty::IntLit) => {
                                if let Some(x) = self.int_pat_cond(sub, c, &mut env_a, ty)? {
                                    parts.push(format!("({})", x));
                                }
                            }
                            (Pat::Path(pp), Ty::Named(tn)) => {
                                let var = pp.path.segments.last().unwrap().ident.to_string();
                                parts.push(format!("{} = {}.{}", c, tn, lean_ident(&var)));
                            }
                            (Pat::Lit(l), Ty::Bool) => match &l.lit {
                                Lit::Bool(b) => parts.push(format!("{} = {}", c, b.value)),
                                _ => return Err("tuple match: unsupported literal".into()),
                            },
                            _ => return Err(format!("tuple match: unsupported component pattern {}", quote::quote!(#sub))),
                        }
                    }
                    if parts.is_empty() {
                        None
                    } else {
                        Some(parts.join(" ∧ "))
                    }
                }
                other => return Err(format!("tuple match: unsupported arm pattern {}", quote::quote!(#other))),
            };
            let mut stb: Stmts = pre;
            let (t, ty) = self.tail_expr_ty(&arm.body, &mut env_a, &mut stb, expect.clone())?;
            if !matches!(t, Tail::Panic) {
                res_ty = Some(match res_ty.take() {
                    None => ty,
                    Some(o) => unify(&o, &ty).or_else(|_| unify_opt(&o, &ty, &None))?,
                });
            }
            arms.push((cond, Seq { stmts: stb, tail: t }));
        }
        let mut acc: Option<Seq> = None;
        for (c, s) in arms.into_iter().rev() {
            acc = Some(match (c, acc) {
                (None, _) => s,
                (Some(c), Some(rest)) => Seq { stmts: vec![], tail: Tail::If(format!("decide ({})", c), Box::new(s), Box::new(rest)) },
                (Some(c), None) => Seq {
                    stmts: vec![],
                    tail: Tail::If(format!("decide ({})", c), Box::new(s), Box::new(Seq { stmts: vec![], tail: Tail::Panic })),
                },
            });
        }
        let seq = acc.ok_or("empty match")?;
        st.extend(seq.stmts);
        Ok(Some((seq.tail, res_ty.or(expect).unwrap_or(Ty::Unit))))
    }

    fn match_expr(&mut self, m: &ExprMatch, env: &mut Env, st: &mut Stmts, expect: Option<Ty>) -> Res<(Tail, Ty)> {
        if let Some(r) = self.match_tuple_chain(m, env, st, expect.clone())? {
            return Ok(r);
        }
        let (sc, sty) = self.ex(&m.expr, env, st, None)?;
        let mut res_ty: Option<Ty> = None;
        let mut upd = |t: Ty, res_ty: &mut Option<Ty>| -> Res<()> {
            *res_ty = Some(match res_ty.take() {
                None => t,
                Some(o) => unify(&o, &t).or_else(|_| unify_opt(&o, &t, &None))?,
            });
            Ok(())
        };
        if matches!(sty, Ty::Int(_) | Ty::IntLit) {
            // integer scrutinee → if-chain
            let sc_name = if sc.chars().all(|c| c.is_alphanumeric() || c == '_') {
                sc.clone()
            } else {
                let n = self.fresh();
                st.push((n.clone(), Rhs::Pure(sc.clone())));
                n
            };
            let mut arms: Vec<(Option<String>, Seq)> = vec![];
            for arm in &m.arms {
                let mut env_a = env.clone();
                let mut c = self.int_pat_cond(&arm.pat, &sc_name, &mut env_a, &sty)?;
                let mut pre: Stmts = vec![];
                if let Pat::Ident(i) = &arm.pat {
                    pre.push((lean_ident(&i.ident.to_string()), Rhs::Pure(sc_name.clone())));
                }
                if let Some((_, g)) = &arm.guard {
                    let mut gst = vec![];
                    let (gt, _) = self.ex(g, &mut env_a, &mut gst, Some(Ty::Bool))?;
                    if !gst.is_empty() {
                        return Err("fallible guard".into());
                    }
                    let gt = match &arm.pat {
                        Pat::Ident(i) => format!("(let {} := {}; {})", lean_ident(&i.ident.to_string()), sc_name, gt),
                        _ => gt,
                    };
                    c = Some(match c {
                        Some(c) => format!("({}) ∧ {} = true", c, gt),
                        None => format!("{} = true", gt),
                    });
                }
                let mut stb: Stmts = pre;
                let (t, ty) = self.tail_expr_ty(&arm.body, &mut env_a, &mut stb, expect.clone())?;
                if !matches!(t, Tail::Panic) {
                    upd(ty, &mut res_ty)?;
                }
                arms.push((c, Seq { stmts: stb, tail: t }));
            }
            // build nested ifs from the back
            let mut acc: Option<Seq> = None;
            for (c, s) in arms.into_iter().rev() {
                acc = Some(match (c, acc) {
                    (None, _) => s,
                    (Some(c), Some(rest)) => Seq { stmts: vec![], tail: Tail::If(format!("decide ({})", c), Box::new(s), Box::new(rest)) },
                    (Some(c), None) => Seq {
                        stmts: vec![],
                        tail: Tail::If(format!("decide ({})", c), Box::new(s), Box::new(Seq { stmts: vec![], tail: Tail::Panic })),
                    },
                });
            }
            let seq = acc.ok_or("empty match")?;
            st.extend(seq.stmts);
            return Ok((seq.tail, res_ty.or(expect).unwrap_or(Ty::Unit)));
        }
        // structural match
        let has_guard = m.arms.iter().any(|a| a.guard.is_some());
        let mut arms = vec![];
        if has_guard {
            // supported shape: guarded arms followed by a final wildcard arm
            let last = m.arms.last().unwrap();
            if last.guard.is_some() || !matches!(last.pat, Pat::Wild(_)) {
                return Err("match guards need a final `_` arm".into());
            }
            let mut env_w = env.clone();
            let mut stw = vec![];
            let (wt, wty) = self.tail_expr_ty(&last.body, &mut env_w, &mut stw, expect.clone())?;
            if !matches!(wt, Tail::Panic) {
                upd(wty, &mut res_ty)?;
            }
            let wseq = Seq { stmts: stw, tail: wt };
            for arm in &m.arms[..m.arms.len() - 1] {
                let mut env_a = env.clone();
                let p = self.pat_scrut(&m.expr, &arm.pat, &sty, &mut env_a)?;
                let mut stb = vec![];
                let (t, ty) = self.tail_expr_ty(&arm.body, &mut env_a, &mut stb, expect.clone())?;
                if !matches!(t, Tail::Panic) {
                    upd(ty, &mut res_ty)?;
                }
                let body = Seq { stmts: stb, tail: t };
                let seq = match &arm.guard {
                    None => body,
                    Some((_, g)) => {
                        let mut gst = vec![];
                        let (gt, _) = self.ex(g, &mut env_a, &mut gst, Some(Ty::Bool))?;
                        Seq { stmts: gst, tail: Tail::If(gt, Box::new(body), Box::new(wseq.clone())) }
                    }
                };
                arms.push((p, seq));
            }
            arms.push(("_".to_string(), wseq));
        } else {
            for arm in &m.arms {
                let mut env_a = env.clone();
                let p = self.pat_scrut(&m.expr, &arm.pat, &sty, &mut env_a)?;
                let mut stb = vec![];
                // builder W: without an expectation from outside, an `Option` / `Result` type an earlier arm yielded is the
                // expectation of the later ones (`Joined(s) => Ok(..), Otaa(_) => Err(..)`)
                let expect_a = match (&expect, &res_ty) {
                    (None, Some(t @ Ty::Opt(_))) => Some(t.clone()),
                    _ => expect.clone(),
                };
                let (t, ty) = self.tail_expr_ty(&arm.body, &mut env_a, &mut stb, expect_a)?;
                if !matches!(t, Tail::Panic) {
                    upd(ty, &mut res_ty)?;
                }
                arms.push((p, Seq { stmts: stb, tail: t }));
            }
        }
        Ok((Tail::Match(sc, arms), res_ty.or(expect).unwrap_or(Ty::Unit)))
    }

    fn binop(&mut self, l: &Expr, op: &BinOp, r: &Expr, env: &mut Env, st: &mut Stmts, expect: Option<Ty>) -> Res<(String, Ty)> {
        use BinOp::*;
        match op {
            And(_) | Or(_) => {
                let (a, _) = self.ex(l, env, st, Some(Ty::Bool))?;
                let mut st2 = vec![];
                let (b, _) = self.ex(r, env, &mut st2, Some(Ty::Bool))?;
                let is_and = matches!(op, And(_));
                if st2.is_empty() {
                    return Ok((format!("({} {} {})", a, if is_and { "&&" } else { "||" }, b), Ty::Bool));
                }
                let n = self.fresh();
                // builder R: the right operand may update variables in scope (a call with `&mut` arguments that is
                // only evaluated when the left operand does not decide): they leave the branch with the value
                let mut written: Vec<String> = vec![];
                for (pat, _) in &st2 {
                    for w in pat.split(|c: char| !(c.is_alphanumeric() || c == '_' || c == '«' || c == '»')) {
                        let w = w.trim_matches(|c| c == '«' || c == '»');
                        if !w.is_empty() && env.contains_key(w) && !written.contains(&w.to_string()) {
                            written.push(w.to_string());
                        }
                    }
                }
                if !written.is_empty() {
                    let tup = |v: &str| format!("({}, {})", v, written.iter().map(|w| lean_ident(w)).collect::<Vec<_>>().join(", "));
                    let rhs_seq = Seq { stmts: st2, tail: Tail::Val(tup(&b)) };
                    let const_seq = Seq { stmts: vec![], tail: Tail::Val(tup(if is_and { "false" } else { "true" })) };
                    let tail = if is_and {
                        Tail::If(a, Box::new(rhs_seq), Box::new(const_seq))
                    } else {
                        Tail::If(a, Box::new(const_seq), Box::new(rhs_seq))
                    };
                    st.push((tup(&n), Rhs::Br(Box::new(tail))));
                    return Ok((n, Ty::Bool));
                }
                let rhs_seq = Seq { stmts: st2, tail: Tail::Val(b) };
                let const_seq = Seq { stmts: vec![], tail: Tail::Val(if is_and { "false".into() } else { "true".into() }) };
                let tail = if is_and {
                    Tail::If(a, Box::new(rhs_seq), Box::new(const_seq))
                } else {
                    Tail::If(a, Box::new(const_seq), Box::new(rhs_seq))
                };
                st.push((n.clone(), Rhs::Br(Box::new(tail))));
                return Ok((n, Ty::Bool));
            }
            _ => {}
        }
        let cmp = matches!(op, Eq(_) | Ne(_) | Lt(_) | Le(_) | Gt(_) | Ge(_));
        let shift = matches!(op, Shl(_) | Shr(_));
        // builder P (I/O mode): `1 << 6` between unsuffixed literals whose type is only fixed later (a component of a
        // tuple-valued match): folded, the literal stays open (rustc rejects an overflowing constant shift)
        if shift && self.reg.io.borrow().mode && !matches!(expect, Some(Ty::Int(_))) {
            fn lit(e: &Expr) -> Option<i128> {
                match e {
                    Expr::Lit(ExprLit { lit: Lit::Int(i), .. }) if i.suffix().is_empty() => i.base10_parse::<i128>().ok(),
                    Expr::Paren(p) => lit(&p.expr),
                    _ => None,
                }
            }
            if let (Some(a), Some(b)) = (lit(l), lit(r)) {
                if (0..64).contains(&b) && a >= 0 {
                    let v = if matches!(op, Shl(_)) { a << b } else { a >> b };
                    return Ok((v.to_string(), Ty::IntLit));
                }
            }
        }
        let exp_operand = if cmp || shift { None } else { expect.clone() };
        let (a, ta) = self.ex(l, env, st, exp_operand.clone())?;
        let (b, tb) = self.ex(r, env, st, if shift { None } else if matches!(ta, Ty::Int(_)) { Some(ta.clone()) } else { exp_operand })?;
        if cmp {
            if matches!(ta, Ty::Int(_) | Ty::IntLit) {
                unify(&ta, &tb)?;
                let o = match op {
                    Eq(_) => "=",
                    Ne(_) => "≠",
                    Lt(_) => "<",
                    Le(_) => "≤",
                    Gt(_) => ">",
                    Ge(_) => "≥",
                    _ => unreachable!(),
                };
                return Ok((format!("decide ({} {} {})", a, o, b), Ty::Bool));
            }
            // enums / bools / options: use == / !=
            let o = match op {
                Eq(_) => "==",
                Ne(_) => "!=",
                _ => return Err("ordering on non-integers".into()),
            };
            return Ok((format!("({} {} {})", a, o, b), Ty::Bool));
        }
        if ta == Ty::Bool {
            let o = match op {
                BitAnd(_) => "&&",
                BitOr(_) => "||",
                BitXor(_) => "!=",
                _ => return Err("arithmetic on bool".into()),
            };
            return Ok((format!("({} {} {})", a, o, b), Ty::Bool));
        }
        let ty = if shift {
            match (&ta, &expect) {
                (Ty::IntLit, Some(t @ Ty::Int(_))) => t.clone(),
                (Ty::IntLit, _) => Ty::Int("i32"),
                _ => ta.clone(),
            }
        } else {
            let u = unify(&ta, &tb)?;
            match (&u, &expect) {
                (Ty::IntLit, Some(t @ Ty::Int(_))) => t.clone(),
                (Ty::IntLit, _) => Ty::Int("i32"),
                _ => u,
            }
        };
        let t = match &ty {
            Ty::Int(t) => *t,
            _ => return Err(format!("arithmetic on {:?}", ty)),
        };
        let term = match op {
            Add(_) => self.act(st, format!("Rt.ck .{} ({} + {})", t, a, b)),
            Sub(_) => self.act(st, format!("Rt.ck .{} ({} - {})", t, a, b)),
            Mul(_) => self.act(st, format!("Rt.ck .{} ({} * {})", t, a, b)),
            Div(_) => self.act(st, format!("Rt.divC .{} {} {}", t, paren(&a), paren(&b))),
            Rem(_) => self.act(st, format!("Rt.remC .{} {} {}", t, paren(&a), paren(&b))),
            Shl(_) => self.act(st, format!("Rt.shlC .{} {} {}", t, paren(&a), paren(&b))),
            Shr(_) => self.act(st, format!("Rt.shrC .{} {} {}", t, paren(&a), paren(&b))),
            BitAnd(_) => format!("(Rt.andI {} {})", paren(&a), paren(&b)),
            BitOr(_) => format!("(Rt.orI {} {})", paren(&a), paren(&b)),
            BitXor(_) => format!("(Rt.xorI {} {})", paren(&a), paren(&b)),
            _ => return Err("unsupported binary operator".into()),
        };
        Ok((term, ty))
    }

    /// Translate an expression; fallible sub-computations are hoisted into `st`.
    pub fn ex(&mut self, e: &Expr, env: &mut Env, st: &mut Stmts, expect: Option<Ty>) -> Res<(String, Ty)> {
        let prev = TAIL_POS.with(|t| t.replace(false));
        let prev_stmt_tail = STMT_TAIL.with(|t| t.replace(false));
        let r = self.ex_inner(e, env, st, expect);
        TAIL_POS.with(|t| t.set(prev));
        STMT_TAIL.with(|t| t.set(prev_stmt_tail));
        r
    }

    fn ex_inner(&mut self, e: &Expr, env: &mut Env, st: &mut Stmts, expect: Option<Ty>) -> Res<(String, Ty)> {
        match e {
            Expr::Lit(l) => match &l.lit {
                Lit::Int(i) => {
                    let v: i128 = i.base10_parse::<i128>().map_err(|e| e.to_string())?;
                    let ty = if i.suffix().is_empty() {
                        match &expect {
                            Some(t @ Ty::Int(_)) => t.clone(),
                            _ => Ty::IntLit,
                        }
                    } else {
                        Ty::Int(int_ty(i.suffix()).ok_or("bad int suffix")?)
                    };
                    Ok((v.to_string(), ty))
                }
                Lit::Bool(b) => Ok((if b.value { "true".into() } else { "false".into() }, Ty::Bool)),
                _ => Err("unsupported literal".into()),
            },
            Expr::Paren(p) => self.ex(&p.expr, env, st, expect),
            // builder O: `.await` is transparent; `?` binds a `Result` action (I/O mode)
            Expr::Await(a) => self.ex(&a.base, env, st, expect),
            Expr::Try(t) if self.reg.io.borrow().mode => crate::phyio::try_expr(self, t, env, st),
            Expr::Group(g) => self.ex(&g.expr, env, st, expect),
            Expr::Reference(r) => self.ex(&r.expr, env, st, expect),
            Expr::Unary(u) => match u.op {
                UnOp::Deref(_) => self.ex(&u.expr, env, st, expect),
                UnOp::Neg(_) => {
                    if let Expr::Lit(ExprLit { lit: Lit::Int(i), .. }) = &*u.expr {
                        let v: i128 = i.base10_parse::<i128>().map_err(|e| e.to_string())?;
                        let ty = if i.suffix().is_empty() {
                            match &expect {
                                Some(t @ Ty::Int(_)) => t.clone(),
                                _ => Ty::IntLit,
                            }
                        } else {
                            Ty::Int(int_ty(i.suffix()).unwrap())
                        };
                        return Ok((format!("(-{})", v), ty));
                    }
                    let (a, ta) = self.ex(&u.expr, env, st, expect)?;
                    match ta {
                        Ty::Int(t) => Ok((self.act(st, format!("Rt.ck .{} (-{})", t, paren(&a))), Ty::Int(t))),
                        _ => Err("negation of non-int".into()),
                    }
                }
                UnOp::Not(_) => {
                    let (a, ta) = self.ex(&u.expr, env, st, expect)?;
                    match ta {
                        Ty::Bool => Ok((format!("(!{})", paren(&a)), Ty::Bool)),
                        Ty::Int(t) => Ok((format!("(Rt.notI .{} {})", t, paren(&a)), Ty::Int(t))),
                        _ => Err("`!` on unsupported type".into()),
                    }
                }
                _ => Err("unsupported unary".into()),
            },
            Expr::Binary(b) => self.binop(&b.left, &b.op, &b.right, env, st, expect),
            Expr::Cast(c) => {
                let to = self.ty(&c.ty)?;
                let (a, ta) = self.ex(&c.expr, env, st, None)?;
                match (&ta, &to) {
                    (Ty::Bool, Ty::Int(_)) => Ok((format!("(Rt.b2i {})", paren(&a)), to)),
                    (Ty::IntLit, Ty::Int(t)) => Ok((format!("(Rt.wrap .{} {})", t, paren(&a)), to.clone())),
                    (Ty::Int(f), Ty::Int(t)) => {
                        if widening(f, t) {
                            Ok((a, to))
                        } else {
                            Ok((format!("(Rt.wrap .{} {})", t, paren(&a)), to.clone()))
                        }
                    }
                    (Ty::Named(n), Ty::Int(t)) => {
                        // enum with explicit discriminants
                        if self.reg.enums.get(n).map(|v| v.iter().all(|(_, d)| d.is_some())).unwrap_or(false) {
                            Ok((format!("(Rt.wrap .{} ({}.toInt {}))", t, n, paren(&a)), to.clone()))
                        } else {
                            Err(format!("cast of enum {} without discriminants", n))
                        }
                    }
                    _ => Err(format!("unsupported cast {:?} -> {:?}", ta, to)),
                }
            }
            Expr::Path(p) => {
                let segs: Vec<String> = p.path.segments.iter().map(|s| s.ident.to_string()).collect();
                if segs.len() == 1 {
                    let n = &segs[0];
                    if let Some(t) = env.get(n) {
                        return Ok((lean_ident(n), t.clone()));
                    }
                    if let Some((t, lean)) = self.reg.consts.get(n) {
                        return Ok((lean.clone(), t.clone()));
                    }
                    if n == "None" {
                        return Ok(("none".into(), expect.unwrap_or(Ty::Opt(Box::new(Ty::IntLit)))));
                    }
                    return Err(format!("unknown identifier {}", n));
                }
                let ty_name = if segs[segs.len() - 2] == "Self" {
                    self.self_ty.clone().ok_or("Self outside impl")?
                } else {
                    segs[segs.len() - 2].clone()
                };
                let last = &segs[segs.len() - 1];
                if let Some(it) = int_ty(&ty_name) {
                    let (lo, hi) = int_range(it);
                    return match last.as_str() {
                        "MAX" => Ok((hi.to_string(), Ty::Int(it))),
                        "MIN" => Ok((format!("({})", lo), Ty::Int(it))),
                        "BITS" => Ok(((if hi > (1 << 40) { 64 } else if hi > 70000 { 32 } else if hi > 300 { 16 } else { 8 }).to_string(), Ty::Int("u32"))),
                        _ => Err(format!("unknown int const {}", last)),
                    };
                }
                if let Some(vars) = self.reg.enums.get(&ty_name) {
                    if vars.iter().any(|(v, _)| v == last) {
                        return Ok((format!("{}.{}", ty_name, lean_ident(last)), Ty::Named(ty_name)));
                    }
                }
                let key = format!("{}::{}", ty_name, last);
                if let Some((t, lean)) = self.reg.consts.get(&key).or_else(|| self.reg.consts.get(last)) {
                    return Ok((lean.clone(), t.clone()));
                }
                Err(format!("unknown path {}", segs.join("::")))
            }
            Expr::Field(f) => {
                let (b, tb) = self.ex(&f.base, env, st, None)?;
                match (&f.member, &tb) {
                    (Member::Named(id), Ty::Named(sn)) => {
                        let fields = self.reg.structs.get(sn).ok_or(format!("field access on non-struct {}", sn))?;
                        let fname = id.to_string();
                        let fty = fields.iter().find(|(n, _)| *n == fname).ok_or(format!("no field {} in {}", fname, sn))?.1.clone();
                        Ok((format!("{}.{}", paren(&b), lean_ident(&fname)), fty))
                    }
                    (Member::Unnamed(i), Ty::Named(sn)) => {
                        // builder N: the field of a newtype
                        let fields = self.reg.structs.get(sn).ok_or(format!("field access on non-struct {}", sn))?;
                        let fname = i.index.to_string();
                        let fty = fields.iter().find(|(n, _)| *n == fname).ok_or(format!("no field {} in {}", fname, sn))?.1.clone();
                        Ok((format!("{}.{}", paren(&b), lean_ident(&fname)), fty))
                    }
                    (Member::Unnamed(i), Ty::Tuple(ts)) => {
                        let k = i.index as usize;
                        let n = ts.len();
                        // Lean nested pairs: (a, b, c) = (a, (b, c))
                        let mut acc = b.clone();
                        for _ in 0..k {
                            acc = format!("{}.2", paren(&acc));
                        }
                        if k + 1 < n {
                            acc = format!("{}.1", paren(&acc));
                        }
                        Ok((acc, ts[k].clone()))
                    }
                    _ => Err(format!("unsupported field access on {:?}", tb)),
                }
            }
            Expr::Tuple(t) => {
                let exps: Vec<Option<Ty>> = match &expect {
                    Some(Ty::Tuple(ts)) if ts.len() == t.elems.len() => ts.iter().cloned().map(Some).collect(),
                    _ => vec![None; t.elems.len()],
                };
                let mut terms = vec![];
                let mut tys = vec![];
                for (e, ex) in t.elems.iter().zip(exps) {
                    let (a, ta) = self.ex(e, env, st, ex)?;
                    terms.push(a);
                    // builder O (I/O mode): an untyped literal component stays open (`(0x00, txp + 4)` against `(u8, i32)`)
                    tys.push(if ta == Ty::IntLit && !self.reg.io.borrow().mode { Ty::Int("i32") } else { ta });
                }
                Ok((format!("({})", terms.join(", ")), Ty::Tuple(tys)))
            }
            Expr::If(_) | Expr::Match(_) | Expr::Block(_) => {
                let mut st2 = vec![];
                let (tail, ty) = self.tail_expr_ty_value(e, env, &mut st2, expect)?;
                st.extend(st2);
                match tail {
                    Tail::Val(v) => Ok((v, ty)),
                    other => {
                        let n = self.fresh();
                        st.push((n.clone(), Rhs::Br(Box::new(other))));
                        Ok((n, ty))
                    }
                }
            }
            Expr::Struct(s) if s.path.segments.len() >= 2 && self.reg.enum_named.contains_key(&{
                let n = s.path.segments.len();
                format!("{}::{}", s.path.segments[n - 2].ident, s.path.segments[n - 1].ident)
            }) => {
                // builder N: `Enum::Variant { f: e, .. }`
                let n = s.path.segments.len();
                let (en, vn) = (s.path.segments[n - 2].ident.to_string(), s.path.segments[n - 1].ident.to_string());
                let names = self.reg.enum_named.get(&format!("{}::{}", en, vn)).unwrap().clone();
                let tys = self.reg.enum_data.get(&en).and_then(|vs| vs.iter().find(|(v, _)| *v == vn)).map(|(_, t)| t.clone()).ok_or("struct-like variant without types")?;
                if s.rest.is_some() || s.fields.len() != names.len() {
                    return Err(format!("{}::{}: not all fields given", en, vn));
                }
                let mut args = vec![String::new(); names.len()];
                for fv in &s.fields {
                    let fname = match &fv.member {
                        Member::Named(i) => i.to_string(),
                        _ => return Err("tuple member in a struct-like variant".into()),
                    };
                    let k = names.iter().position(|x| *x == fname).ok_or(format!("{}::{} has no field {}", en, vn, fname))?;
                    let (a, _) = self.ex(&fv.expr, env, st, Some(tys[k].clone()))?;
                    args[k] = paren(&a);
                }
                Ok((format!("({}.{} {})", en, lean_ident(&vn), args.join(" ")), Ty::Named(en)))
            }
            Expr::Struct(s) => {
                let name = {
                    let n = path_str(&s.path);
                    if n == "Self" {
                        self.self_ty.clone().ok_or("Self outside impl")?
                    } else {
                        s.path.segments.last().unwrap().ident.to_string()
                    }
                };
                let fields = self.reg.structs.get(&name).ok_or(format!("unknown struct {}", name))?.clone();
                let mut parts = vec![];
                for fv in &s.fields {
                    if cfg_disabled(&fv.attrs) {
                        continue;
                    }
                    let fname = match &fv.member {
                        Member::Named(i) => i.to_string(),
                        _ => return Err("tuple struct literal".into()),
                    };
                    let fty = fields.iter().find(|(n, _)| *n == fname).ok_or("unknown field")?.1.clone();
                    let (a, ta) = self.ex(&fv.expr, env, st, Some(fty.clone()))?;
                    // builder N: a heapless vector stored in a field must have the field's capacity
                    if let (Ty::HVec(_, c1), Ty::HVec(_, c2)) = (&ta, &fty) {
                        if c1 != c2 {
                            return Err(format!("field {}: heapless::Vec capacity {} stored in a field of capacity {}", fname, c1, c2));
                        }
                    }
                    parts.push(format!("{} := {}", lean_ident(&fname), a));
                }
                if s.rest.is_some() {
                    return Err("struct update syntax".into());
                }
                Ok((format!("({{ {} }} : {})", parts.join(", "), name), Ty::Named(name)))
            }
            Expr::Call(c) => self.call(c, env, st, expect),
            Expr::MethodCall(m) => self.method(m, env, st, expect),
            Expr::Index(ix) if matches!(&*ix.index, Expr::Range(r) if r.start.is_none() && r.end.is_none()) => {
                // builder N: `x[..]` — the whole slice
                let (a, ta) = self.ex(&ix.expr, env, st, expect)?;
                match ta {
                    Ty::Arr(_) => Ok((a, ta)),
                    Ty::HVec(el, _) => Ok((a, Ty::Arr(el))),
                    _ => Err("`[..]` on a non-slice".into()),
                }
            }
            // builder U: `x[a..b]`, `x[a..]`, `x[..b]` — a sub-slice (an invalid range is a panic)
            Expr::Index(ix) if matches!(&*ix.index, Expr::Range(r) if matches!(r.limits, RangeLimits::HalfOpen(_)) || r.end.is_some()) => {
                let Expr::Range(r) = &*ix.index else { unreachable!() };
                let closed = matches!(r.limits, RangeLimits::Closed(_));
                let (a, ta) = self.ex(&ix.expr, env, st, None)?;
                let el = match ta {
                    Ty::Arr(el) | Ty::HVec(el, _) => el,
                    _ => return Err("range index on a non-slice".into()),
                };
                let lo = match &r.start {
                    Some(e) => Some(self.ex(e, env, st, Some(Ty::Int("usize")))?.0),
                    None => None,
                };
                let hi = match &r.end {
                    Some(e) => Some(self.ex(e, env, st, Some(Ty::Int("usize")))?.0),
                    None => None,
                };
                // `a..=b` is `a..b + 1` (the end bound itself overflowing is a panic)
                let hi = match hi {
                    Some(h) if closed => Some(self.act(st, format!("Rt.ck .usize ({} + 1)", h))),
                    h => h,
                };
                let term = match (lo, hi) {
                    (Some(lo), Some(hi)) => format!("Rt.slice {} {} {}", paren(&a), paren(&lo), paren(&hi)),
                    (None, Some(hi)) => format!("Rt.slice {} 0 {}", paren(&a), paren(&hi)),
                    (Some(lo), None) => format!("Rt.sliceFrom {} {}", paren(&a), paren(&lo)),
                    // builder A: `x[..]` is the whole of `x`
                    (None, None) => return Ok((a, Ty::Arr(el))),
                };
                Ok((self.act(st, term), Ty::Arr(el)))
            }
            Expr::Index(ix) => {
                let (a, ta) = self.ex(&ix.expr, env, st, None)?;
                let (i, _) = self.ex(&ix.index, env, st, Some(Ty::Int("usize")))?;
                match ta {
                    Ty::Arr(el) => Ok((self.act(st, format!("Rt.idx {} {}", paren(&a), paren(&i))), *el)),
                    _ => Err("index on non-array".into()),
                }
            }
            Expr::Array(a) => {
                let el_exp = match &expect {
                    Some(Ty::Arr(t)) => Some((**t).clone()),
                    _ => None,
                };
                let mut terms = vec![];
                let mut ety = el_exp.clone().unwrap_or(Ty::IntLit);
                for e in &a.elems {
                    let (t, ty) = self.ex(e, env, st, el_exp.clone())?;
                    if ty != Ty::IntLit {
                        ety = ty;
                    }
                    terms.push(t);
                }
                Ok((format!("[{}]", terms.join(", ")), Ty::Arr(Box::new(ety))))
            }
            // builder J: `[v; N]` (N a literal, a constant or a const-generic parameter)
            Expr::Repeat(r) => {
                let el_exp = match &expect {
                    Some(Ty::Arr(t)) => Some((**t).clone()),
                    _ => None,
                };
                let (v, tv) = self.ex(&r.expr, env, st, el_exp.clone())?;
                let tv = match (&tv, el_exp) {
                    (Ty::IntLit, Some(t)) => t,
                    _ => tv,
                };
                let (n, _) = self.ex(&r.len, env, st, Some(Ty::Int("usize")))?;
                Ok((format!("(List.replicate (Int.toNat {}) ({} : {}))", paren(&n), v, tv.lean()), Ty::Arr(Box::new(tv))))
            }
            // builder W: `matches!(e, PAT)` is `match e { PAT => true, _ => false }`
            Expr::Macro(m) if path_str(&m.mac.path) == "matches" => {
                struct MatchesArgs(Expr, Pat);
                impl syn::parse::Parse for MatchesArgs {
                    fn parse(input: syn::parse::ParseStream) -> syn::Result<Self> {
                        let e: Expr = input.parse()?;
                        let _: Token![,] = input.parse()?;
                        let p = Pat::parse_multi_with_leading_vert(input)?;
                        let _: Option<Token![,]> = input.parse()?;
                        Ok(MatchesArgs(e, p))
                    }
                }
                let MatchesArgs(sc, pat) = m.mac.parse_body::<MatchesArgs>().map_err(|e| format!("matches!: {}", e))?;
                let desugared: Expr = parse_quote!(match #sc { #pat => true, _ => false });
                self.ex(&desugared, env, st, Some(Ty::Bool))
            }
            Expr::Macro(m) => Err(format!("unsupported macro expr {}", path_str(&m.mac.path))),
            _ => Err(format!("unsupported expression: {}", quote::quote!(#e))),
        }
    }

    fn tail_expr_ty_value(&mut self, e: &Expr, env: &mut Env, st: &mut Stmts, expect: Option<Ty>) -> Res<(Tail, Ty)> {
        // like tail_expr_ty but `return` inside is not allowed; we do not detect nested returns
        // syntactically here beyond the direct children handled by block_val.
        // builder B: in I/O mode `return Err(e)` is a throw of the monad (it short-circuits whatever it is bound in), only a
        // `return Ok(..)` is a real early return
        let io = self.reg.io.borrow().mode && !self.reg.io.borrow().in_pure;
        if (io && crate::phyio::returns_ok(e)) || (!io && contains_return(e)) {
            return Err("`return` inside a value-position branch is not supported".into());
        }
        self.tail_expr_ty(e, env, st, expect)
    }

    fn call(&mut self, c: &ExprCall, env: &mut Env, st: &mut Stmts, expect: Option<Ty>) -> Res<(String, Ty)> {
        let p = match &*c.func {
            Expr::Path(p) => &p.path,
            _ => return Err("call of non-path".into()),
        };
        let mut segs: Vec<String> = p.segments.iter().map(|s| s.ident.to_string()).collect();
        // builder R: `super::f(..)` names the module-level function `f`
        if segs.len() == 2 && ["super", "self", "crate"].contains(&segs[0].as_str()) && (self.reg.fns.contains_key(&segs[1]) || self.local_fns.contains_key(&segs[1])) {
            segs.remove(0);
        }
        let name = segs.join("::");
        if (name == "Ok" || name == "Err") && self.reg.io.borrow().mode {
            return crate::phyio::ok_err(self, &name, c, env, st, expect);
        }
        // builder R: constructing a `Result` whose error value is never inspected (builder N's reading:
        // `Ok(x)` = `some x`, `Err(_)` = `none`)
        if name == "Err" && c.args.len() == 1 {
            return match &expect {
                Some(t @ Ty::Opt(_)) => Ok(("none".to_string(), t.clone())),
                _ => Err("`Err(..)` where no `Result` type is expected".into()),
            };
        }
        if name == "Some" || name == "Ok" {
            let inner = match &expect {
                Some(Ty::Opt(t)) => Some((**t).clone()),
                _ => None,
            };
            let (a, ta) = self.ex(&c.args[0], env, st, inner.clone())?;
            let ta = match (&ta, inner) {
                (Ty::IntLit, Some(i)) => i,
                (Ty::IntLit, None) => Ty::Int("i32"),
                _ => ta,
            };
            return Ok((format!("(some {})", paren(&a)), Ty::Opt(Box::new(ta))));
        }
        if segs.len() == 2 && (segs[1] == "from" || segs[1] == "try_from") {
            if let Some(it) = int_ty(&segs[0]) {
                if segs[1] == "from" {
                    let (a, ta) = self.ex(&c.args[0], env, st, None)?;
                    return match ta {
                        Ty::Int(_) | Ty::IntLit => Ok((a, Ty::Int(it))),
                        Ty::Bool => Ok((format!("(Rt.b2i {})", paren(&a)), Ty::Int(it))),
                        Ty::Named(n) => {
                            // From<Enum> for uN implemented in source: look for registered conversion
                            let key = format!("{}::into_{}", n, it);
                            if let Some(sig) = self.reg.fns.get(&key) {
                                Ok((format!("({} {})", sig.lean, paren(&a)), Ty::Int(it)))
                            } else {
                                Err(format!("no From<{}> for {}", n, it))
                            }
                        }
                        _ => Err("from on unsupported".into()),
                    };
                }
            }
        }
        if segs.len() == 2 && segs[1] == "into" && int_ty(&segs[0]).is_some() {
            // `u8::into(x)` with a user type as target: `impl From<u8> for T`
            if let Some(Ty::Named(t)) = &expect {
                let key = format!("{}::into_{}", segs[0], t);
                if let Some(sig) = self.reg.fns.get(&key).cloned() {
                    let (a, _) = self.ex(&c.args[0], env, st, Some(Ty::Int(int_ty(&segs[0]).unwrap())))?;
                    let term = format!("{} {}", sig.lean, paren(&a));
                    return if sig.fallible { Ok((self.act(st, term), sig.ret.clone())) } else { Ok((format!("({})", term), sig.ret.clone())) };
                }
            }
            if let Some(Ty::Int(_)) = &expect {
                let (a, _) = self.ex(&c.args[0], env, st, None)?;
                return Ok((a, expect.unwrap()));
            }
            return Err(format!("`{}::into` with unknown target {:?}", segs[0], expect));
        }
        if segs.len() >= 2 && (segs[segs.len() - 1] == "min" || segs[segs.len() - 1] == "max") && segs[segs.len() - 2] == "cmp" {
            let (a, ta) = self.ex(&c.args[0], env, st, expect.clone())?;
            let (b, tb) = self.ex(&c.args[1], env, st, Some(ta.clone()))?;
            let t = unify(&ta, &tb)?;
            return Ok((format!("({} {} {})", segs[segs.len() - 1], paren(&a), paren(&b)), t));
        }
        // builder N: `NonZeroU8::new(x)`: `Some(x)` iff `x != 0` (the unit aliases the type to its integer)
        if segs.len() >= 2 && segs[segs.len() - 1] == "new" && segs[segs.len() - 2].starts_with("NonZero") && c.args.len() == 1 {
            let it = match segs[segs.len() - 2].as_str() {
                "NonZeroU8" => "u8",
                "NonZeroU16" => "u16",
                "NonZeroU32" => "u32",
                other => return Err(format!("unsupported {}", other)),
            };
            let (a, _) = self.ex(&c.args[0], env, st, Some(Ty::Int(it)))?;
            return Ok((format!("(if decide ({} ≠ 0) then some {} else none)", a, paren(&a)), Ty::Opt(Box::new(Ty::Int(it)))));
        }
        // builder N: `T::from(x)` for a user type with a registered `impl From<uN> for T`
        if segs.len() >= 2 && segs[segs.len() - 1] == "from" && c.args.len() == 1 && int_ty(&segs[segs.len() - 2]).is_none() {
            let tn = segs[segs.len() - 2].clone();
            let cands: Vec<(String, FnSig)> = self.reg.fns.iter().filter(|(k, _)| k.ends_with(&format!("::into_{}", tn))).map(|(k, v)| (k.clone(), v.clone())).collect();
            if cands.len() == 1 {
                let sig = cands[0].1.clone();
                let (a, _) = self.ex(&c.args[0], env, st, Some(sig.params[0].1.clone()))?;
                let term = format!("{} {}", sig.lean, paren(&a));
                return if sig.fallible { Ok((self.act(st, term), sig.ret.clone())) } else { Ok((format!("({})", term), sig.ret.clone())) };
            }
        }
        // builder N: `T::default()` of a modelled struct that derives `Default`
        if segs.len() >= 2 && segs[segs.len() - 1] == "default" && c.args.is_empty() && !self.reg.fns.contains_key(&format!("{}::default", segs[segs.len() - 2])) {
            let tn = segs[segs.len() - 2].clone();
            if let Some(fields) = self.reg.structs.get(&tn).cloned() {
                let files = self.reg.files.clone().ok_or("default(): no files")?;
                if !derives_default(&files, &tn) {
                    return Err(format!("{}::default(): the struct does not derive Default", tn));
                }
                let mut parts = vec![];
                for (f, t) in &fields {
                    parts.push(format!("{} := {}", lean_ident(f), default_term(t).ok_or(format!("{}::default(): field {} has no modelled default", tn, f))?));
                }
                return Ok((format!("({{ {} }} : {})", parts.join(", "), tn), Ty::Named(tn)));
            }
        }
        // builder L: `heapless::Vec::new()`
        if segs.len() >= 2 && segs[segs.len() - 2] == "Vec" && segs[segs.len() - 1] == "new" && c.args.is_empty() {
            return match &expect {
                Some(t @ Ty::HVec(..)) => Ok(("[]".into(), t.clone())),
                _ => Err("Vec::new() without a known type".into()),
            };
        }
        // builder L: constructor of an enum variant with a payload
        if segs.len() >= 2 {
            let tyn = if segs[segs.len() - 2] == "Self" { self.self_ty.clone().unwrap_or_default() } else { segs[segs.len() - 2].clone() };
            if let Some(tys) = self.reg.enum_data.get(&tyn).and_then(|vs| vs.iter().find(|(v, _)| *v == segs[segs.len() - 1])).map(|(_, t)| t.clone()) {
                let mut args = vec![];
                for (a, t) in c.args.iter().zip(tys.iter()) {
                    let (x, _) = self.ex(a, env, st, Some(t.clone()))?;
                    args.push(paren(&x));
                }
                return Ok((format!("({}.{} {})", tyn, lean_ident(&segs[segs.len() - 1]), args.join(" ")), Ty::Named(tyn)));
            }
        }
        // builder U: constructor of a one-field tuple struct the unit models as a newtype (`Redundancy(data)`);
        // a unit-like tuple struct (`T()`) is the structure without fields
        if segs.len() == 1 && !self.local_fns.contains_key(&segs[0]) && !self.reg.fns.contains_key(&segs[0]) {
            if let Some(fields) = self.reg.structs.get(&segs[0]).cloned() {
                if fields.len() == 1 && fields[0].0 == "0" && c.args.len() == 1 {
                    let (x, _) = self.ex(&c.args[0], env, st, Some(fields[0].1.clone()))?;
                    return Ok((format!("({{ _0 := {} }} : {})", x, segs[0]), Ty::Named(segs[0].clone())));
                }
                if fields.is_empty() && c.args.is_empty() {
                    return Ok((format!("({{ }} : {})", segs[0]), Ty::Named(segs[0].clone())));
                }
            }
        }
        // local nested fn, then registry
        let sig = if segs.len() == 1 {
            match self.local_fns.get(&segs[0]).cloned().or_else(|| self.reg.fns.get(&segs[0]).cloned()) {
                Some(s) => Some(s),
                // builder P (I/O mode): a module-level function called from a method that was itself translated on
                // demand (`coding_rate_value` in `Sx1272::set_modulation_params`)
                None if self.reg.io.borrow().mode => self.free_fn_on_demand(&segs[0])?,
                None => None,
            }
        } else {
            let tyn = if segs[segs.len() - 2] == "Self" { self.self_ty.clone().unwrap_or_default() } else { segs[segs.len() - 2].clone() };
            // builder O: a generic parameter the unit fixes (`C::set_tx_power(..)` with `Alias("C", "Sx1276")`)
            let tyn = match self.reg.aliases.get(&tyn) {
                Some(Ty::Named(n)) => n.clone(),
                _ => tyn,
            };
            match self.reg.fns.get(&format!("{}::{}", tyn, segs[segs.len() - 1])).cloned() {
                Some(s) => Some(s),
                // builder P (I/O mode): an associated function of the variant (`C::set_tx_power(self, ..)`,
                // `Self::bandwidth_value(..)`) is translated on demand like a helper method
                None if self.reg.io.borrow().mode && (self.reg.structs.contains_key(&tyn) || self.reg.enums.contains_key(&tyn)) => {
                    Some(self.method_on_demand(&tyn, &segs[segs.len() - 1])?)
                }
                // builder A: a module-qualified free function the unit translates (`securityhelpers::calculate_mic`):
                // the qualifier is a module (lower case, no type of that name)
                None if tyn.chars().next().map(|ch| ch.is_lowercase()).unwrap_or(false) && !self.reg.structs.contains_key(&tyn) && !self.reg.enums.contains_key(&tyn) => {
                    self.reg.fns.get(&segs[segs.len() - 1]).cloned()
                }
                None => None,
            }
        };
        let sig = sig.ok_or(format!("call of unknown function {}", name))?;
        if !sig.muts.is_empty() {
            let actuals: Vec<&Expr> = c.args.iter().collect();
            return self.emit_call(&sig, &actuals, env, st);
        }
        let mut args = vec![];
        for (a, (_, pt)) in c.args.iter().zip(sig.params.iter()) {
            let (t, _) = self.ex(a, env, st, Some(pt.clone()))?;
            args.push(paren(&t));
        }
        let term = format!("{} {}", sig.lean, args.join(" "));
        if sig.fallible {
            Ok((self.act(st, term), sig.ret.clone()))
        } else {
            Ok((format!("({})", term), sig.ret.clone()))
        }
    }

    fn method(&mut self, m: &ExprMethodCall, env: &mut Env, st: &mut Stmts, expect: Option<Ty>) -> Res<(String, Ty)> {
        let name = m.method.to_string();
        // builder O (I/O mode): calls on `self.intf` / `self.intf.iv` are the primitives of `Rt.Phy`
        if self.reg.io.borrow().mode {
            if let Some(r) = crate::phyio::intf_call(self, m, env, st)? {
                return Ok(r);
            }
        }
        // builder J: `(a..=b).contains(&x)` / `(a..b).contains(&x)` on integer ranges (band limits,
        // margin range).  A range is no value in the IR, so this is decided before the receiver is
        // translated.
        if name == "contains" && m.args.len() == 1 {
            let mut recv = &*m.receiver;
            while let Expr::Paren(p) = recv {
                recv = &p.expr;
            }
            if let Expr::Range(r) = recv {
                let (x, tx) = self.ex(&m.args[0], env, st, None)?;
                let ity = match &tx {
                    Ty::Int(_) => tx.clone(),
                    _ => return Err(format!("range contains: argument is not an integer ({:?})", tx)),
                };
                let mut parts = vec![];
                if let Some(s) = &r.start {
                    let (a, ta) = self.ex(s, env, st, Some(ity.clone()))?;
                    unify(&ta, &ity)?;
                    parts.push(format!("{} ≤ {}", a, x));
                }
                if let Some(e) = &r.end {
                    let (b, tb) = self.ex(e, env, st, Some(ity.clone()))?;
                    unify(&tb, &ity)?;
                    match r.limits {
                        RangeLimits::Closed(_) => parts.push(format!("{} ≤ {}", x, b)),
                        RangeLimits::HalfOpen(_) => parts.push(format!("{} < {}", x, b)),
                    }
                }
                if parts.is_empty() {
                    return Ok(("true".into(), Ty::Bool));
                }
                return Ok((format!("decide ({})", parts.join(" ∧ ")), Ty::Bool));
            }
        }
        // builder V: `(a..b).any(|i| body)` on a half-open integer range; the body may panic (`Rt.rangeAnyM`)
        if name == "any" && m.args.len() == 1 {
            let mut recv = &*m.receiver;
            while let Expr::Paren(p) = recv {
                recv = &p.expr;
            }
            if let (Expr::Range(r), Expr::Closure(cl)) = (recv, &m.args[0]) {
                if let (Some(lo), Some(hi), RangeLimits::HalfOpen(_), 1) = (&r.start, &r.end, &r.limits, cl.inputs.len()) {
                    let (b, tb) = self.ex(hi, env, st, None)?;
                    let (a, ta) = self.ex(lo, env, st, if matches!(tb, Ty::Int(_)) { Some(tb.clone()) } else { None })?;
                    let ity = match (&ta, &tb) {
                        (_, Ty::Int(_)) => tb.clone(),
                        (Ty::Int(_), _) => ta.clone(),
                        // untyped literal bounds: the closure parameter is an index (`usize`)
                        _ => Ty::Int("usize"),
                    };
                    let mut env_c = env.clone();
                    let pn = self.pat(&cl.inputs[0], &ity, &mut env_c)?;
                    let mut cst = vec![];
                    let (ct, cty) = self.ex(&cl.body, &mut env_c, &mut cst, Some(Ty::Bool))?;
                    if cty != Ty::Bool {
                        return Err("range any: closure body is not bool".into());
                    }
                    let seq = Seq { stmts: cst, tail: Tail::Val(ct) };
                    let mut body = String::new();
                    if seq.fallible() {
                        render_m(&seq, 2, &mut body);
                    } else {
                        body.push_str("some (");
                        render_p(&seq, 2, &mut body);
                        body.push(')');
                    }
                    let t = self.act(st, format!("Rt.rangeAnyM {} {} (fun {} => {})", paren(&a), paren(&b), pn, body));
                    return Ok((t, Ty::Bool));
                }
            }
        }
        // builder N: `(a..=b).all(|c| body)` on an integer range; the body may panic (`Rt.rangeAllM`)
        if name == "all" && m.args.len() == 1 {
            let mut recv = &*m.receiver;
            while let Expr::Paren(p) = recv {
                recv = &p.expr;
            }
            if let (Expr::Range(r), Expr::Closure(cl)) = (recv, &m.args[0]) {
                if let (Some(lo), Some(hi), RangeLimits::Closed(_), 1) = (&r.start, &r.end, &r.limits, cl.inputs.len()) {
                    let (a0, ta0) = self.ex(lo, env, st, None)?;
                    let (b, tb) = self.ex(hi, env, st, if matches!(ta0, Ty::Int(_)) { Some(ta0.clone()) } else { None })?;
                    let ity = match (&ta0, &tb) {
                        (Ty::Int(_), _) => ta0.clone(),
                        (Ty::IntLit, Ty::Int(_)) => tb.clone(),
                        _ => return Err("range all: the bounds are not typed integers".into()),
                    };
                    let (a, ta) = if ta0 == Ty::IntLit { (a0, ity.clone()) } else { (a0, ta0) };
                    unify(&ta, &tb)?;
                    let mut env_c = env.clone();
                    let pn = self.pat(&cl.inputs[0], &ity, &mut env_c)?;
                    let mut cst = vec![];
                    let (ct, cty) = self.ex(&cl.body, &mut env_c, &mut cst, Some(Ty::Bool))?;
                    if cty != Ty::Bool {
                        return Err("range all: closure body is not bool".into());
                    }
                    let seq = Seq { stmts: cst, tail: Tail::Val(ct) };
                    let mut body = String::new();
                    if seq.fallible() {
                        render_m(&seq, 2, &mut body);
                    } else {
                        body.push_str("some (");
                        render_p(&seq, 2, &mut body);
                        body.push(')');
                    }
                    let t = self.act(st, format!("Rt.rangeAllM {} {} (fun {} => {})", paren(&a), paren(&b), pn, body));
                    return Ok((t, Ty::Bool));
                }
            }
        }
        let (r, tr) = self.ex(&m.receiver, env, st, None)?;
        match &tr {
            Ty::Int(_) | Ty::IntLit => {
                let t: &'static str = match (&tr, &expect) {
                    (Ty::Int(t), _) => t,
                    (Ty::IntLit, Some(Ty::Int(t))) => t,
                    _ => "i32",
                };
                let ity = Ty::Int(t);
                let mut arg = |this: &mut Self, i: usize, st: &mut Stmts, ex: Option<Ty>| -> Res<String> {
                    let (a, _) = this.ex(&m.args[i], env, st, ex)?;
                    Ok(paren(&a))
                };
                match name.as_str() {
                    "pow" => {
                        let a = arg(self, 0, st, Some(Ty::Int("u32")))?;
                        Ok((self.act(st, format!("Rt.powC .{} {} {}", t, paren(&r), a)), ity))
                    }
                    "min" | "max" => {
                        let a = arg(self, 0, st, Some(ity.clone()))?;
                        Ok((format!("({} {} {})", name, paren(&r), a), ity))
                    }
                    "clamp" => {
                        let a = arg(self, 0, st, Some(ity.clone()))?;
                        let b = arg(self, 1, st, Some(ity.clone()))?;
                        // fully qualified: a Rust local named `max`/`min` must not capture the Lean function (same term after elaboration)
                        Ok((format!("(Max.max {} (Min.min {} {}))", a, b, paren(&r)), ity))
                    }
                    "wrapping_add" | "wrapping_sub" | "wrapping_mul" => {
                        let a = arg(self, 0, st, Some(ity.clone()))?;
                        let o = match name.as_str() {
                            "wrapping_add" => "+",
                            "wrapping_sub" => "-",
                            _ => "*",
                        };
                        Ok((format!("(Rt.wrap .{} ({} {} {}))", t, paren(&r), o, a), ity))
                    }
                    "saturating_sub" => {
                        let a = arg(self, 0, st, Some(ity.clone()))?;
                        Ok((format!("(Rt.satSub .{} {} {})", t, paren(&r), a), ity))
                    }
                    "saturating_add" => {
                        let a = arg(self, 0, st, Some(ity.clone()))?;
                        Ok((format!("(Rt.satAdd .{} {} {})", t, paren(&r), a), ity))
                    }
                    "checked_sub" | "checked_add" | "checked_mul" => {
                        let a = arg(self, 0, st, Some(ity.clone()))?;
                        let o = match name.as_str() {
                            "checked_add" => "+",
                            "checked_sub" => "-",
                            _ => "*",
                        };
                        Ok((format!("(Rt.ck .{} ({} {} {}))", t, paren(&r), o, a), Ty::Opt(Box::new(ity))))
                    }
                    "abs" => Ok((self.act(st, format!("Rt.ck .{} (Int.natAbs {} : Int)", t, paren(&r))), ity)),
                    // builder F: `uN::count_ones()` (-> u32) of an unsigned value: `Rt.countOnes` of LoraVerif/RtBits.lean (the unit
                    // must import it; a unit that does not fails to build, loudly)
                    "count_ones" if t.starts_with('u') && m.args.is_empty() => Ok((format!("(Rt.countOnes {})", paren(&r)), Ty::Int("u32"))),
                    // builder O: big-endian bytes of an unsigned integer
                    // builder F: `uN::to_le_bytes()`: `Rt.leBytes` of LoraVerif/RtBits.lean (the unit must import it)
                    "to_le_bytes" if t.starts_with('u') && m.args.is_empty() => {
                        let n = match t { "u8" => 1, "u16" => 2, "u32" => 4, "u64" | "usize" => 8, _ => return Err(format!("to_le_bytes of {}", t)) };
                        Ok((format!("(Rt.leBytes {} {})", n, paren(&r)), Ty::Arr(Box::new(Ty::Int("u8")))))
                    }
                    "to_be_bytes" if !t.starts_with('i') => Ok((format!("(Rt.Phy.beBytes .{} {})", t, paren(&r)), Ty::Arr(Box::new(Ty::Int("u8"))))),
                    // builder L: unsigned `is_multiple_of` (never panics: `x.is_multiple_of(0)` is `x == 0`)
                    "is_multiple_of" if !t.starts_with('i') => {
                        let a = arg(self, 0, st, Some(ity.clone()))?;
                        Ok((format!("(Rt.isMultipleOf {} {})", paren(&r), a), Ty::Bool))
                    }
                    "into" => match &expect {
                        Some(Ty::Int(_)) => Ok((r, expect.unwrap())),
                        _ => Err("`.into()` with unknown target".into()),
                    },
                    "div_ceil" => {
                        // only for unsigned in std
                        let a = arg(self, 0, st, Some(ity.clone()))?;
                        let q = self.act(st, format!("Rt.divC .{} {} {}", t, paren(&r), a));
                        let m_ = self.act(st, format!("Rt.remC .{} {} {}", t, paren(&r), a));
                        Ok((self.act(st, format!("Rt.ck .{} ({} + (if {} > 0 then 1 else 0))", t, q, m_)), ity))
                    }
                    _ => Err(format!("unsupported int method {}", name)),
                }
            }
            Ty::Opt(inner) => match name.as_str() {
                "is_some" | "is_ok" => Ok((format!("{}.isSome", paren(&r)), Ty::Bool)),
                // builder N: `Option<T>` → `Option<&T>`: the same value in the model
                // (`ok`: `Result<T, E>` → `Option<T>`; a `Result` already is an `Option` here)
                "as_ref" | "as_mut" | "copied" | "cloned" | "clone" | "ok" => Ok((r, tr.clone())),
                "is_none" => Ok((format!("{}.isNone", paren(&r)), Ty::Bool)),
                "unwrap_or" => {
                    let (a, _) = self.ex(&m.args[0], env, st, Some((**inner).clone()))?;
                    Ok((format!("(match {} with | some v => v | none => {})", r, a), (**inner).clone()))
                }
                // builder T: `opt.unwrap_or_else(|| e)`: `e` is evaluated (with its checks) only on `None`
                "unwrap_or_else" => {
                    let cl = match m.args.first() {
                        Some(Expr::Closure(cl)) if cl.inputs.is_empty() => cl,
                        _ => return Err("unwrap_or_else: argument is not a zero-parameter closure".into()),
                    };
                    let mut env_c = env.clone();
                    let mut st2: Stmts = vec![];
                    let (a, _) = self.ex(&cl.body, &mut env_c, &mut st2, Some((**inner).clone()))?;
                    if st2.is_empty() {
                        Ok((format!("(match {} with | some v => v | none => {})", r, a), (**inner).clone()))
                    } else {
                        let n = self.fresh();
                        let arms = vec![
                            ("some v__".to_string(), Seq { stmts: vec![], tail: Tail::Val("v__".into()) }),
                            ("none".to_string(), Seq { stmts: st2, tail: Tail::Val(a) }),
                        ];
                        st.push((n.clone(), Rhs::Br(Box::new(Tail::Match(r, arms)))));
                        Ok((n, (**inner).clone()))
                    }
                }
                "unwrap" | "expect" => Ok((self.act(st, r), (**inner).clone())),
                // combinators with a pure one-parameter closure
                "filter" | "map" => {
                    let cl = match m.args.first() {
                        Some(Expr::Closure(cl)) if cl.inputs.len() == 1 => cl,
                        _ => return Err(format!("{}: argument is not a one-parameter closure", name)),
                    };
                    let mut env_c = env.clone();
                    // `filter` passes a reference, `map` the value: both are the value in the model
                    let pin = match &cl.inputs[0] {
                        Pat::Reference(r) => &*r.pat,
                        p => p,
                    };
                    let pn = self.pat(pin, inner, &mut env_c)?;
                    let mut cst = vec![];
                    if name == "filter" {
                        let body = match &*cl.body {
                            Expr::Paren(p) => &*p.expr,
                            b => b,
                        };
                        let (ct, cty) = self.ex(body, &mut env_c, &mut cst, Some(Ty::Bool))?;
                        if !cst.is_empty() || cty != Ty::Bool {
                            return Err("filter: closure body must be a pure bool expression".into());
                        }
                        Ok((format!("(Option.filter (fun {} => {}) {})", pn, ct, paren(&r)), tr.clone()))
                    } else {
                        let want = match &expect {
                            Some(Ty::Opt(t)) => Some((**t).clone()),
                            _ => None,
                        };
                        let (ct, cty) = self.ex(&cl.body, &mut env_c, &mut cst, want.clone())?;
                        if !cst.is_empty() {
                            return Err("map: closure body must be a pure expression".into());
                        }
                        let cty = match (&cty, want) {
                            (Ty::IntLit, Some(w)) => w,
                            (Ty::IntLit, None) => Ty::Int("i32"),
                            _ => cty,
                        };
                        Ok((format!("(Option.map (fun {} => {}) {})", pn, ct, paren(&r)), Ty::Opt(Box::new(cty))))
                    }
                }
                // builder W: `opt.map_or(d, |x| e)` with a pure default and a pure closure body: `match opt with | some x => e | none => d`
                "map_or" if m.args.len() == 2 => {
                    let cl = match &m.args[1] {
                        Expr::Closure(cl) if cl.inputs.len() == 1 => cl,
                        _ => return Err("map_or: second argument is not a one-parameter closure".into()),
                    };
                    let mut dst: Stmts = vec![];
                    let (d, dty) = self.ex(&m.args[0], env, &mut dst, expect.clone())?;
                    let mut env_c = env.clone();
                    let pn = self.pat(&cl.inputs[0], inner, &mut env_c)?;
                    let mut cst: Stmts = vec![];
                    let want = if matches!(dty, Ty::IntLit) { expect.clone() } else { Some(dty.clone()) };
                    let (ct, cty) = self.ex(&cl.body, &mut env_c, &mut cst, want)?;
                    if !cst.is_empty() || !dst.is_empty() {
                        return Err("map_or: default and closure body must be pure expressions".into());
                    }
                    let ty = unify(&dty, &cty)?;
                    Ok((format!("(match {} with | some {} => {} | none => {})", r, pn, ct, d), ty))
                }
                _ => Err(format!("unsupported Option method {}", name)),
            },
            Ty::Named(tn) => {
                if name == "into" {
                    if let Some(Ty::Int(it)) = &expect {
                        let key = format!("{}::into_{}", tn, it);
                        if let Some(sig) = self.reg.fns.get(&key) {
                            return Ok((format!("({} {})", sig.lean, paren(&r)), expect.unwrap()));
                        }
                    }
                    return Err(format!("`.into()` from {} with unknown target", tn));
                }
                let key = format!("{}::{}", tn, name);
                // builder R: `.clone()` of a modelled value is the value
                if name == "clone" && m.args.is_empty() && !self.reg.fns.contains_key(&key) {
                    return Ok((r, tr.clone()));
                }
                let sig = match self.reg.fns.get(&key).cloned() {
                    Some(s) => s,
                    None => self.method_on_demand(tn, &name)?,
                };
                if !sig.muts.is_empty() {
                    let mut actuals: Vec<&Expr> = vec![&*m.receiver];
                    // builder W: arguments of cargo features the harness does not enable (`#[cfg(feature = "certification")]
                    // &mut self.certification`) are not there
                    actuals.extend(m.args.iter().filter(|a| !matches!(a, Expr::Reference(r) if cfg_disabled(&r.attrs))));
                    // the receiver was translated once already (pure: a place); translate the call afresh
                    return self.emit_call(&sig, &actuals, env, st);
                }
                let mut args = vec![paren(&r)];
                for (a, (_, pt)) in m.args.iter().zip(sig.params.iter().skip(1)) {
                    let (t, _) = self.ex(a, env, st, Some(pt.clone()))?;
                    args.push(paren(&t));
                }
                let term = format!("{} {}", sig.lean, args.join(" "));
                if sig.fallible {
                    Ok((self.act(st, term), sig.ret.clone()))
                } else {
                    Ok((format!("({})", term), sig.ret.clone()))
                }
            }
            // slices / arrays (builder B): `.len()`, `.iter()` (identity), `.find(|e| pure-bool)`
            Ty::Arr(el) => match name.as_str() {
                "is_empty" => Ok((format!("{}.isEmpty", paren(&r)), Ty::Bool)),
                "len" => Ok((format!("(Int.ofNat {}.length)", paren(&r)), Ty::Int("usize"))),
                "iter" | "peekable" => Ok((r, tr.clone())),
                // builder R: `it.filter_map(Result::ok)` on an iterator of `Result`s (modelled as a list of options)
                "filter_map" if matches!(&**el, Ty::Opt(_)) && matches!(m.args.first(), Some(Expr::Path(p)) if path_str(&p.path) == "Result::ok") => match &**el {
                    Ty::Opt(inner) => Ok((format!("(List.filterMap id {})", paren(&r)), Ty::Arr(inner.clone()))),
                    _ => unreachable!(),
                },
                // builder D2: `.iter().any(|x| pure-bool)` on a slice (also what `for x in slice { if c { return v; } }`
                // desugars to)
                "any" => {
                    let cl = match m.args.first() {
                        Some(Expr::Closure(cl)) if cl.inputs.len() == 1 => cl,
                        _ => return Err("any: argument is not a one-parameter closure".into()),
                    };
                    let mut env_c = env.clone();
                    let pn = self.pat(&cl.inputs[0], el, &mut env_c)?;
                    let mut cst = vec![];
                    let (ct, cty) = self.ex(&cl.body, &mut env_c, &mut cst, Some(Ty::Bool))?;
                    if !cst.is_empty() || cty != Ty::Bool {
                        return Err("any: closure body must be a pure bool expression".into());
                    }
                    Ok((format!("(List.any {} (fun {} => {}))", paren(&r), pn, ct), Ty::Bool))
                }
                "find" => {
                    let cl = match m.args.first() {
                        Some(Expr::Closure(cl)) if cl.inputs.len() == 1 => cl,
                        _ => return Err("find: argument is not a one-parameter closure".into()),
                    };
                    let mut env_c = env.clone();
                    let pn = self.pat(&cl.inputs[0], el, &mut env_c)?;
                    let mut cst = vec![];
                    let (ct, cty) = self.ex(&cl.body, &mut env_c, &mut cst, Some(Ty::Bool))?;
                    if !cst.is_empty() || cty != Ty::Bool {
                        return Err("find: closure body must be a pure bool expression".into());
                    }
                    Ok((format!("(List.find? (fun {} => {}) {})", pn, ct, paren(&r)), Ty::Opt(el.clone())))
                }
                // builder V: `.iter().rposition(|x| pure-bool)`: index of the last element that satisfies it
                "rposition" => {
                    let cl = match m.args.first() {
                        Some(Expr::Closure(cl)) if cl.inputs.len() == 1 => cl,
                        _ => return Err("rposition: argument is not a one-parameter closure".into()),
                    };
                    let mut env_c = env.clone();
                    let pn = self.pat(&cl.inputs[0], el, &mut env_c)?;
                    let mut cst = vec![];
                    let (ct, cty) = self.ex(&cl.body, &mut env_c, &mut cst, Some(Ty::Bool))?;
                    if !cst.is_empty() || cty != Ty::Bool {
                        return Err("rposition: closure body must be a pure bool expression".into());
                    }
                    Ok((format!("(Rt.rposition (fun {} => {}) {})", pn, ct, paren(&r)), Ty::Opt(Box::new(Ty::Int("usize")))))
                }
                _ => Err(format!("unsupported slice method {}", name)),
            },
            // builder L: heapless::Vec<T, CAP> as a list with a capacity; mutators write the receiver place back
            Ty::HVec(el, cap) => match name.as_str() {
                "len" => Ok((format!("(Int.ofNat {}.length)", paren(&r)), Ty::Int("usize"))),
                "is_empty" => Ok((format!("{}.isEmpty", paren(&r)), Ty::Bool)),
                "iter" | "as_slice" => Ok((r, Ty::Arr(el.clone()))),
                "clear" | "push" | "extend_from_slice" => {
                    let (root, fields, _) = self.place(&m.receiver, env)?;
                    let (res, rty, newv) = match name.as_str() {
                        "clear" => ("()".to_string(), Ty::Unit, "[]".to_string()),
                        "push" => {
                            let (a, _) = self.ex(&m.args[0], env, st, Some((**el).clone()))?;
                            (format!("(Rt.hvPushOk {} {})", paren(cap), paren(&r)), Ty::Bool, format!("(Rt.hvPush {} {} {})", paren(cap), paren(&r), paren(&a)))
                        }
                        _ => {
                            let (a, _) = self.ex(&m.args[0], env, st, Some(Ty::Arr(el.clone())))?;
                            (format!("(Rt.hvExtendOk {} {} {})", paren(cap), paren(&r), paren(&a)), Ty::Opt(Box::new(Ty::Unit)), format!("(Rt.hvExtend {} {} {})", paren(cap), paren(&r), paren(&a)))
                        }
                    };
                    // the result is computed from the old value, then the place is updated
                    let rn = if rty == Ty::Unit {
                        "()".to_string()
                    } else {
                        let n = self.fresh();
                        st.push((n.clone(), Rhs::Pure(res)));
                        n
                    };
                    st.push((lean_ident(&root), Rhs::Pure(update_term(&lean_ident(&root), &fields, &newv))));
                    Ok((rn, rty))
                }
                _ => Err(format!("unsupported heapless::Vec method {}", name)),
            },
            // builder V: `b.then_some(v)` (the argument is evaluated, with its checks, before the test — as in Rust)
            Ty::Bool if name == "then_some" && m.args.len() == 1 => {
                let (a, ta) = self.ex(&m.args[0], env, st, None)?;
                Ok((format!("(if {} then some {} else none)", r, paren(&a)), Ty::Opt(Box::new(ta))))
            }
            Ty::Bool => Err(format!("unsupported bool method {}", name)),
            _ => Err(format!("unsupported method {} on {:?}", name, tr)),
        }
    }
}

/// builder R: an integer expression whose type is left open by its literals (`1 << (c & 7)`, `0xff`, `!0`)
fn open_int_expr(e: &Expr) -> bool {
    match e {
        Expr::Lit(ExprLit { lit: Lit::Int(i), .. }) => i.suffix().is_empty(),
        Expr::Paren(p) => open_int_expr(&p.expr),
        // builder V: `if c { 0b11111 } else if d { 0b1111 } else { 0b111 }`
        Expr::If(ei) => {
            let blk = |b: &Block| matches!(b.stmts.as_slice(), [Stmt::Expr(e, None)] if open_int_expr(e));
            blk(&ei.then_branch) && matches!(&ei.else_branch, Some((_, eb)) if open_int_expr(eb))
        }
        Expr::Block(b) => matches!(b.block.stmts.as_slice(), [Stmt::Expr(e, None)] if open_int_expr(e)),
        Expr::Unary(u) => matches!(u.op, UnOp::Not(_) | UnOp::Neg(_)) && open_int_expr(&u.expr),
        Expr::Binary(b) => match b.op {
            BinOp::Shl(_) | BinOp::Shr(_) => open_int_expr(&b.left),
            BinOp::Add(_) | BinOp::Sub(_) | BinOp::Mul(_) | BinOp::Div(_) | BinOp::Rem(_) | BinOp::BitAnd(_) | BinOp::BitOr(_) | BinOp::BitXor(_) => open_int_expr(&b.left) && open_int_expr(&b.right),
            _ => false,
        },
        _ => false,
    }
}

fn unify(a: &Ty, b: &Ty) -> Res<Ty> {
    match (a, b) {
        (Ty::IntLit, Ty::Int(_)) => Ok(b.clone()),
        (Ty::Int(_), Ty::IntLit) => Ok(a.clone()),
        // builder R: an untyped `None` (`Opt(IntLit)`) takes the type of the other branch
        (Ty::Opt(x), Ty::Opt(_)) if **x == Ty::IntLit => Ok(b.clone()),
        (Ty::Opt(_), Ty::Opt(y)) if **y == Ty::IntLit => Ok(a.clone()),
        (Ty::Opt(x), Ty::Opt(y)) => Ok(Ty::Opt(Box::new(unify(x, y)?))),
        (Ty::Tuple(xs), Ty::Tuple(ys)) if xs.len() == ys.len() => Ok(Ty::Tuple(xs.iter().zip(ys.iter()).map(|(x, y)| unify(x, y)).collect::<Res<Vec<_>>>()?)),
        _ if a == b => Ok(a.clone()),
        // builder N: element-wise (an empty slice literal has no element type of its own)
        (Ty::Arr(x), Ty::Arr(y)) => Ok(Ty::Arr(Box::new(unify(x, y)?))),
        (Ty::Tuple(xs), Ty::Tuple(ys)) if xs.len() == ys.len() => Ok(Ty::Tuple(xs.iter().zip(ys.iter()).map(|(x, y)| unify(x, y)).collect::<Res<Vec<_>>>()?)),
        _ => Err(format!("type mismatch {:?} vs {:?}", a, b)),
    }
}

fn unify_opt(a: &Ty, b: &Ty, expect: &Option<Ty>) -> Res<Ty> {
    if let Some(e) = expect {
        return Ok(e.clone());
    }
    Err(format!("type mismatch {:?} vs {:?}", a, b))
}

fn block_returns(b: &Block) -> bool {
    match b.stmts.last() {
        Some(Stmt::Expr(Expr::Return(_), _)) => true,
        Some(Stmt::Macro(m)) => ["unreachable", "panic"].contains(&path_str(&m.mac.path).as_str()),
        _ => false,
    }
}

fn is_assign_op(op: &BinOp) -> bool {
    use BinOp::*;
    matches!(op, AddAssign(_) | SubAssign(_) | MulAssign(_) | DivAssign(_) | RemAssign(_) | BitXorAssign(_) | BitAndAssign(_) | BitOrAssign(_) | ShlAssign(_) | ShrAssign(_))
}

fn assign_to_bin(op: &BinOp) -> BinOp {
    use BinOp::*;
    match op {
        AddAssign(_) => Add(Default::default()),
        SubAssign(_) => Sub(Default::default()),
        MulAssign(_) => Mul(Default::default()),
        DivAssign(_) => Div(Default::default()),
        RemAssign(_) => Rem(Default::default()),
        BitXorAssign(_) => BitXor(Default::default()),
        BitAndAssign(_) => BitAnd(Default::default()),
        BitOrAssign(_) => BitOr(Default::default()),
        ShlAssign(_) => Shl(Default::default()),
        ShrAssign(_) => Shr(Default::default()),
        _ => unreachable!(),
    }
}

fn assigned_vars_block(b: &Block, out: &mut Vec<String>) {
    for s in &b.stmts {
        if let Stmt::Expr(e, _) = s {
            match e {
                Expr::Assign(a) => {
                    if let Expr::Path(p) = &*a.left {
                        out.push(p.path.segments[0].ident.to_string());
                    }
                }
                Expr::Binary(b) if is_assign_op(&b.op) => {
                    if let Expr::Path(p) = &*b.left {
                        out.push(p.path.segments[0].ident.to_string());
                    }
                }
                Expr::If(ei) => assigned_vars_if(ei, out),
                _ => {}
            }
        }
    }
}

fn assigned_vars_if(ei: &ExprIf, out: &mut Vec<String>) {
    assigned_vars_block(&ei.then_branch, out);
    if let Some((_, e)) = &ei.else_branch {
        match &**e {
            Expr::Block(b) => assigned_vars_block(&b.block, out),
            Expr::If(i) => assigned_vars_if(i, out),
            _ => {}
        }
    }
}

fn contains_return(e: &Expr) -> bool {
    struct V(bool);
    impl<'ast> syn::visit::Visit<'ast> for V {
        fn visit_expr_return(&mut self, _: &'ast ExprReturn) {
            self.0 = true;
        }
        fn visit_item_fn(&mut self, _: &'ast ItemFn) {}
        // builder N: statements of features the harness does not build with are not there
        fn visit_stmt(&mut self, s: &'ast Stmt) {
            if !stmt_cfg_disabled(s) {
                syn::visit::visit_stmt(self, s);
            }
        }
    }
    let mut v = V(false);
    syn::visit::visit_expr(&mut v, e);
    v.0
}

// ------------------------------------------------------------------------------------------------
// builder L: state-passing translation of `&mut` parameters

/// the Lean result type of a function with `&mut` parameters of the given types
pub fn ret_shape(ret: &Ty, muts: &[Ty]) -> Ty {
    if muts.is_empty() {
        ret.clone()
    } else if *ret == Ty::Unit {
        if muts.len() == 1 {
            muts[0].clone()
        } else {
            Ty::Tuple(muts.to_vec())
        }
    } else {
        let mut v = vec![ret.clone()];
        v.extend(muts.iter().cloned());
        Ty::Tuple(v)
    }
}

fn exit_term(v: &str, unit: bool, muts: &[String]) -> String {
    let ms: Vec<String> = muts.iter().map(|m| lean_ident(m)).collect();
    if unit {
        if ms.len() == 1 {
            ms[0].clone()
        } else {
            format!("({})", ms.join(", "))
        }
    } else {
        format!("({}, {})", v, ms.join(", "))
    }
}

/// rewrite every exit value of a function-level sequence
fn wrap_exits(seq: &mut Seq, counter: &mut usize, f: &dyn Fn(&str) -> String) {
    match &mut seq.tail {
        Tail::Val(v) => *v = f(v),
        Tail::ActVal(v) => {
            *counter += 1;
            let n = format!("t{}", counter);
            seq.stmts.push((n.clone(), Rhs::Act(v.clone())));
            seq.tail = Tail::Val(f(&n));
        }
        Tail::If(_, a, b) => {
            wrap_exits(a, counter, f);
            wrap_exits(b, counter, f);
        }
        Tail::Match(_, arms) => {
            for (_, s) in arms.iter_mut() {
                wrap_exits(s, counter, f);
            }
        }
        Tail::Panic => {}
    }
}

/// `inner` followed by `rest` as one statement list; refuses when `inner` declares a local that
/// shadows a variable in scope (it would be visible to `rest`)
fn splice(inner: &[Stmt], rest: &[Stmt], env: &Env) -> Res<Vec<Stmt>> {
    for s in inner {
        if let Stmt::Local(l) = s {
            let mut names = vec![];
            pat_idents(&l.pat, &mut names);
            if let Some(n) = names.iter().find(|n| env.contains_key(*n)) {
                if !rest.is_empty() {
                    return Err(format!("a branch that is continued by the rest of the block re-declares `{}`", n));
                }
            }
        }
    }
    let mut v = inner.to_vec();
    // an expression statement without `;` in the middle of the spliced list gets one
    if !rest.is_empty() {
        if let Some(Stmt::Expr(e, None)) = v.last().cloned() {
            let k = v.len() - 1;
            v[k] = Stmt::Expr(e, Some(Default::default()));
        }
    }
    v.extend(rest.iter().cloned());
    Ok(v)
}

fn pat_idents(p: &Pat, out: &mut Vec<String>) {
    match p {
        Pat::Ident(i) => out.push(i.ident.to_string()),
        Pat::Type(t) => pat_idents(&t.pat, out),
        Pat::Reference(r) => pat_idents(&r.pat, out),
        Pat::Paren(pp) => pat_idents(&pp.pat, out),
        Pat::Tuple(t) => t.elems.iter().for_each(|e| pat_idents(e, out)),
        Pat::TupleStruct(t) => t.elems.iter().for_each(|e| pat_idents(e, out)),
        _ => {}
    }
}

/// `{ base with f1 := { base.f1 with f2 := value } }`
pub fn update_term(base: &str, fields: &[String], value: &str) -> String {
    match fields.split_first() {
        None => value.to_string(),
        Some((f, rest)) => {
            let f = lean_ident(f);
            format!("{{ {} with {} := {} }}", base, f, update_term(&format!("{}.{}", base, f), rest, value))
        }
    }
}

fn tuple_of(vars: &[String]) -> String {
    if vars.len() == 1 {
        lean_ident(&vars[0])
    } else {
        format!("({})", vars.iter().map(|v| lean_ident(v)).collect::<Vec<_>>().join(", "))
    }
}

pub fn has_let(e: &Expr) -> bool {
    match e {
        Expr::Let(_) => true,
        Expr::Binary(b) if matches!(b.op, BinOp::And(_)) => has_let(&b.left) || has_let(&b.right),
        Expr::Paren(p) => has_let(&p.expr),
        _ => false,
    }
}

fn flatten_and<'e>(e: &'e Expr, out: &mut Vec<&'e Expr>) {
    match e {
        Expr::Binary(b) if matches!(b.op, BinOp::And(_)) => {
            flatten_and(&b.left, out);
            flatten_and(&b.right, out);
        }
        Expr::Paren(p) if has_let(&p.expr) => flatten_and(&p.expr, out),
        _ => out.push(e),
    }
}

fn place_root(e: &Expr) -> Option<String> {
    match e {
        Expr::Path(p) if p.path.segments.len() == 1 => Some(p.path.segments[0].ident.to_string()),
        Expr::Field(f) => place_root(&f.base),
        Expr::Paren(p) => place_root(&p.expr),
        Expr::Reference(r) => place_root(&r.expr),
        Expr::Unary(u) if matches!(u.op, UnOp::Deref(_)) => place_root(&u.expr),
        Expr::Index(i) => place_root(&i.expr),
        _ => None,
    }
}

/// variables a statement may assign: targets of assignments anywhere inside, and — over-approximated —
/// every `&mut` parameter that is the receiver or an argument of a call
fn assigned_roots(e: &Expr, muts: &[String]) -> Vec<String> {
    struct V<'m> {
        muts: &'m [String],
        out: Vec<String>,
    }
    impl<'ast, 'm> syn::visit::Visit<'ast> for V<'m> {
        fn visit_expr_assign(&mut self, a: &'ast ExprAssign) {
            if let Some(r) = place_root(&a.left) {
                self.out.push(r);
            }
            syn::visit::visit_expr_assign(self, a);
        }
        fn visit_expr_binary(&mut self, b: &'ast ExprBinary) {
            if is_assign_op(&b.op) {
                if let Some(r) = place_root(&b.left) {
                    self.out.push(r);
                }
            }
            syn::visit::visit_expr_binary(self, b);
        }
        fn visit_expr_method_call(&mut self, m: &'ast ExprMethodCall) {
            for a in std::iter::once(&*m.receiver).chain(m.args.iter()) {
                if let Some(r) = place_root(a) {
                    if self.muts.contains(&r) {
                        self.out.push(r);
                    }
                }
            }
            syn::visit::visit_expr_method_call(self, m);
        }
        fn visit_expr_call(&mut self, c: &'ast ExprCall) {
            for a in c.args.iter() {
                if let Some(r) = place_root(a) {
                    if self.muts.contains(&r) || matches!(a, Expr::Reference(rf) if rf.mutability.is_some()) {
                        self.out.push(r);
                    }
                }
            }
            syn::visit::visit_expr_call(self, c);
        }
        fn visit_expr_closure(&mut self, _: &'ast ExprClosure) {}
        fn visit_item_fn(&mut self, _: &'ast ItemFn) {}
    }
    let mut v = V { muts, out: vec![] };
    syn::visit::visit_expr(&mut v, e);
    v.out
}

/// builder N: does the struct `tn` of the unit's files carry `#[derive(.. Default ..)]`?
fn derives_default(files: &[File], tn: &str) -> bool {
    use quote::ToTokens;
    fn walk(items: &[Item], tn: &str) -> bool {
        for it in items {
            match it {
                Item::Struct(s) if s.ident == tn => {
                    return s.attrs.iter().any(|a| a.path().is_ident("derive") && a.meta.to_token_stream().to_string().split(|c: char| !c.is_alphanumeric()).any(|w| w == "Default"));
                }
                Item::Mod(m) => {
                    if let Some((_, items)) = &m.content {
                        if walk(items, tn) {
                            return true;
                        }
                    }
                }
                _ => {}
            }
        }
        false
    }
    files.iter().any(|f| walk(&f.items, tn))
}

/// builder N: `Default::default()` of a modelled type
fn default_term(t: &Ty) -> Option<String> {
    Some(match t {
        Ty::Int(_) | Ty::IntLit => "0".to_string(),
        Ty::Bool => "false".to_string(),
        Ty::Opt(_) => "none".to_string(),
        Ty::HVec(..) => "[]".to_string(),
        _ => return None,
    })
}

/// items of cargo features the verification harness does not enable
pub fn cfg_disabled(attrs: &[Attribute]) -> bool {
    use quote::ToTokens;
    attrs.iter().any(|a| {
        if !a.path().is_ident("cfg") {
            return false;
        }
        let s: String = a.meta.to_token_stream().to_string().chars().filter(|c| !c.is_whitespace()).collect();
        ["certification", "multicast", "serde", "defmt-03"].iter().any(|f| s == format!("cfg(feature=\"{}\")", f))
    })
}

fn expr_attrs(e: &Expr) -> &[Attribute] {
    match e {
        Expr::If(x) => &x.attrs,
        Expr::Match(x) => &x.attrs,
        Expr::MethodCall(x) => &x.attrs,
        Expr::Call(x) => &x.attrs,
        Expr::Assign(x) => &x.attrs,
        Expr::Binary(x) => &x.attrs,
        Expr::Block(x) => &x.attrs,
        Expr::Macro(x) => &x.attrs,
        Expr::Return(x) => &x.attrs,
        _ => &[],
    }
}

fn stmt_cfg_disabled(s: &Stmt) -> bool {
    match s {
        Stmt::Local(l) => cfg_disabled(&l.attrs),
        Stmt::Expr(e, _) => cfg_disabled(expr_attrs(e)),
        Stmt::Macro(m) => cfg_disabled(&m.attrs),
        Stmt::Item(_) => false,
    }
}

/// inherent (non-trait) method `name` of type `tn` in the unit's files
pub fn find_inherent_method<'f>(files: &'f [File], tn: &str, name: &str) -> Option<(&'f Signature, &'f Block)> {
    fn walk<'f>(items: &'f [Item], tn: &str, name: &str) -> Option<(&'f Signature, &'f Block)> {
        for it in items {
            match it {
                Item::Impl(im) if im.trait_.is_none() => {
                    let self_name = match &*im.self_ty {
                        Type::Path(p) => p.path.segments.last().map(|s| s.ident.to_string()),
                        _ => None,
                    };
                    if self_name.as_deref() != Some(tn) {
                        continue;
                    }
                    for ii in &im.items {
                        if let ImplItem::Fn(f) = ii {
                            if f.sig.ident == name && !cfg_disabled(&f.attrs) {
                                return Some((&f.sig, &f.block));
                            }
                        }
                    }
                }
                Item::Mod(m) if m.ident != "tests" && m.ident != "test" => {
                    if let Some((_, items)) = &m.content {
                        if let Some(r) = walk(items, tn, name) {
                            return Some(r);
                        }
                    }
                }
                _ => {}
            }
        }
        None
    }
    files.iter().find_map(|f| walk(&f.items, tn, name))
}

/// builder D2: two source-level rewrites applied to every function body before it is translated.  Both are exact
/// for the shapes they accept and leave every other shape alone (which then fails loudly as before):
/// * `for PAT in E { if C { return V; } }` (nothing else in the body, `E` not a range) becomes
///   `if (E).iter().any(|PAT| C) { return V; }` — `any` visits the elements in the same order and stops at the first
///   hit; the translation of `any` insists that `C` is a pure boolean expression;
/// * `match (A, X.cmp(&Y)) { (P, Ordering::Less|Equal|Greater) => B1, _ => B2 }` with `A`, `X`, `Y` places (paths and
///   field accesses: no effects, so the order of evaluation is immaterial) becomes
///   `if let P = A { if X < Y { B1 } else { B2 } } else { B2 }`.
fn desugar_d2(b: &Block) -> Block {
    use syn::visit_mut::VisitMut;
    fn is_place(e: &Expr) -> bool {
        match e {
            Expr::Path(_) => true,
            Expr::Field(f) => is_place(&f.base),
            Expr::Paren(p) => is_place(&p.expr),
            Expr::Reference(r) => r.mutability.is_none() && is_place(&r.expr),
            _ => false,
        }
    }
    fn for_return_any(f: &ExprForLoop) -> Option<Stmt> {
        if f.label.is_some() || matches!(&*f.expr, Expr::Range(_)) || f.body.stmts.len() != 1 {
            return None;
        }
        let i = match &f.body.stmts[0] {
            Stmt::Expr(Expr::If(i), _) if i.else_branch.is_none() && !matches!(&*i.cond, Expr::Let(_)) => i,
            _ => return None,
        };
        if contains_return(&i.cond) || i.then_branch.stmts.len() != 1 {
            return None;
        }
        let r = match &i.then_branch.stmts[0] {
            Stmt::Expr(Expr::Return(r), _) => r,
            _ => return None,
        };
        let (pat, it, c) = (&f.pat, &f.expr, &i.cond);
        Some(parse_quote! { if (#it).iter().any(|#pat| #c) { #r; } })
    }
    fn match_cmp_chain(m: &ExprMatch) -> Option<Expr> {
        let t = match &*m.expr {
            Expr::Tuple(t) if t.elems.len() == 2 => t,
            _ => return None,
        };
        let (a, cmp) = (&t.elems[0], &t.elems[1]);
        let (x, y) = match cmp {
            Expr::MethodCall(mc) if mc.method == "cmp" && mc.args.len() == 1 => (&*mc.receiver, &mc.args[0]),
            _ => return None,
        };
        let y = match y {
            Expr::Reference(r) if r.mutability.is_none() => &*r.expr,
            other => other,
        };
        if !is_place(a) || !is_place(x) || !is_place(y) || m.arms.len() != 2 || m.arms.iter().any(|arm| arm.guard.is_some()) {
            return None;
        }
        if !matches!(&m.arms[1].pat, Pat::Wild(_)) {
            return None;
        }
        let pt = match &m.arms[0].pat {
            Pat::Tuple(pt) if pt.elems.len() == 2 => pt,
            _ => return None,
        };
        let ord = match &pt.elems[1] {
            Pat::Path(pp) if pp.path.segments.len() == 2 && pp.path.segments[0].ident == "Ordering" => pp.path.segments[1].ident.to_string(),
            _ => return None,
        };
        let p = &pt.elems[0];
        let (b1, b2) = (&m.arms[0].body, &m.arms[1].body);
        let test: Expr = match ord.as_str() {
            "Less" => parse_quote! { #x < #y },
            "Equal" => parse_quote! { #x == #y },
            "Greater" => parse_quote! { #x > #y },
            _ => return None,
        };
        Some(parse_quote! { if let #p = #a { if #test { #b1 } else { #b2 } } else { #b2 } })
    }
    struct D;
    impl VisitMut for D {
        fn visit_block_mut(&mut self, b: &mut Block) {
            syn::visit_mut::visit_block_mut(self, b);
            for s in b.stmts.iter_mut() {
                let n = match s {
                    Stmt::Expr(Expr::ForLoop(f), _) => for_return_any(f),
                    _ => None,
                };
                if let Some(n) = n {
                    *s = n;
                }
            }
        }
        fn visit_expr_mut(&mut self, e: &mut Expr) {
            syn::visit_mut::visit_expr_mut(self, e);
            let n = match e {
                Expr::Match(m) => match_cmp_chain(m),
                _ => None,
            };
            if let Some(n) = n {
                *e = n;
            }
        }
    }
    let mut b = b.clone();
    D.visit_block_mut(&mut b);
    b
}
