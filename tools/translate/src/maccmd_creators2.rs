//! builder F (follow-up) — `Gen.MacCmdCreatorIntoFn`: the setters generic over `T: Into<X>`, instantiated at `T = X` (the
//! reflexive `impl<T> From<T> for T`: `x.into()` is `x`; `deinto`, trusted), `X.as_ref()` routed to the translated
//! `impl AsRef<[u8]> for X` (`X::as_ref(&x)`).  Otherwise a copy of maccmd_creators.rs: the derive-generated creators (`XCreator { data }`, `new`, `len`, `build`, expanded
//! from the `quote!` template of lorawan-macros/src/lib.rs like the payload structs) and the hand-written setters of
//! maccommandcreator.rs, for a subset of the MAC commands (C19).
//!
//! Setters return `&mut Self` (chaining) or `Result<&mut Self, Error>`; the reference returned IS the receiver, so the
//! translation keeps the receiver's new value only: the signature is rewritten to `()` / `Result<(), Error>` and the
//! tail `self` / `Ok(self)` to `()` / `Ok(())` (trusted, `Unchain`; anything else in tail position is left alone and
//! fails to translate).  `Result<_, Error>` is read as `Option` (`none` = refused; which error is not modelled).
use crate::ir::Ty;
use crate::maccmd::{emit_fn, impl_fn, interp, new_tr, pick, quote_templates, ts};
use crate::tr::{Registry, Res};
use proc_macro2::TokenStream;
use std::collections::HashMap;
use std::fmt::Write as _;
use syn::visit_mut::VisitMut;
use syn::*;

/// (variant, setters)
const SUBSET: &[(&str, &[&str])] = &[
    ("LinkADRReq", &["set_channel_mask", "set_redundancy"]),
    ("NewChannelReq", &["set_frequency", "set_data_rate_range"]),
];

fn is_self(e: &Expr) -> bool {
    matches!(e, Expr::Path(p) if p.path.is_ident("self"))
}

/// `-> &mut Self` → `()`, `-> Result<&mut Self, E>` → `Result<(), E>`; tail `self` dropped, `Ok(self)` → `Ok(())`
fn unchain(sig: &mut Signature, body: &mut Block) -> Res<()> {
    let out = match &sig.output {
        ReturnType::Type(_, t) => (**t).clone(),
        ReturnType::Default => return Ok(()),
    };
    match &out {
        Type::Reference(r) if r.mutability.is_some() => {
            sig.output = ReturnType::Default;
            match body.stmts.last() {
                Some(Stmt::Expr(e, None)) if is_self(e) => {
                    body.stmts.pop();
                    Ok(())
                }
                _ => Err("setter returning `&mut Self` does not end in `self`".into()),
            }
        }
        Type::Path(p) if p.path.segments.last().map(|s| s.ident == "Result").unwrap_or(false) => {
            sig.output = parse_quote!(-> Result<(), Error>);
            struct V;
            impl VisitMut for V {
                fn visit_expr_call_mut(&mut self, c: &mut ExprCall) {
                    syn::visit_mut::visit_expr_call_mut(self, c);
                    if let Expr::Path(p) = &*c.func {
                        if p.path.is_ident("Ok") && c.args.len() == 1 && is_self(&c.args[0]) {
                            c.args[0] = parse_quote!(());
                        }
                    }
                }
            }
            V.visit_block_mut(body);
            Ok(())
        }
        _ => Err("unsupported setter return type".into()),
    }
}

/// `self.data[a..b].copy_from_slice(x);` → `let mut dcopy = self.data; dcopy[a..b].copy_from_slice(x); self.data = dcopy;`
/// (the function translator knows `copy_from_slice` on a local array only; `data` is an array, so the copy is by value)
fn field_copy(body: &mut Block) {
    let mut out: Vec<Stmt> = vec![];
    for st in body.stmts.drain(..) {
        if let Stmt::Expr(Expr::MethodCall(mc), Some(_)) = &st {
            if mc.method == "copy_from_slice" {
                if let Expr::Index(ix) = &*mc.receiver {
                    if let Expr::Field(f) = &*ix.expr {
                        if is_self(&f.base) {
                            let field = &f.member;
                            let idx = &ix.index;
                            let args = &mc.args;
                            out.push(parse_quote!(let mut dcopy = self.#field;));
                            out.push(parse_quote!(dcopy[#idx].copy_from_slice(#args);));
                            out.push(parse_quote!(self.#field = dcopy;));
                            continue;
                        }
                    }
                }
            }
        }
        out.push(st);
    }
    body.stmts = out;
}

/// `fn f<T: Into<X>>(&mut self, p: T)` → `fn f(&mut self, p: X)`; `p.into()` → `p`; `e.as_ref()` → `X::as_ref(&e)`
fn deinto(sig: &mut Signature, body: &mut Block) -> Res<()> {
    let mut map: Vec<(Ident, Type)> = vec![];
    for gp in sig.generics.params.iter() {
        match gp {
            GenericParam::Type(tp) => {
                let mut found = None;
                for b in tp.bounds.iter() {
                    if let TypeParamBound::Trait(tb) = b {
                        let seg = tb.path.segments.last().ok_or("empty bound")?;
                        if seg.ident == "Into" {
                            if let PathArguments::AngleBracketed(ab) = &seg.arguments {
                                if let Some(GenericArgument::Type(t)) = ab.args.first() {
                                    found = Some(t.clone());
                                }
                            }
                        }
                    }
                }
                map.push((tp.ident.clone(), found.ok_or(format!("type parameter {} is not bounded by Into<..>", tp.ident))?));
            }
            GenericParam::Lifetime(_) => {}
            GenericParam::Const(_) => return Err("const generic setter".into()),
        }
    }
    if map.len() != 1 {
        return Err(format!("expected exactly one Into<..> type parameter, found {}", map.len()));
    }
    let (tname, target) = map[0].clone();
    let tyname = match &target {
        Type::Path(p) => p.path.segments.last().map(|s| s.ident.clone()).ok_or("empty target")?,
        _ => return Err("unsupported Into target".into()),
    };
    let mut params: Vec<Ident> = vec![];
    for a in sig.inputs.iter_mut() {
        if let FnArg::Typed(pt) = a {
            if matches!(&*pt.ty, Type::Path(p) if p.path.is_ident(&tname)) {
                *pt.ty = target.clone();
                if let Pat::Ident(pi) = &*pt.pat {
                    params.push(pi.ident.clone());
                }
            }
        }
    }
    sig.generics = Generics::default();
    struct V {
        params: Vec<Ident>,
        tyname: Ident,
        bad: Option<String>,
    }
    impl VisitMut for V {
        fn visit_expr_mut(&mut self, e: &mut Expr) {
            syn::visit_mut::visit_expr_mut(self, e);
            if let Expr::MethodCall(mc) = e {
                if mc.method == "into" && mc.args.is_empty() {
                    match &*mc.receiver {
                        Expr::Path(p) if self.params.iter().any(|q| p.path.is_ident(q)) => {
                            let r = (*mc.receiver).clone();
                            *e = r;
                        }
                        _ => self.bad = Some("`.into()` on something that is not the Into<..> parameter".into()),
                    }
                } else if mc.method == "as_ref" && mc.args.is_empty() {
                    let r = (*mc.receiver).clone();
                    let t = self.tyname.clone();
                    *e = parse_quote!(#t::as_ref(&#r));
                }
            }
        }
    }
    let mut v = V { params, tyname, bad: None };
    v.visit_block_mut(body);
    match v.bad {
        Some(b) => Err(b),
        None => Ok(()),
    }
}

pub fn creators_into(files: &[File], _n: &[String], reg: &mut Registry, out: &mut String) -> Res<()> {
    let mac = files.last().ok_or("no macro file")?;
    let q = quote_templates(mac);
    let t_creator = pick(&q, "the creator struct", &["pubstruct#payload_creator", "fnbuild"], &[])?;
    let mut entries = vec![];
    for f in files {
        for (_, es) in crate::tables::cmd_enums(f)? {
            entries.extend(es);
        }
    }
    writeln!(out, "/-! The creators `#[derive(CommandHandler)]` generates (`XCreator {{ data: [u8; max_len + 1] }}`, `new`, `len`, `build`,\nexpanded from the `quote!` template of lorawan-macros/src/lib.rs) and the hand-written setters of maccommandcreator.rs. -/").unwrap();
    for (variant, setters) in SUBSET {
        let e = entries.iter().find(|e| e.variant == *variant).ok_or(format!("variant {} not found", variant))?;
        if e.len.is_none() {
            return Err(format!("{}: the derive generates no creator for a variable-length command", variant));
        }
        let cname = format!("{}Creator", variant);
        let mut s: HashMap<String, TokenStream> = HashMap::new();
        s.insert("payload_creator".into(), ts(&cname));
        s.insert("t".into(), ts(&e.payload));
        s.insert("cid".into(), ts(&format!("{}", e.cid)));
        let src = interp(t_creator, &s)?;
        let exp: File = syn::parse2(src.clone()).map_err(|er| format!("expansion of the creator template does not parse: {} in {}", er, src))?;
        let st = exp.items.iter().find_map(|it| match it {
            Item::Struct(s) if s.ident == cname => Some(s),
            _ => None,
        }).ok_or(format!("expansion: struct {} missing", cname))?;
        let named: Vec<String> = st.fields.iter().filter_map(|f| f.ident.as_ref().map(|i| i.to_string())).collect();
        if named != ["data"] {
            return Err(format!("expansion: struct {} has fields {:?}, expected [data]", cname, named));
        }
        let _ = new_tr(reg, None, "");
        writeln!(out, "structure {} where\n  data : (List Int)\n  deriving DecidableEq, Repr\n", cname).unwrap();
        reg.structs.insert(cname.clone(), vec![("data".to_string(), Ty::Arr(Box::new(Ty::Int("u8"))))]);
        for f in ["len", "new", "build"] {
            let (sig, body) = impl_fn(&exp, &cname, f).ok_or(format!("expansion: {}::{} missing", cname, f))?;
            emit_fn(reg, out, Some(&cname), f, sig, body)?;
        }
        for f in *setters {
            let (sig, body) = impl_fn(&files[0], &cname, f).ok_or(format!("{}::{} not found", cname, f))?;
            let mut sig = sig.clone();
            let mut body = body.clone();
            deinto(&mut sig, &mut body).map_err(|er| format!("{}::{}: {}", cname, f, er))?;
            unchain(&mut sig, &mut body).map_err(|er| format!("{}::{}: {}", cname, f, er))?;
            field_copy(&mut body);
            emit_fn(reg, out, Some(&cname), f, &sig, &body)?;
        }
    }
    Ok(())
}
