//! Small IR between syn and Lean text: a sequence of lets ending in a tail.

#[derive(Clone, Debug, PartialEq)]
pub enum Ty {
    Int(&'static str),
    IntLit,
    Bool,
    Named(String),
    Opt(Box<Ty>),
    Tuple(Vec<Ty>),
    Arr(Box<Ty>),
    /// builder O: `Result<T, RadioError>` of the PHY drivers (an I/O action in `Rt.Phy.IoM`, see phyio.rs)
    Res(Box<Ty>),
    /// builder L: `heapless::Vec<T, CAP>`: a list and the Lean term of its capacity
    HVec(Box<Ty>, String),
    Unit,
}

impl Ty {
    pub fn lean(&self) -> String {
        match self {
            Ty::Int(_) | Ty::IntLit => "Int".into(),
            Ty::Bool => "Bool".into(),
            Ty::Named(n) => n.clone(),
            Ty::Opt(t) => format!("(Option {})", t.lean()),
            Ty::Res(t) => format!("(Except RadioError {})", t.lean()),
            Ty::Tuple(ts) => format!("({})", ts.iter().map(|t| t.lean()).collect::<Vec<_>>().join(" × ")),
            Ty::Arr(t) | Ty::HVec(t, _) => format!("(List {})", t.lean()),
            Ty::Unit => "Unit".into(),
        }
    }
}

#[derive(Clone, Debug)]
pub enum Rhs {
    /// pure term
    Pure(String),
    /// `Option`-valued term (a checked primitive or a call of a fallible function)
    Act(String),
    /// branch expression
    Br(Box<Tail>),
}

#[derive(Clone, Debug)]
pub struct Seq {
    pub stmts: Vec<(String, Rhs)>,
    pub tail: Tail,
}

#[derive(Clone, Debug)]
pub enum Tail {
    Val(String),
    /// Option-valued tail (call of fallible fn in tail position)
    ActVal(String),
    If(String, Box<Seq>, Box<Seq>),
    Match(String, Vec<(String, Seq)>),
    /// panic (unreachable!, explicit panic)
    Panic,
}

impl Seq {
    pub fn fallible(&self) -> bool {
        self.stmts.iter().any(|(_, r)| match r {
            Rhs::Pure(_) => false,
            Rhs::Act(_) => true,
            Rhs::Br(t) => t.fallible(),
        }) || self.tail.fallible()
    }
}

impl Tail {
    pub fn fallible(&self) -> bool {
        match self {
            Tail::Val(_) => false,
            Tail::ActVal(_) | Tail::Panic => true,
            Tail::If(_, a, b) => a.fallible() || b.fallible(),
            Tail::Match(_, arms) => arms.iter().any(|(_, s)| s.fallible()),
        }
    }
}

fn ind(n: usize) -> String {
    "  ".repeat(n)
}

/// Render in the `Option` monad (do-notation).
pub fn render_m(s: &Seq, lvl: usize, out: &mut String) {
    out.push_str("do\n");
    for (name, rhs) in &s.stmts {
        match rhs {
            Rhs::Pure(t) => out.push_str(&format!("{}let {} := {}\n", ind(lvl), name, t)),
            Rhs::Act(t) => out.push_str(&format!("{}let {} ← {}\n", ind(lvl), name, t)),
            Rhs::Br(t) => {
                if t.fallible() {
                    out.push_str(&format!("{}let {} ← (", ind(lvl), name));
                    render_tail_m(t, lvl + 1, out);
                    out.push_str(")\n");
                } else {
                    out.push_str(&format!("{}let {} := (", ind(lvl), name));
                    render_tail_p(t, lvl + 1, out);
                    out.push_str(")\n");
                }
            }
        }
    }
    out.push_str(&ind(lvl));
    render_tail_m(&s.tail, lvl, out);
}

fn render_seq_m_inline(s: &Seq, lvl: usize, out: &mut String) {
    if !s.fallible() {
        out.push_str("pure (");
        render_p(s, lvl, out);
        out.push(')');
    } else if s.stmts.is_empty() {
        match &s.tail {
            Tail::If(..) | Tail::Match(..) => {
                out.push('(');
                render_tail_m(&s.tail, lvl, out);
                out.push(')');
            }
            _ => render_tail_m(&s.tail, lvl, out),
        }
    } else {
        out.push('(');
        render_m(s, lvl + 1, out);
        out.push(')');
    }
}

pub fn render_tail_m(t: &Tail, lvl: usize, out: &mut String) {
    match t {
        Tail::Val(v) => out.push_str(&format!("pure {}", paren(v))),
        Tail::ActVal(v) => out.push_str(v),
        Tail::Panic => out.push_str("none"),
        Tail::If(c, a, b) => {
            out.push_str(&format!("if {} then\n{}", c, ind(lvl + 1)));
            render_seq_m_inline(a, lvl + 1, out);
            out.push_str(&format!("\n{}else\n{}", ind(lvl), ind(lvl + 1)));
            render_seq_m_inline(b, lvl + 1, out);
        }
        Tail::Match(sc, arms) => {
            out.push_str(&format!("match {} with", sc));
            for (p, s) in arms {
                out.push_str(&format!("\n{}| {} => ", ind(lvl), p));
                render_seq_m_inline(s, lvl + 1, out);
            }
        }
    }
}

/// Render as a pure term.
pub fn render_p(s: &Seq, lvl: usize, out: &mut String) {
    for (name, rhs) in &s.stmts {
        match rhs {
            Rhs::Pure(t) => out.push_str(&format!("let {} := {}\n{}", name, t, ind(lvl))),
            Rhs::Act(_) => panic!("render_p on fallible seq"),
            Rhs::Br(t) => {
                out.push_str(&format!("let {} := (", name));
                render_tail_p(t, lvl + 1, out);
                out.push_str(&format!(")\n{}", ind(lvl)));
            }
        }
    }
    render_tail_p(&s.tail, lvl, out);
}

pub fn render_tail_p(t: &Tail, lvl: usize, out: &mut String) {
    match t {
        Tail::Val(v) => out.push_str(v),
        Tail::ActVal(_) | Tail::Panic => panic!("render_tail_p on fallible tail"),
        Tail::If(c, a, b) => {
            out.push_str(&format!("if {} then\n{}(", c, ind(lvl + 1)));
            render_p(a, lvl + 1, out);
            out.push_str(&format!(")\n{}else\n{}(", ind(lvl), ind(lvl + 1)));
            render_p(b, lvl + 1, out);
            out.push(')');
        }
        Tail::Match(sc, arms) => {
            out.push_str(&format!("match {} with", sc));
            for (p, s) in arms {
                out.push_str(&format!("\n{}| {} => (", ind(lvl), p));
                render_p(s, lvl + 1, out);
                out.push(')');
            }
        }
    }
}

pub fn paren(s: &str) -> String {
    let simple = s.chars().all(|c| c.is_alphanumeric() || c == '_' || c == '.' || c == '«' || c == '»');
    if simple || (s.starts_with('(') && matching_outer(s)) {
        s.to_string()
    } else {
        format!("({})", s)
    }
}

fn matching_outer(s: &str) -> bool {
    let mut depth = 0i32;
    for (i, c) in s.char_indices() {
        match c {
            '(' => depth += 1,
            ')' => {
                depth -= 1;
                if depth == 0 && i != s.len() - 1 {
                    return false;
                }
            }
            _ => {}
        }
    }
    depth == 0
}
