//! Custom extractors for tables that are not plain functions (filled in per unit).
use crate::tr::{Registry, Res};
use std::fmt::Write as _;
use syn::*;

// ------------------------------------------------------------------------------------------------
// C03 / C19: the `#[cmd(cid = .., len = ..)]` attributes of the six `CommandHandler` enums.
//
// For every enum deriving `CommandHandler` in maccommands.rs, certification.rs and multicast/mod.rs
// one Lean table `List (Nat × Option Nat × String × String)` = (cid, fixed payload length or `none`
// for a variable-length command, variant name, payload type name) is emitted, in source order (the
// order matters: the derive generates one `match` arm per variant, the first matching arm wins).
// The set of enums found is emitted as well, so a seventh command set does not go unnoticed.

fn lit_int(e: &Expr) -> Option<u64> {
    match e {
        Expr::Lit(ExprLit { lit: Lit::Int(i), .. }) => i.base10_parse::<u64>().ok(),
        Expr::Paren(p) => lit_int(&p.expr),
        Expr::Group(g) => lit_int(&g.expr),
        _ => None,
    }
}

fn derives_command_handler(attrs: &[Attribute]) -> bool {
    attrs.iter().any(|a| {
        a.path().is_ident("derive")
            && a.parse_args_with(punctuated::Punctuated::<Path, Token![,]>::parse_terminated)
                .map(|ps| ps.iter().any(|p| p.segments.last().map(|s| s.ident == "CommandHandler").unwrap_or(false)))
                .unwrap_or(false)
    })
}

pub struct CmdEntry {
    pub cid: u64,
    pub len: Option<u64>,
    pub variant: String,
    pub payload: String,
    pub has_lifetime: bool,
}

/// all `CommandHandler` enums of one file, in source order
pub fn cmd_enums(file: &File) -> Res<Vec<(String, Vec<CmdEntry>)>> {
    let mut out = vec![];
    for it in &file.items {
        let Item::Enum(e) = it else { continue };
        if !derives_command_handler(&e.attrs) {
            continue;
        }
        let mut entries = vec![];
        for v in &e.variants {
            let vname = v.ident.to_string();
            let Fields::Unnamed(f) = &v.fields else { return Err(format!("{}::{}: not a tuple variant", e.ident, vname)) };
            if f.unnamed.len() != 1 {
                return Err(format!("{}::{}: expected exactly one field", e.ident, vname));
            }
            let (payload, has_lifetime) = match &f.unnamed[0].ty {
                Type::Path(p) if p.path.segments.len() == 1 => {
                    let s = &p.path.segments[0];
                    (s.ident.to_string(), !matches!(s.arguments, PathArguments::None))
                }
                _ => return Err(format!("{}::{}: unsupported payload type", e.ident, vname)),
            };
            let mut cid = None;
            let mut len = None;
            let mut seen = false;
            for a in &v.attrs {
                if !a.path().is_ident("cmd") {
                    continue;
                }
                seen = true;
                let nested = a
                    .parse_args_with(punctuated::Punctuated::<Meta, Token![,]>::parse_terminated)
                    .map_err(|er| format!("{}::{}: #[cmd] does not parse: {}", e.ident, vname, er))?;
                for m in nested {
                    let Meta::NameValue(nv) = m else { return Err(format!("{}::{}: unsupported #[cmd] argument", e.ident, vname)) };
                    let key = nv.path.get_ident().map(|i| i.to_string()).unwrap_or_default();
                    let val = lit_int(&nv.value).ok_or(format!("{}::{}: #[cmd({} = ..)] is not an integer literal", e.ident, vname, key))?;
                    match key.as_str() {
                        "cid" => cid = Some(val),
                        "len" => len = Some(val),
                        k => return Err(format!("{}::{}: unknown #[cmd] key {}", e.ident, vname, k)),
                    }
                }
            }
            if !seen {
                return Err(format!("{}::{}: no #[cmd] attribute (the derive would generate no framing arm)", e.ident, vname));
            }
            let cid = cid.ok_or(format!("{}::{}: #[cmd] without cid", e.ident, vname))?;
            entries.push(CmdEntry { cid, len, variant: vname, payload, has_lifetime });
        }
        out.push((e.ident.to_string(), entries));
    }
    Ok(out)
}

fn repo_root() -> Res<std::path::PathBuf> {
    std::env::args().nth(1).map(std::path::PathBuf::from).ok_or("repo root argument missing".to_string())
}

fn lean_table_name(enum_name: &str) -> String {
    let mut c = enum_name.chars();
    match c.next() {
        Some(f) => f.to_lowercase().collect::<String>() + c.as_str(),
        None => String::new(),
    }
}

/// `Sel::Custom` entry point: `file` is maccommands.rs; the two sibling files are read from the repo root.
pub fn cmd_tables(file: &File, _reg: &mut Registry, out: &mut String) -> Res<()> {
    let root = repo_root()?;
    let mut all: Vec<(String, String, Vec<CmdEntry>)> = vec![];
    for (origin, e) in [("lorawan-encoding/src/maccommands.rs", None), ("lorawan-encoding/src/certification.rs", Some(())), ("lorawan-encoding/src/multicast/mod.rs", Some(()))] {
        let parsed;
        let f: &File = match e {
            None => file,
            Some(()) => {
                let src = std::fs::read_to_string(root.join(origin)).map_err(|er| format!("{}: {}", origin, er))?;
                parsed = syn::parse_file(&src).map_err(|er| format!("{}: parse error {}", origin, er))?;
                &parsed
            }
        };
        let enums = cmd_enums(f)?;
        if enums.is_empty() {
            return Err(format!("{}: no CommandHandler enum found", origin));
        }
        for (n, es) in enums {
            all.push((origin.to_string(), n, es));
        }
    }
    writeln!(out, "/-- (cid, fixed payload length | none = variable length, variant, payload type) -/").unwrap();
    writeln!(out, "abbrev Row := Nat × Option Nat × String × String\n").unwrap();
    for (origin, name, es) in &all {
        writeln!(out, "/-- `{}` in {} -/", name, origin).unwrap();
        writeln!(out, "def {} : List Row := [", lean_table_name(name)).unwrap();
        let rows: Vec<String> = es
            .iter()
            .map(|e| {
                format!(
                    "  ({}, {}, {:?}, {:?})",
                    e.cid,
                    // what the derive's framing uses: `Payload::max_len()`, which for a payload declared
                    // without a lifetime (unit struct) is the constant 0, whatever the attribute says
                    match (e.has_lifetime, e.len) {
                        (false, _) => "some 0".to_string(),
                        (true, Some(l)) => format!("some {}", l),
                        (true, None) => "none".to_string(),
                    },
                    e.variant,
                    e.payload
                )
            })
            .collect();
        writeln!(out, "{}]\n", rows.join(",\n")).unwrap();
    }
    writeln!(out, "/-- every `CommandHandler` enum found, with its table -/").unwrap();
    writeln!(
        out,
        "def allSets : List (String × List Row) := [{}]\n",
        all.iter().map(|(_, n, _)| format!("({:?}, {})", n, lean_table_name(n))).collect::<Vec<_>>().join(", ")
    )
    .unwrap();
    // payload types without a lifetime are the derive's zero-length unit structs: the derive gives them
    // `max_len() = 0` regardless of the attribute; an attribute saying otherwise is listed here.
    writeln!(out, "/-- payload types declared without a lifetime (unit structs: the derive hard-codes length 0) -/").unwrap();
    writeln!(
        out,
        "def unitPayloads : List String := [{}]\n",
        all.iter().flat_map(|(_, _, es)| es.iter()).filter(|e| !e.has_lifetime).map(|e| format!("{:?}", e.payload)).collect::<Vec<_>>().join(", ")
    )
    .unwrap();
    writeln!(out, "/-- unit-struct payloads whose `#[cmd(len = ..)]` attribute is not `len = 0` (must be empty) -/").unwrap();
    writeln!(
        out,
        "def attrLenIgnored : List String := [{}]\n",
        all.iter().flat_map(|(_, _, es)| es.iter()).filter(|e| !e.has_lifetime && e.len != Some(0)).map(|e| format!("{:?}", e.payload)).collect::<Vec<_>>().join(", ")
    )
    .unwrap();
    Ok(())
}
