//! Custom extractors for tables that are not plain functions (filled in per unit).
