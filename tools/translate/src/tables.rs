//! Custom extractors for tables that are not plain functions (filled in per unit).

// ------------------------------------------------------------------------------------------------
// builder D: code tables written as `fn f(x: Enum) -> Result<u8, RadioError> { match x { Enum::V => Ok(lit), .. } }`
// (lora-phy radio_kind_params.rs, sx1276.rs, sx1272.rs).  Emitted as `def f : Enum → Option Int`
// (`none` = the `Err(..)` arms).  Fails loudly on any other body shape.
use crate::tr::{Registry, Res};
use std::fmt::Write as _;
use syn::*;

fn d_find_fn<'a>(items: &'a [Item], name: &str) -> Option<(&'a Signature, &'a Block)> {
    for it in items {
        match it {
            Item::Fn(f) if f.sig.ident == name => return Some((&f.sig, &f.block)),
            Item::Impl(im) => {
                for ii in &im.items {
                    if let ImplItem::Fn(f) = ii {
                        if f.sig.ident == name {
                            return Some((&f.sig, &f.block));
                        }
                    }
                }
            }
            _ => {}
        }
    }
    None
}

fn d_lit(e: &Expr) -> Option<i128> {
    match e {
        Expr::Lit(ExprLit { lit: Lit::Int(i), .. }) => i.base10_parse::<i128>().ok(),
        Expr::Paren(p) => d_lit(&p.expr),
        _ => None,
    }
}

pub fn d_result_match_table(file: &File, fname: &str, lean_name: &str, out: &mut String) -> Res<()> {
    let (sig, block) = d_find_fn(&file.items, fname).ok_or(format!("code table fn {} not found", fname))?;
    let enum_ty = sig
        .inputs
        .iter()
        .find_map(|a| match a {
            FnArg::Typed(pt) => match &*pt.ty {
                Type::Path(p) => Some(p.path.segments.last().unwrap().ident.to_string()),
                _ => None,
            },
            _ => None,
        })
        .ok_or(format!("{}: no typed parameter", fname))?;
    let [Stmt::Expr(Expr::Match(m), None)] = block.stmts.as_slice() else {
        return Err(format!("{}: body is not a single match", fname));
    };
    writeln!(out, "def {} : {} → Option Int", lean_name, enum_ty).unwrap();
    for arm in &m.arms {
        if arm.guard.is_some() {
            return Err(format!("{}: guarded arm", fname));
        }
        let pat = match &arm.pat {
            Pat::Path(p) => format!(".{}", p.path.segments.last().unwrap().ident),
            Pat::Wild(_) => "_".to_string(),
            _ => return Err(format!("{}: unsupported pattern", fname)),
        };
        let Expr::Call(c) = &*arm.body else { return Err(format!("{}: arm body is not Ok(..)/Err(..)", fname)) };
        let Expr::Path(fp) = &*c.func else { return Err(format!("{}: arm body is not Ok(..)/Err(..)", fname)) };
        let ctor = fp.path.segments.last().unwrap().ident.to_string();
        let rhs = match ctor.as_str() {
            "Ok" => {
                let v = c.args.first().and_then(d_lit).ok_or(format!("{}: Ok(non-literal)", fname))?;
                format!("some {}", v)
            }
            "Err" => "none".to_string(),
            _ => return Err(format!("{}: arm body is not Ok(..)/Err(..)", fname)),
        };
        writeln!(out, "  | {} => {}", pat, rhs).unwrap();
    }
    writeln!(out).unwrap();
    Ok(())
}

pub fn d_sf_value(f: &File, _r: &mut Registry, out: &mut String) -> Res<()> {
    d_result_match_table(f, "spreading_factor_value", "spreading_factor_value", out)
}
pub fn d_bw_value(f: &File, _r: &mut Registry, out: &mut String) -> Res<()> {
    d_result_match_table(f, "bandwidth_value", "bandwidth_value", out)
}
pub fn d_cr_value(f: &File, _r: &mut Registry, out: &mut String) -> Res<()> {
    d_result_match_table(f, "coding_rate_value", "coding_rate_value", out)
}
pub fn d_cr_denom_value(f: &File, _r: &mut Registry, out: &mut String) -> Res<()> {
    d_result_match_table(f, "coding_rate_denominator_value", "coding_rate_denominator_value", out)
}
