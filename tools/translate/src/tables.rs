//! Custom extractors for tables that are not plain functions (filled in per unit).
use crate::tr::{Registry, Res};
use std::fmt::Write as _;
use syn::*;

// ------------------------------------------------------------------------------------------------
// C03 / C19: the `#[cmd(cid = .., len = ..)]` attributes of the six `CommandHandler` enums.
//
// For every enum deriving `CommandHandler` in maccommands.rs, certification.rs and multicast/mod.rs
// one Lean table `List (Nat × Option Nat × String × String)` = (cid, fixed payload length or `none`
// for a variable-length command, variant name, payload type name) is emitted, in source order (the
// order matters: the derive generates one `match` arm per variant, the first matching arm wins).
// The set of enums found is emitted as well, so a seventh command set does not go unnoticed.

fn lit_int(e: &Expr) -> Option<u64> {
    match e {
        Expr::Lit(ExprLit { lit: Lit::Int(i), .. }) => i.base10_parse::<u64>().ok(),
        Expr::Paren(p) => lit_int(&p.expr),
        Expr::Group(g) => lit_int(&g.expr),
        _ => None,
    }
}

fn derives_command_handler(attrs: &[Attribute]) -> bool {
    attrs.iter().any(|a| {
        a.path().is_ident("derive")
            && a.parse_args_with(punctuated::Punctuated::<Path, Token![,]>::parse_terminated)
                .map(|ps| ps.iter().any(|p| p.segments.last().map(|s| s.ident == "CommandHandler").unwrap_or(false)))
                .unwrap_or(false)
    })
}

pub struct CmdEntry {
    pub cid: u64,
    pub len: Option<u64>,
    pub variant: String,
    pub payload: String,
    pub has_lifetime: bool,
}

/// all `CommandHandler` enums of one file, in source order
pub fn cmd_enums(file: &File) -> Res<Vec<(String, Vec<CmdEntry>)>> {
    let mut out = vec![];
    for it in &file.items {
        let Item::Enum(e) = it else { continue };
        if !derives_command_handler(&e.attrs) {
            continue;
        }
        let mut entries = vec![];
        for v in &e.variants {
            let vname = v.ident.to_string();
            let Fields::Unnamed(f) = &v.fields else { return Err(format!("{}::{}: not a tuple variant", e.ident, vname)) };
            if f.unnamed.len() != 1 {
                return Err(format!("{}::{}: expected exactly one field", e.ident, vname));
            }
            let (payload, has_lifetime) = match &f.unnamed[0].ty {
                Type::Path(p) if p.path.segments.len() == 1 => {
                    let s = &p.path.segments[0];
                    (s.ident.to_string(), !matches!(s.arguments, PathArguments::None))
                }
                _ => return Err(format!("{}::{}: unsupported payload type", e.ident, vname)),
            };
            let mut cid = None;
            let mut len = None;
            let mut seen = false;
            for a in &v.attrs {
                if !a.path().is_ident("cmd") {
                    continue;
                }
                seen = true;
                let nested = a
                    .parse_args_with(punctuated::Punctuated::<Meta, Token![,]>::parse_terminated)
                    .map_err(|er| format!("{}::{}: #[cmd] does not parse: {}", e.ident, vname, er))?;
                for m in nested {
                    let Meta::NameValue(nv) = m else { return Err(format!("{}::{}: unsupported #[cmd] argument", e.ident, vname)) };
                    let key = nv.path.get_ident().map(|i| i.to_string()).unwrap_or_default();
                    let val = lit_int(&nv.value).ok_or(format!("{}::{}: #[cmd({} = ..)] is not an integer literal", e.ident, vname, key))?;
                    match key.as_str() {
                        "cid" => cid = Some(val),
                        "len" => len = Some(val),
                        k => return Err(format!("{}::{}: unknown #[cmd] key {}", e.ident, vname, k)),
                    }
                }
            }
            if !seen {
                return Err(format!("{}::{}: no #[cmd] attribute (the derive would generate no framing arm)", e.ident, vname));
            }
            let cid = cid.ok_or(format!("{}::{}: #[cmd] without cid", e.ident, vname))?;
            entries.push(CmdEntry { cid, len, variant: vname, payload, has_lifetime });
        }
        out.push((e.ident.to_string(), entries));
    }
    Ok(out)
}

fn repo_root() -> Res<std::path::PathBuf> {
    std::env::args().nth(1).map(std::path::PathBuf::from).ok_or("repo root argument missing".to_string())
}

fn lean_table_name(enum_name: &str) -> String {
    let mut c = enum_name.chars();
    match c.next() {
        Some(f) => f.to_lowercase().collect::<String>() + c.as_str(),
        None => String::new(),
    }
}

/// `Sel::Custom` entry point: `file` is maccommands.rs; the two sibling files are read from the repo root.
pub fn cmd_tables(file: &File, _reg: &mut Registry, out: &mut String) -> Res<()> {
    let root = repo_root()?;
    let mut all: Vec<(String, String, Vec<CmdEntry>)> = vec![];
    for (origin, e) in [("lorawan-encoding/src/maccommands.rs", None), ("lorawan-encoding/src/certification.rs", Some(())), ("lorawan-encoding/src/multicast/mod.rs", Some(()))] {
        let parsed;
        let f: &File = match e {
            None => file,
            Some(()) => {
                let src = std::fs::read_to_string(root.join(origin)).map_err(|er| format!("{}: {}", origin, er))?;
                parsed = syn::parse_file(&src).map_err(|er| format!("{}: parse error {}", origin, er))?;
                &parsed
            }
        };
        let enums = cmd_enums(f)?;
        if enums.is_empty() {
            return Err(format!("{}: no CommandHandler enum found", origin));
        }
        for (n, es) in enums {
            all.push((origin.to_string(), n, es));
        }
    }
    writeln!(out, "/-- (cid, fixed payload length | none = variable length, variant, payload type) -/").unwrap();
    writeln!(out, "abbrev Row := Nat × Option Nat × String × String\n").unwrap();
    for (origin, name, es) in &all {
        writeln!(out, "/-- `{}` in {} -/", name, origin).unwrap();
        writeln!(out, "def {} : List Row := [", lean_table_name(name)).unwrap();
        let rows: Vec<String> = es
            .iter()
            .map(|e| {
                format!(
                    "  ({}, {}, {:?}, {:?})",
                    e.cid,
                    // what the derive's framing uses: `Payload::max_len()`, which for a payload declared
                    // without a lifetime (unit struct) is the constant 0, whatever the attribute says
                    match (e.has_lifetime, e.len) {
                        (false, _) => "some 0".to_string(),
                        (true, Some(l)) => format!("some {}", l),
                        (true, None) => "none".to_string(),
                    },
                    e.variant,
                    e.payload
                )
            })
            .collect();
        writeln!(out, "{}]\n", rows.join(",\n")).unwrap();
    }
    writeln!(out, "/-- every `CommandHandler` enum found, with its table -/").unwrap();
    writeln!(
        out,
        "def allSets : List (String × List Row) := [{}]\n",
        all.iter().map(|(_, n, _)| format!("({:?}, {})", n, lean_table_name(n))).collect::<Vec<_>>().join(", ")
    )
    .unwrap();
    // payload types without a lifetime are the derive's zero-length unit structs: the derive gives them
    // `max_len() = 0` regardless of the attribute; an attribute saying otherwise is listed here.
    writeln!(out, "/-- payload types declared without a lifetime (unit structs: the derive hard-codes length 0) -/").unwrap();
    writeln!(
        out,
        "def unitPayloads : List String := [{}]\n",
        all.iter().flat_map(|(_, _, es)| es.iter()).filter(|e| !e.has_lifetime).map(|e| format!("{:?}", e.payload)).collect::<Vec<_>>().join(", ")
    )
    .unwrap();
    writeln!(out, "/-- unit-struct payloads whose `#[cmd(len = ..)]` attribute is not `len = 0` (must be empty) -/").unwrap();
    writeln!(
        out,
        "def attrLenIgnored : List String := [{}]\n",
        all.iter().flat_map(|(_, _, es)| es.iter()).filter(|e| !e.has_lifetime && e.len != Some(0)).map(|e| format!("{:?}", e.payload)).collect::<Vec<_>>().join(", ")
    )
    .unwrap();
    Ok(())
}

// ------------------------------------------------------------------------------------------------
// builder D: code tables written as `fn f(x: Enum) -> Result<u8, RadioError> { match x { Enum::V => Ok(lit), .. } }`
// (lora-phy radio_kind_params.rs, sx1276.rs, sx1272.rs).  Emitted as `def f : Enum → Option Int`
// (`none` = the `Err(..)` arms).  Fails loudly on any other body shape.

fn d_find_fn<'a>(items: &'a [Item], name: &str) -> Option<(&'a Signature, &'a Block)> {
    for it in items {
        match it {
            Item::Fn(f) if f.sig.ident == name => return Some((&f.sig, &f.block)),
            Item::Impl(im) => {
                for ii in &im.items {
                    if let ImplItem::Fn(f) = ii {
                        if f.sig.ident == name {
                            return Some((&f.sig, &f.block));
                        }
                    }
                }
            }
            _ => {}
        }
    }
    None
}

fn d_lit(e: &Expr) -> Option<i128> {
    match e {
        Expr::Lit(ExprLit { lit: Lit::Int(i), .. }) => i.base10_parse::<i128>().ok(),
        Expr::Paren(p) => d_lit(&p.expr),
        _ => None,
    }
}

pub fn d_result_match_table(file: &File, fname: &str, lean_name: &str, out: &mut String) -> Res<()> {
    let (sig, block) = d_find_fn(&file.items, fname).ok_or(format!("code table fn {} not found", fname))?;
    let enum_ty = sig
        .inputs
        .iter()
        .find_map(|a| match a {
            FnArg::Typed(pt) => match &*pt.ty {
                Type::Path(p) => Some(p.path.segments.last().unwrap().ident.to_string()),
                _ => None,
            },
            _ => None,
        })
        .ok_or(format!("{}: no typed parameter", fname))?;
    let [Stmt::Expr(Expr::Match(m), None)] = block.stmts.as_slice() else {
        return Err(format!("{}: body is not a single match", fname));
    };
    writeln!(out, "def {} : {} → Option Int", lean_name, enum_ty).unwrap();
    for arm in &m.arms {
        if arm.guard.is_some() {
            return Err(format!("{}: guarded arm", fname));
        }
        let pat = match &arm.pat {
            Pat::Path(p) => format!(".{}", p.path.segments.last().unwrap().ident),
            Pat::Wild(_) => "_".to_string(),
            _ => return Err(format!("{}: unsupported pattern", fname)),
        };
        let Expr::Call(c) = &*arm.body else { return Err(format!("{}: arm body is not Ok(..)/Err(..)", fname)) };
        let Expr::Path(fp) = &*c.func else { return Err(format!("{}: arm body is not Ok(..)/Err(..)", fname)) };
        let ctor = fp.path.segments.last().unwrap().ident.to_string();
        let rhs = match ctor.as_str() {
            "Ok" => {
                let v = c.args.first().and_then(d_lit).ok_or(format!("{}: Ok(non-literal)", fname))?;
                format!("some {}", v)
            }
            "Err" => "none".to_string(),
            _ => return Err(format!("{}: arm body is not Ok(..)/Err(..)", fname)),
        };
        writeln!(out, "  | {} => {}", pat, rhs).unwrap();
    }
    writeln!(out).unwrap();
    Ok(())
}

pub fn d_sf_value(f: &File, _r: &mut Registry, out: &mut String) -> Res<()> {
    d_result_match_table(f, "spreading_factor_value", "spreading_factor_value", out)
}
pub fn d_bw_value(f: &File, _r: &mut Registry, out: &mut String) -> Res<()> {
    d_result_match_table(f, "bandwidth_value", "bandwidth_value", out)
}
pub fn d_cr_value(f: &File, _r: &mut Registry, out: &mut String) -> Res<()> {
    d_result_match_table(f, "coding_rate_value", "coding_rate_value", out)
}
pub fn d_cr_denom_value(f: &File, _r: &mut Registry, out: &mut String) -> Res<()> {
    d_result_match_table(f, "coding_rate_denominator_value", "coding_rate_denominator_value", out)
}

