#!/usr/bin/env python3
"""tools/validate_evidence.py [evidence-dir]

Validates every evidence/<id>.json the way a reader of MANIFEST.json would: against
/root/.vp/EVIDENCE.schema.json (when jsonschema is importable; python3-vt has it) and against the
level's own rule -- for `proof`: obligations >= 1 and discharged == obligations, no recorded
violations, no broken obligations.  Run it before committing evidence: a file written by a check
that reported a VIOLATION (a seeded run) is not a record of the unchanged tree.
Exit 0 = every claimed property has a valid record; 1 otherwise (one line per problem).
"""
import json, os, sys

ROOT = os.path.dirname(os.path.dirname(os.path.abspath(__file__)))
evdir = sys.argv[1] if len(sys.argv) > 1 else os.path.join(ROOT, "evidence")
man = json.load(open(os.path.join(ROOT, "MANIFEST.json")))
schema = None
try:
    import jsonschema
    sp = "/root/.vp/EVIDENCE.schema.json"
    if os.path.exists(sp):
        schema = json.load(open(sp))
except ImportError:
    jsonschema = None
bad = 0
for c in man["checks"]:
    pid = c["property_id"]
    f = os.path.join(evdir, pid + ".json")
    if not os.path.exists(f):
        print("%s: no evidence file" % pid); bad += 1; continue
    ev = json.load(open(f))
    probs = []
    if schema is not None:
        for e in jsonschema.Draft202012Validator(schema).iter_errors(ev):
            probs.append("schema: %s" % e.message[:200])
    cov = ev.get("coverage", {})
    if ev.get("property_id") != pid:
        probs.append("property_id %r" % ev.get("property_id"))
    if ev.get("level") == "proof":
        o, d = cov.get("obligations", 0), cov.get("discharged", 0)
        if o < 1 or d != o:
            probs.append("discharged (%s) != obligations (%s)" % (d, o))
    if ev.get("violations", 0) != 0:
        probs.append("violations = %s" % ev.get("violations"))
    if cov.get("broken_obligations"):
        probs.append("broken_obligations: %s" % "; ".join(b[:120] for b in cov["broken_obligations"]))
    if not cov.get("samples"):
        probs.append("no samples")
    for p in probs:
        print("%s: %s" % (pid, p))
    bad += bool(probs)
print("evidence: %d/%d valid" % (len(man["checks"]) - bad, len(man["checks"])))
sys.exit(1 if bad else 0)
