#!/usr/bin/env python3
"""units.rs: both sides appended a Unit before the common closing `], },` — keep both, closing the first."""
import re,sys
p='tools/translate/src/units.rs'; s=open(p).read()
print('blocks',len(re.findall(r'<<<<<<< ',s)))
s=re.sub(r'<<<<<<< [^\n]*\n(.*?)=======\n(.*?)>>>>>>> [^\n]*\n',lambda m:m.group(1)+"        ],\n    },\n"+m.group(2),s,flags=re.S)
open(p,'w').write(s)
