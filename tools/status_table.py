#!/usr/bin/env python3
"""Regenerate the table of DESIGN.md §9.10 from props/*.json, evidence/*.json and seeded/*/ (between the
markers <!-- status-table:begin --> / <!-- status-table:end -->)."""
import json, glob, os, re
root = os.path.dirname(os.path.dirname(os.path.abspath(__file__)))
rows = ["| Prop | theorems | regenerated units (tie A) | quick cases | quick wall s | seeds kept |", "|---|---|---|---|---|---|"]
for f in sorted(glob.glob(os.path.join(root, "props", "C*.json"))):
    p = os.path.basename(f)[:3]
    d = json.load(open(f))
    ev = {}
    try:
        ev = json.load(open(os.path.join(root, "evidence", p + ".json")))
    except Exception:
        pass
    cases = ev.get("coverage", {}).get("evaluations", ev.get("evaluations", "?"))
    wall = ev.get("wall_s", "?")
    seeds = sorted(int(os.path.basename(s).split("-")[1]) for s in glob.glob(os.path.join(root, "seeded", p + "-*")))
    rows.append("| %s | %d | %s | %s | %s | %s |" % (p, len(d.get("theorems", [])), ", ".join(d.get("gen_units", [])) or "—", cases, wall, " ".join(map(str, seeds))))
table = "\n".join(rows)
path = os.path.join(root, "DESIGN.md")
s = open(path).read()
b, e = "<!-- status-table:begin -->", "<!-- status-table:end -->"
if b in s:
    s = re.sub(re.escape(b) + r".*?" + re.escape(e), b + "\n" + table + "\n" + e, s, flags=re.S)
    open(path, "w").write(s)
print(table)
