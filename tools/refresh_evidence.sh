#!/bin/sh
# Re-run every claimed property's quick check on the UNCHANGED /repo tree and verify the evidence
# files (run this before committing evidence: a check run against a seeded tree rewrites them too).
cd "$(dirname "$0")/.."
if [ -n "$(git -C "$(readlink -f repo-link)" status --short)" ]; then echo "repo tree is not clean"; exit 2; fi
rc=0
for p in $(python3 -c "import json;print(' '.join(c['property_id'] for c in json.load(open('MANIFEST.json'))['checks']))"); do
  r=$(./check $p --tier quick 2>&1 | tail -1 | cut -c1-160); echo "$r"; case "$r" in OK*) ;; *) rc=1;; esac
done
PY=python3; command -v python3-vt >/dev/null 2>&1 && PY=python3-vt   # python3-vt has jsonschema: the schema is validated too
$PY tools/validate_evidence.py || rc=1
exit $rc
